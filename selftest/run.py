#!/usr/bin/env python3
"""Self-test of the checkers: every mutant must fire (naming the expected rule), every benign edit must
stay silent.  Each variant is applied to a scratch copy of /repo (removed afterwards); /repo is never touched.

usage: selftest/run.py [-k substring] [--suite] [--kind benign|mutant] [--props C01,C04]     (--suite additionally runs the pinned test-suite on each mutant)
"""
import json
import os
import shutil
import subprocess
import sys
import tempfile
from concurrent.futures import ThreadPoolExecutor

HERE = os.path.dirname(os.path.abspath(__file__))
VERIF = os.path.dirname(HERE)
sys.path.insert(0, HERE)
from variants import VARIANTS  # noqa: E402


def apply(root, edits):
    for e in edits:
        if len(e) == 2 and e[0] == "patch":
            r = subprocess.run(["patch", "-p1", "-s", "-d", root, "-i", os.path.join(HERE, "patches", e[1])], capture_output=True, text=True)
            if r.returncode != 0:
                raise SystemExit("patch variant does not apply: %s\n%s" % (e[1], r.stdout + r.stderr))
            continue
        path, old, new = e
        p = os.path.join(root, path)
        s = open(p).read()
        if s.count(old) != 1:
            raise SystemExit("variant edit does not apply exactly once: %s in %s (count %d)" % (old[:60], path, s.count(old)))
        open(p, "w").write(s.replace(old, new))


def run_variant(v, suite):
    d = tempfile.mkdtemp(prefix="gav-mut-")
    root = os.path.join(d, "repo")
    try:
        shutil.copytree("/repo", root, ignore=shutil.ignore_patterns("target", ".git"))
        apply(root, v["edits"])
        env = dict(os.environ)
        env["GAV_REPO"] = root
        env["GAV_EVIDENCE_DIR"] = os.path.join(d, "evidence")
        res = {}
        for prop in v["props"]:
            r = subprocess.run([os.path.join(VERIF, "bin", "check"), prop, "--tier", v.get("tier", "quick")], env=env, capture_output=True, text=True)
            res[prop] = (r.returncode, r.stdout + r.stderr)
        suite_ok = None
        if suite:
            env2 = dict(os.environ)
            env2["CARGO_TARGET_DIR"] = os.path.join(d, "t")
            r = subprocess.run(["cargo", "test", "--offline", "--lib", "--tests", "--manifest-path", os.path.join(root, "Cargo.toml")], env=env2, capture_output=True, text=True)
            suite_ok = r.returncode == 0
        return v, res, suite_ok
    finally:
        shutil.rmtree(d, ignore_errors=True)


def main():
    args = sys.argv[1:]
    suite = "--suite" in args
    sel = args[args.index("-k") + 1] if "-k" in args else ""
    vs = [v for v in VARIANTS if sel in v["name"]]
    if "--kind" in args:
        vs = [v for v in vs if v["kind"] == args[args.index("--kind") + 1]]
    if "--props" in args:
        # run every selected variant against these properties instead of its own list (used to sweep ALL benign patches against rules that changed)
        ov = args[args.index("--props") + 1].split(",")
        vs = [dict(v, props=ov) for v in vs]
    bad = 0
    with ThreadPoolExecutor(max_workers=4) as ex:
        for v, res, suite_ok in ex.map(lambda v: run_variant(v, suite), vs):
            for prop, (rc, out) in res.items():
                fired = rc != 0
                want = v["kind"] == "mutant"
                exp_rule = v.get("expect", "")
                named = (exp_rule in out) if (want and exp_rule) else True
                ok = (fired == want) and named
                tag = "ok  " if ok else "FAIL"
                if not ok:
                    bad += 1
                print("%s %-7s %-4s %-55s fired=%s%s%s" % (tag, v["kind"], prop, v["name"], fired,
                      "" if named else " (expected rule %s not named)" % exp_rule,
                      "" if suite_ok is None else " suite_passes=%s" % suite_ok))
                if not ok:
                    print("\n".join("      | " + l for l in out.splitlines()[-12:]))
    print("selftest: %d variants, %d failures" % (len(vs), bad))
    return 1 if bad else 0


if __name__ == "__main__":
    sys.exit(main())
