"""Mutants (must fire) and benign edits (must stay silent). edits = [(file, old, new)], applied to a scratch copy."""

VARIANTS = []


def mutant(name, props, edits, expect=""):
    VARIANTS.append({"name": name, "kind": "mutant", "props": props, "edits": edits, "expect": expect})


def benign(name, props, edits):
    VARIANTS.append({"name": name, "kind": "benign", "props": props, "edits": edits})


# ---- C13 ------------------------------------------------------------------------------------
mutant("c13-cmp-swapped", ["C13"], [("src/impls.rs", "Ord::cmp(self.as_slice(), other.as_slice())", "Ord::cmp(other.as_slice(), self.as_slice())")], "C13.D")
mutant("c13-hash-per-element", ["C13"], [("src/impls.rs", "Hash::hash(self.as_slice(), state)", "for x in self.as_slice() { Hash::hash(x, state) }")], "C13.D")
mutant("c13-eq-prefix", ["C13"], [("src/impls.rs", "**self == **other", "self[..N::USIZE.saturating_sub(1)] == other[..N::USIZE.saturating_sub(1)]")], "C13.D")
mutant("c13-partial-cmp-via-reverse", ["C13"], [("src/impls.rs", "PartialOrd::partial_cmp(self.as_slice(), other.as_slice())", "PartialOrd::partial_cmp(self.as_slice(), other.as_slice()).map(Ordering::reverse).map(Ordering::reverse).map(Ordering::reverse)")], "C13.D")
mutant("c13-debug-reversed", ["C13"], [("src/impls.rs", "self.as_slice().fmt(fmt)", "fmt.debug_list().entries(self.iter().rev()).finish()")], "C13.D")
mutant("c13-borrow-tail", ["C13"], [("src/impls.rs", "fn borrow(&self) -> &[T] {\n        self.as_slice()", "fn borrow(&self) -> &[T] {\n        &self.as_slice()[N::USIZE.min(1)..]")], "C13.B")
mutant("c13-as-slice-short", ["C13"], [("src/lib.rs", "slice::from_raw_parts(self as *const Self as *const T, N::USIZE)", "slice::from_raw_parts(self as *const Self as *const T, N::USIZE - (N::USIZE > 7) as usize)")], "C02.V")
benign("c13-eq-as-slice", ["C13"], [("src/impls.rs", "**self == **other", "self.as_slice() == other.as_slice()")])
benign("c13-debug-index", ["C13"], [("src/impls.rs", "self.as_slice().fmt(fmt)", "Debug::fmt(&self[..], fmt)")])
benign("c13-cmp-method", ["C13"], [("src/impls.rs", "Ord::cmp(self.as_slice(), other.as_slice())", "self.as_slice().cmp(other.as_slice())")])
benign("c13-eq-iter", ["C13"], [("src/impls.rs", "**self == **other", "self.as_slice().iter().eq(other.as_slice().iter())")])

# ---- C02 ------------------------------------------------------------------------------------
mutant("c02-from-slice-lt", ["C02"], [("src/lib.rs", "if slice.len() != N::USIZE {\n            panic!(\"slice.len() != N in GenericArray::from_slice\");", "if slice.len() < N::USIZE {\n            panic!(\"slice.len() != N in GenericArray::from_slice\");")], "C02.G")
mutant("c02-try-from-slice-gt", ["C02"], [("src/lib.rs", "if slice.len() != N::USIZE {\n            return Err(LengthError);\n        }\n\n        Ok(unsafe { &*(slice.as_ptr()", "if slice.len() > N::USIZE {\n            return Err(LengthError);\n        }\n\n        Ok(unsafe { &*(slice.as_ptr()")], "C02.G")
mutant("c02-from-mut-slice-ge", ["C02"], [("src/lib.rs", "slice.len() == N::USIZE,\n            \"slice.len() != N in GenericArray::from_mut_slice\"", "slice.len() >= N::USIZE,\n            \"slice.len() != N in GenericArray::from_mut_slice\"")], "C02.G")
mutant("c02-try-from-mut-overstrict", ["C02"], [("src/lib.rs", "match slice.len() == N::USIZE {\n            true => Ok(GenericArray::from_mut_slice(slice)),", "match slice.len() == N::USIZE && N::USIZE != 5 {\n            true => Ok(GenericArray::from_mut_slice(slice)),")], "C02.R")
mutant("c02-as-mut-slice-offset", ["C02"], [("src/lib.rs", "slice::from_raw_parts_mut(self as *mut Self as *mut T, N::USIZE)", "slice::from_raw_parts_mut((self as *mut Self as *mut T).add((N::USIZE > 9) as usize), N::USIZE - (N::USIZE > 9) as usize)")], "C02.V")
mutant("c02-asref-tail", ["C02"], [("src/impls.rs", "fn as_ref(&self) -> &[T] {\n        self.as_slice()", "fn as_ref(&self) -> &[T] {\n        &self.as_slice()[..N::USIZE - (N::USIZE > 12) as usize]")], "C02.D")
mutant("c02-tuple-swapped", ["C02"], [("src/impls.rs", "let ($($t,)*) = tuple;\n                GenericArray::from_array([$($t,)*])", "let ($($t,)*) = tuple;\n                let mut a = [$($t,)*];\n                if a.len() == 11 { a.swap(3, 4); }\n                GenericArray::from_array(a)")], "C02.P")
mutant("c02-from-slice-copy", ["C02"], [("src/lib.rs", "unsafe { &*(slice.as_ptr() as *const GenericArray<T, N>) }\n    }\n\n    /// Converts a slice to a generic array reference with inferred length.\n    ///\n    /// This is a fallible", "unsafe { &*(slice.as_ptr().add(N::USIZE).sub(N::USIZE).add(0usize.wrapping_sub(0)) as *const GenericArray<T, N>).add(0) }\n    }\n\n    /// Converts a slice to a generic array reference with inferred length.\n    ///\n    /// This is a fallible")], "")
mutant("c02-as-slice-detached-lifetime", ["C02"], [("src/lib.rs", "pub const fn as_slice(&self) -> &[T] {", "pub const fn as_slice<'a, 'b>(&'a self) -> &'b [T] {")], "C02.M")
mutant("c02-into-iter-skip", ["C02"], [("src/lib.rs", "fn into_iter(self: &'a GenericArray<T, N>) -> Self::IntoIter {\n        self.as_slice().iter()", "fn into_iter(self: &'a GenericArray<T, N>) -> Self::IntoIter {\n        self.as_slice()[(N::USIZE > 20) as usize..].iter()")], "C02.D")
benign("c02-from-slice-assert-eq", ["C02"], [("src/lib.rs", "if slice.len() != N::USIZE {\n            panic!(\"slice.len() != N in GenericArray::from_slice\");\n        }", "assert!(slice.len() == N::USIZE, \"slice.len() != N in GenericArray::from_slice\");")])
benign("c02-try-from-slice-match", ["C02"], [("src/lib.rs", "if slice.len() != N::USIZE {\n            return Err(LengthError);\n        }\n\n        Ok(unsafe { &*(slice.as_ptr() as *const GenericArray<T, N>) })", "match slice.len() == N::USIZE {\n            true => Ok(unsafe { &*(slice.as_ptr() as *const GenericArray<T, N>) }),\n            false => Err(LengthError),\n        }")])
benign("c02-from-slice-lt-or-gt", ["C02"], [("src/lib.rs", "if slice.len() != N::USIZE {\n            panic!(\"slice.len() != N in GenericArray::from_slice\");", "if slice.len() < N::USIZE || slice.len() > N::USIZE {\n            panic!(\"slice.len() != N in GenericArray::from_slice\");")])
benign("c02-as-slice-cast-method", ["C02"], [("src/lib.rs", "slice::from_raw_parts(self as *const Self as *const T, N::USIZE)", "slice::from_raw_parts((self as *const Self).cast::<T>(), Self::len())")])
benign("c02-asref-via-deref", ["C02"], [("src/impls.rs", "fn as_ref(&self) -> &[T] {\n        self.as_slice()", "fn as_ref(&self) -> &[T] {\n        &**self")])

# ---- C10 ------------------------------------------------------------------------------------
_CH = "let num_chunks = slice.len() / N::USIZE; // integer division\n        let num_in_chunks = num_chunks * N::USIZE;\n        let num_remainder = slice.len() - num_in_chunks;\n\n        unsafe {\n            (\n                slice::from_raw_parts(slice.as_ptr() as *const GenericArray<T, N>, num_chunks),\n                slice::from_raw_parts(slice.as_ptr().add(num_in_chunks), num_remainder),"
mutant("c10-remainder-minus-chunks", ["C10"], [("src/lib.rs", _CH, _CH.replace("slice.len() - num_in_chunks", "slice.len() - num_chunks"))], "C10.C")
mutant("c10-remainder-ptr-add-chunks", ["C10"], [("src/lib.rs", _CH, _CH.replace("slice.as_ptr().add(num_in_chunks)", "slice.as_ptr().add(num_chunks)"))], "C10.C")
mutant("c10-flatten-plus-one", ["C10"], [("src/lib.rs", "slice::from_raw_parts(slice.as_ptr() as *const T, slice.len() * N::USIZE)", "slice::from_raw_parts(slice.as_ptr() as *const T, slice.len() * N::USIZE + 1)")], "C10.F")
mutant("c10-zero-branch-no-assert", ["C10"], [("src/lib.rs", "if N::USIZE == 0 {\n            assert!(slice.is_empty(), \"GenericArray length N must be non-zero\");\n            return (&[], &[]);", "if N::USIZE == 0 {\n            if false { assert!(slice.is_empty(), \"GenericArray length N must be non-zero\"); }\n            return (&[], &[]);")], "C10.C")
mutant("c10-chunks-count-plus", ["C10"], [("src/lib.rs", "slice::from_raw_parts_mut(\n                    slice.as_mut_ptr() as *mut GenericArray<T, N>,\n                    num_chunks,", "slice::from_raw_parts_mut(\n                    slice.as_mut_ptr() as *mut GenericArray<T, N>,\n                    num_chunks + (num_remainder > 0) as usize,")], "C10.C")
benign("c10-remainder-mod", ["C10"], [("src/lib.rs", _CH, _CH.replace("slice.len() - num_in_chunks", "slice.len() % N::USIZE"))])
benign("c10-flatten-commute", ["C10"], [("src/lib.rs", "slice::from_raw_parts(slice.as_ptr() as *const T, slice.len() * N::USIZE)", "slice::from_raw_parts(slice.as_ptr().cast::<T>(), N::USIZE * slice.len())")])

# ---- C09 ------------------------------------------------------------------------------------
mutant("c09-pop-front-tail-offset0", ["C09"], [("src/sequence.rs", "let tail = ptr::read(whole.as_ptr().offset(1) as _);", "let tail = ptr::read(whole.as_ptr().offset(0) as _);")], "C09.M")
mutant("c09-append-last-at-n-minus-1", ["C09"], [("src/sequence.rs", "ptr::write(out_ptr.add(1) as *mut T, last);", "ptr::write((out_ptr as *mut T).add(N::USIZE.saturating_sub(1)), last);")], "C09.M")
mutant("c09-split-mut-tail-plus1", ["C09"], [("src/sequence.rs", "let tail = &mut *(ptr_to_first.add(K::USIZE) as *mut _);", "let tail = &mut *(ptr_to_first.add(K::USIZE + (K::USIZE > 30) as usize) as *mut _);")], "C09.S")
mutant("c09-remove-copy-n-minus-idx", ["C09"], [("src/sequence.rs", "ptr::copy(dst.add(1), dst, N::USIZE - idx - 1);", "ptr::copy(dst.add(1), dst, N::USIZE - idx);")], "C09.M")
mutant("c09-remove-copy-reversed", ["C09"], [("src/sequence.rs", "ptr::copy(dst.add(1), dst, N::USIZE - idx - 1);", "ptr::copy(dst, dst.add(1), N::USIZE - idx - 1);")], "C09.M")
mutant("c09-remove-assert-le", ["C09"], [("src/sequence.rs", "fn remove(self, idx: usize) -> (T, Self::Output) {\n        assert!(\n            idx < N::USIZE,", "fn remove(self, idx: usize) -> (T, Self::Output) {\n        assert!(\n            idx <= N::USIZE,")], "C09.A")
mutant("c09-swap-remove-n-minus-2", ["C09"], [("src/sequence.rs", "array.swap(idx, N::USIZE - 1);", "array.swap(idx, if N::USIZE > 40 { N::USIZE - 2 } else { N::USIZE - 1 });")], "C09.M")
mutant("c09-concat-rest-first", ["C09"], [("src/sequence.rs", "let out_ptr = output.as_mut_ptr() as *mut Self;\n\n        unsafe {\n            // write all of self to the pointer\n            ptr::write(out_ptr, self);\n            // increment past self, then write the rest\n            ptr::write(out_ptr.add(1) as *mut _, rest);", "let out_ptr = output.as_mut_ptr() as *mut Self::Rest;\n\n        unsafe {\n            ptr::write(out_ptr, rest);\n            ptr::write(out_ptr.add(1) as *mut _, self);")], "C09.M")
mutant("c09-split-ref-copying", ["C09"], [("src/sequence.rs", "let ptr_to_first: *const T = self.as_ptr();\n            let head = &*(ptr_to_first as *const _);", "let ptr_to_first: *const T = self.as_ptr();\n            let _x: core::mem::ManuallyDrop<T> = core::mem::ManuallyDrop::new(ptr::read(ptr_to_first.add(N::USIZE - N::USIZE.min(1))));\n            let head = &*(ptr_to_first as *const _);")], "C09.S")
benign("c09-remove-count-reordered", ["C09"], [("src/sequence.rs", "ptr::copy(dst.add(1), dst, N::USIZE - idx - 1);", "ptr::copy(dst.add(1), dst, N::USIZE - 1 - idx);")])
benign("c09-pop-front-add", ["C09"], [("src/sequence.rs", "let tail = ptr::read(whole.as_ptr().offset(1) as _);", "let tail = ptr::read(whole.as_ptr().add(1) as _);")])
benign("c09-split-reads-reordered", ["C09"], [("src/sequence.rs", "let head = ptr::read(whole.as_ptr() as *const _);\n            let tail = ptr::read(whole.as_ptr().add(K::USIZE) as *const _);", "let tail = ptr::read(whole.as_ptr().add(K::USIZE) as *const _);\n            let head = ptr::read(whole.as_ptr() as *const _);")])
benign("c09-remove-assert-if", ["C09"], [("src/sequence.rs", "fn remove(self, idx: usize) -> (T, Self::Output) {\n        assert!(\n            idx < N::USIZE,", "fn remove(self, idx: usize) -> (T, Self::Output) {\n        assert!(\n            N::USIZE > idx,")])

# ---- C11 ------------------------------------------------------------------------------------
mutant("c11-flatten-sum", ["C11"], [
    ("src/sequence.rs", "pub unsafe trait Flatten<T, N, M>: GenericSequence<GenericArray<T, N>, Length = M>\nwhere\n    N: ArrayLength + Mul<M>,\n    Prod<N, M>: ArrayLength,\n{\n    /// Flattened sequence type\n    type Output: GenericSequence<T, Length = Prod<N, M>>;",
     "pub unsafe trait Flatten<T, N, M>: GenericSequence<GenericArray<T, N>, Length = M>\nwhere\n    N: ArrayLength + Mul<M>,\n    Prod<N, M>: ArrayLength,\n{\n    /// Flattened sequence type\n    type Output;"),
    ("src/sequence.rs", "unsafe impl<'a, T, N, M> Flatten<T, N, M> for &'a GenericArray<GenericArray<T, N>, M>\nwhere\n    N: ArrayLength + Mul<M>,\n    M: ArrayLength,\n    Prod<N, M>: ArrayLength,\n{\n    type Output = &'a GenericArray<T, Prod<N, M>>;",
     "unsafe impl<'a, T, N, M> Flatten<T, N, M> for &'a GenericArray<GenericArray<T, N>, M>\nwhere\n    N: ArrayLength + Mul<M> + Add<M>,\n    M: ArrayLength,\n    Prod<N, M>: ArrayLength,\n    Sum<N, M>: ArrayLength,\n{\n    type Output = &'a GenericArray<T, Sum<N, M>>;")], "C11.E")
mutant("c11-unflatten-ref-longer", ["C11"], [
    ("src/sequence.rs", "    /// Unflattened sequence type\n    type Output: GenericSequence<GenericArray<T, N>, Length = Quot<NM, N>>;", "    /// Unflattened sequence type\n    type Output;"),
    ("src/sequence.rs", "    type Output = &'a GenericArray<GenericArray<T, N>, Quot<NM, N>>;", "    type Output = &'a GenericArray<GenericArray<T, N>, NM>;")], "C11.E")
mutant("c11-flatten-mut-from-shared-cast", ["C11"], [("src/sequence.rs", "    type Output = &'a mut GenericArray<T, Prod<N, M>>;\n\n    #[inline(always)]\n    fn flatten(self) -> Self::Output {\n        unsafe { mem::transmute(self) }", "    type Output = &'a mut GenericArray<T, Prod<N, M>>;\n\n    #[inline(always)]\n    fn flatten(self) -> Self::Output {\n        unsafe { mem::transmute(&mut self[M::USIZE - M::USIZE.min(1)]) }")], "C11.E")
benign("c11-flatten-ref-ptr-cast", ["C11"], [("src/sequence.rs", "    type Output = &'a GenericArray<T, Prod<N, M>>;\n\n    #[inline(always)]\n    fn flatten(self) -> Self::Output {\n        unsafe { mem::transmute(self) }", "    type Output = &'a GenericArray<T, Prod<N, M>>;\n\n    #[inline(always)]\n    fn flatten(self) -> Self::Output {\n        unsafe { mem::transmute::<&'a GenericArray<GenericArray<T, N>, M>, Self::Output>(self) }")])

# ---- C01 ------------------------------------------------------------------------------------
_ODD = "#[repr(C)]\n#[doc(hidden)]\npub struct GenericArrayImplOdd<T, U> {\n    parent1: U,\n    parent2: U,\n    data: T,\n}"
_EVEN = "#[repr(C)]\n#[doc(hidden)]\npub struct GenericArrayImplEven<T, U> {\n    parent1: U,\n    parent2: U,\n    _marker: PhantomData<T>,\n}"
mutant("c01-odd-no-repr-c", ["C01"], [("src/lib.rs", _ODD, _ODD.replace("#[repr(C)]\n", ""))], "C01.S")
mutant("c01-even-tag-field", ["C01"], [("src/lib.rs", _EVEN, _EVEN.replace("    _marker: PhantomData<T>,", "    _marker: PhantomData<T>,\n    _tag: [u8; 0],\n    _tag2: (),\n    _pad: core::mem::MaybeUninit<u8>,"))], "C01.")
mutant("c01-base-u8-array", ["C01"], [("src/lib.rs", "type ArrayType<T> = [T; 0];", "type ArrayType<T> = [u8; 0];")], "C01.")
mutant("c01-odd-packed", ["C01"], [("src/lib.rs", _ODD, _ODD.replace("#[repr(C)]", "#[repr(C, packed)]"))], "C01.")
mutant("c01-even-align16", ["C01"], [("src/lib.rs", _EVEN, _EVEN.replace("#[repr(C)]", "#[repr(C, align(16))]"))], "C01.")
mutant("c01-wrapper-rust-repr", ["C01"], [("src/lib.rs", "#[repr(transparent)]\npub struct GenericArray<T, N: ArrayLength> {", "pub struct GenericArray<T, N: ArrayLength> {")], "C01.S")
mutant("c01-const-transmute-no-guard", ["C01"], [("src/lib.rs", "if mem::size_of::<A>() != mem::size_of::<B>() {\n        panic!(\"Size mismatch for generic_array::const_transmute\");", "if mem::size_of::<A>() < mem::size_of::<B>() {\n        panic!(\"Size mismatch for generic_array::const_transmute\");")], "C01.T")
benign("c01-odd-fields-reordered", ["C01"], [("src/lib.rs", _ODD, _ODD.replace("    parent1: U,\n    parent2: U,\n    data: T,", "    data: T,\n    parent1: U,\n    parent2: U,"))])
benign("c01-wrapper-repr-c", ["C01"], [("src/lib.rs", "#[repr(transparent)]\npub struct GenericArray<T, N: ArrayLength> {", "#[repr(C)]\npub struct GenericArray<T, N: ArrayLength> {")])
