"""Mutants (must fire) and benign edits (must stay silent). edits = [(file, old, new)], applied to a scratch copy."""

VARIANTS = []


def mutant(name, props, edits, expect=""):
    VARIANTS.append({"name": name, "kind": "mutant", "props": props, "edits": edits, "expect": expect})


def benign(name, props, edits):
    VARIANTS.append({"name": name, "kind": "benign", "props": props, "edits": edits})


# ---- C13 ------------------------------------------------------------------------------------
mutant("c13-cmp-swapped", ["C13"], [("src/impls.rs", "Ord::cmp(self.as_slice(), other.as_slice())", "Ord::cmp(other.as_slice(), self.as_slice())")], "C13.D")
mutant("c13-hash-per-element", ["C13"], [("src/impls.rs", "Hash::hash(self.as_slice(), state)", "for x in self.as_slice() { Hash::hash(x, state) }")], "C13.D")
mutant("c13-eq-prefix", ["C13"], [("src/impls.rs", "**self == **other", "self[..N::USIZE.saturating_sub(1)] == other[..N::USIZE.saturating_sub(1)]")], "C13.D")
mutant("c13-partial-cmp-via-reverse", ["C13"], [("src/impls.rs", "PartialOrd::partial_cmp(self.as_slice(), other.as_slice())", "PartialOrd::partial_cmp(self.as_slice(), other.as_slice()).map(Ordering::reverse).map(Ordering::reverse).map(Ordering::reverse)")], "C13.D")
mutant("c13-debug-reversed", ["C13"], [("src/impls.rs", "self.as_slice().fmt(fmt)", "fmt.debug_list().entries(self.iter().rev()).finish()")], "C13.D")
mutant("c13-borrow-tail", ["C13"], [("src/impls.rs", "fn borrow(&self) -> &[T] {\n        self.as_slice()", "fn borrow(&self) -> &[T] {\n        &self.as_slice()[N::USIZE.min(1)..]")], "C13.B")
mutant("c13-as-slice-short", ["C13"], [("src/lib.rs", "slice::from_raw_parts(self as *const Self as *const T, N::USIZE)", "slice::from_raw_parts(self as *const Self as *const T, N::USIZE - (N::USIZE > 7) as usize)")], "C02.V")
benign("c13-eq-as-slice", ["C13"], [("src/impls.rs", "**self == **other", "self.as_slice() == other.as_slice()")])
benign("c13-debug-index", ["C13"], [("src/impls.rs", "self.as_slice().fmt(fmt)", "Debug::fmt(&self[..], fmt)")])
benign("c13-cmp-method", ["C13"], [("src/impls.rs", "Ord::cmp(self.as_slice(), other.as_slice())", "self.as_slice().cmp(other.as_slice())")])
benign("c13-eq-iter", ["C13"], [("src/impls.rs", "**self == **other", "self.as_slice().iter().eq(other.as_slice().iter())")])

# ---- C02 ------------------------------------------------------------------------------------
mutant("c02-from-slice-lt", ["C02"], [("src/lib.rs", "if slice.len() != N::USIZE {\n            panic!(\"slice.len() != N in GenericArray::from_slice\");", "if slice.len() < N::USIZE {\n            panic!(\"slice.len() != N in GenericArray::from_slice\");")], "C02.G")
mutant("c02-try-from-slice-gt", ["C02"], [("src/lib.rs", "if slice.len() != N::USIZE {\n            return Err(LengthError);\n        }\n\n        Ok(unsafe { &*(slice.as_ptr()", "if slice.len() > N::USIZE {\n            return Err(LengthError);\n        }\n\n        Ok(unsafe { &*(slice.as_ptr()")], "C02.G")
mutant("c02-from-mut-slice-ge", ["C02"], [("src/lib.rs", "slice.len() == N::USIZE,\n            \"slice.len() != N in GenericArray::from_mut_slice\"", "slice.len() >= N::USIZE,\n            \"slice.len() != N in GenericArray::from_mut_slice\"")], "C02.G")
mutant("c02-try-from-mut-overstrict", ["C02"], [("src/lib.rs", "match slice.len() == N::USIZE {\n            true => Ok(GenericArray::from_mut_slice(slice)),", "match slice.len() == N::USIZE && N::USIZE != 5 {\n            true => Ok(GenericArray::from_mut_slice(slice)),")], "C02.R")
mutant("c02-as-mut-slice-offset", ["C02"], [("src/lib.rs", "slice::from_raw_parts_mut(self as *mut Self as *mut T, N::USIZE)", "slice::from_raw_parts_mut((self as *mut Self as *mut T).add((N::USIZE > 9) as usize), N::USIZE - (N::USIZE > 9) as usize)")], "C02.V")
mutant("c02-asref-tail", ["C02"], [("src/impls.rs", "fn as_ref(&self) -> &[T] {\n        self.as_slice()", "fn as_ref(&self) -> &[T] {\n        &self.as_slice()[..N::USIZE - (N::USIZE > 12) as usize]")], "C02.D")
mutant("c02-tuple-swapped", ["C02"], [("src/impls.rs", "let ($($t,)*) = tuple;\n                GenericArray::from_array([$($t,)*])", "let ($($t,)*) = tuple;\n                let mut a = [$($t,)*];\n                if a.len() == 11 { a.swap(3, 4); }\n                GenericArray::from_array(a)")], "C02.P")
mutant("c02-from-slice-copy", ["C02"], [("src/lib.rs", "unsafe { &*(slice.as_ptr() as *const GenericArray<T, N>) }\n    }\n\n    /// Converts a slice to a generic array reference with inferred length.\n    ///\n    /// This is a fallible", "unsafe { &*(slice.as_ptr().add(N::USIZE).sub(N::USIZE).add(0usize.wrapping_sub(0)) as *const GenericArray<T, N>).add(0) }\n    }\n\n    /// Converts a slice to a generic array reference with inferred length.\n    ///\n    /// This is a fallible")], "")
mutant("c02-as-slice-detached-lifetime", ["C02"], [("src/lib.rs", "pub const fn as_slice(&self) -> &[T] {", "pub const fn as_slice<'a, 'b>(&'a self) -> &'b [T] {")], "C02.M")
mutant("c02-into-iter-skip", ["C02"], [("src/lib.rs", "fn into_iter(self: &'a GenericArray<T, N>) -> Self::IntoIter {\n        self.as_slice().iter()", "fn into_iter(self: &'a GenericArray<T, N>) -> Self::IntoIter {\n        self.as_slice()[(N::USIZE > 20) as usize..].iter()")], "C02.D")
benign("c02-from-slice-assert-eq", ["C02"], [("src/lib.rs", "if slice.len() != N::USIZE {\n            panic!(\"slice.len() != N in GenericArray::from_slice\");\n        }", "assert!(slice.len() == N::USIZE, \"slice.len() != N in GenericArray::from_slice\");")])
benign("c02-try-from-slice-match", ["C02"], [("src/lib.rs", "if slice.len() != N::USIZE {\n            return Err(LengthError);\n        }\n\n        Ok(unsafe { &*(slice.as_ptr() as *const GenericArray<T, N>) })", "match slice.len() == N::USIZE {\n            true => Ok(unsafe { &*(slice.as_ptr() as *const GenericArray<T, N>) }),\n            false => Err(LengthError),\n        }")])
benign("c02-from-slice-lt-or-gt", ["C02"], [("src/lib.rs", "if slice.len() != N::USIZE {\n            panic!(\"slice.len() != N in GenericArray::from_slice\");", "if slice.len() < N::USIZE || slice.len() > N::USIZE {\n            panic!(\"slice.len() != N in GenericArray::from_slice\");")])
benign("c02-as-slice-cast-method", ["C02"], [("src/lib.rs", "slice::from_raw_parts(self as *const Self as *const T, N::USIZE)", "slice::from_raw_parts((self as *const Self).cast::<T>(), Self::len())")])
benign("c02-asref-via-deref", ["C02"], [("src/impls.rs", "fn as_ref(&self) -> &[T] {\n        self.as_slice()", "fn as_ref(&self) -> &[T] {\n        &**self")])

# ---- C10 ------------------------------------------------------------------------------------
_CH = "let num_chunks = slice.len() / N::USIZE; // integer division\n        let num_in_chunks = num_chunks * N::USIZE;\n        let num_remainder = slice.len() - num_in_chunks;\n\n        unsafe {\n            (\n                slice::from_raw_parts(slice.as_ptr() as *const GenericArray<T, N>, num_chunks),\n                slice::from_raw_parts(slice.as_ptr().add(num_in_chunks), num_remainder),"
mutant("c10-remainder-minus-chunks", ["C10"], [("src/lib.rs", _CH, _CH.replace("slice.len() - num_in_chunks", "slice.len() - num_chunks"))], "C10.C")
mutant("c10-remainder-ptr-add-chunks", ["C10"], [("src/lib.rs", _CH, _CH.replace("slice.as_ptr().add(num_in_chunks)", "slice.as_ptr().add(num_chunks)"))], "C10.C")
mutant("c10-flatten-plus-one", ["C10"], [("src/lib.rs", "slice::from_raw_parts(slice.as_ptr() as *const T, slice.len() * N::USIZE)", "slice::from_raw_parts(slice.as_ptr() as *const T, slice.len() * N::USIZE + 1)")], "C10.F")
mutant("c10-zero-branch-no-assert", ["C10"], [("src/lib.rs", "if N::USIZE == 0 {\n            assert!(slice.is_empty(), \"GenericArray length N must be non-zero\");\n            return (&[], &[]);", "if N::USIZE == 0 {\n            if false { assert!(slice.is_empty(), \"GenericArray length N must be non-zero\"); }\n            return (&[], &[]);")], "C10.C")
mutant("c10-chunks-count-plus", ["C10"], [("src/lib.rs", "slice::from_raw_parts_mut(\n                    slice.as_mut_ptr() as *mut GenericArray<T, N>,\n                    num_chunks,", "slice::from_raw_parts_mut(\n                    slice.as_mut_ptr() as *mut GenericArray<T, N>,\n                    num_chunks + (num_remainder > 0) as usize,")], "C10.C")
benign("c10-remainder-mod", ["C10"], [("src/lib.rs", _CH, _CH.replace("slice.len() - num_in_chunks", "slice.len() % N::USIZE"))])
benign("c10-flatten-commute", ["C10"], [("src/lib.rs", "slice::from_raw_parts(slice.as_ptr() as *const T, slice.len() * N::USIZE)", "slice::from_raw_parts(slice.as_ptr().cast::<T>(), N::USIZE * slice.len())")])

# ---- C09 ------------------------------------------------------------------------------------
mutant("c09-pop-front-tail-offset0", ["C09"], [("src/sequence.rs", "let tail = ptr::read(whole.as_ptr().offset(1) as _);", "let tail = ptr::read(whole.as_ptr().offset(0) as _);")], "C09.M")
mutant("c09-append-last-at-n-minus-1", ["C09"], [("src/sequence.rs", "ptr::write(out_ptr.add(1) as *mut T, last);", "ptr::write((out_ptr as *mut T).add(N::USIZE.saturating_sub(1)), last);")], "C09.M")
mutant("c09-split-mut-tail-plus1", ["C09"], [("src/sequence.rs", "let tail = &mut *(ptr_to_first.add(K::USIZE) as *mut _);", "let tail = &mut *(ptr_to_first.add(K::USIZE + (K::USIZE > 30) as usize) as *mut _);")], "C09.S")
mutant("c09-remove-copy-n-minus-idx", ["C09"], [("src/sequence.rs", "ptr::copy(dst.add(1), dst, N::USIZE - idx - 1);", "ptr::copy(dst.add(1), dst, N::USIZE - idx);")], "C09.M")
mutant("c09-remove-copy-reversed", ["C09"], [("src/sequence.rs", "ptr::copy(dst.add(1), dst, N::USIZE - idx - 1);", "ptr::copy(dst, dst.add(1), N::USIZE - idx - 1);")], "C09.M")
mutant("c09-remove-assert-le", ["C09"], [("src/sequence.rs", "fn remove(self, idx: usize) -> (T, Self::Output) {\n        assert!(\n            idx < N::USIZE,", "fn remove(self, idx: usize) -> (T, Self::Output) {\n        assert!(\n            idx <= N::USIZE,")], "C09.A")
mutant("c09-swap-remove-n-minus-2", ["C09"], [("src/sequence.rs", "array.swap(idx, N::USIZE - 1);", "array.swap(idx, if N::USIZE > 40 { N::USIZE - 2 } else { N::USIZE - 1 });")], "C09.M")
mutant("c09-concat-rest-first", ["C09"], [("src/sequence.rs", "let out_ptr = output.as_mut_ptr() as *mut Self;\n\n        unsafe {\n            // write all of self to the pointer\n            ptr::write(out_ptr, self);\n            // increment past self, then write the rest\n            ptr::write(out_ptr.add(1) as *mut _, rest);", "let out_ptr = output.as_mut_ptr() as *mut Self::Rest;\n\n        unsafe {\n            ptr::write(out_ptr, rest);\n            ptr::write(out_ptr.add(1) as *mut _, self);")], "C09.M")
mutant("c09-split-ref-copying", ["C09"], [("src/sequence.rs", "let ptr_to_first: *const T = self.as_ptr();\n            let head = &*(ptr_to_first as *const _);", "let ptr_to_first: *const T = self.as_ptr();\n            let _x: core::mem::ManuallyDrop<T> = core::mem::ManuallyDrop::new(ptr::read(ptr_to_first.add(N::USIZE - N::USIZE.min(1))));\n            let head = &*(ptr_to_first as *const _);")], "C09.S")
benign("c09-remove-count-reordered", ["C09"], [("src/sequence.rs", "ptr::copy(dst.add(1), dst, N::USIZE - idx - 1);", "ptr::copy(dst.add(1), dst, N::USIZE - 1 - idx);")])
benign("c09-pop-front-add", ["C09"], [("src/sequence.rs", "let tail = ptr::read(whole.as_ptr().offset(1) as _);", "let tail = ptr::read(whole.as_ptr().add(1) as _);")])
benign("c09-split-reads-reordered", ["C09"], [("src/sequence.rs", "let head = ptr::read(whole.as_ptr() as *const _);\n            let tail = ptr::read(whole.as_ptr().add(K::USIZE) as *const _);", "let tail = ptr::read(whole.as_ptr().add(K::USIZE) as *const _);\n            let head = ptr::read(whole.as_ptr() as *const _);")])
benign("c09-remove-assert-if", ["C09"], [("src/sequence.rs", "fn remove(self, idx: usize) -> (T, Self::Output) {\n        assert!(\n            idx < N::USIZE,", "fn remove(self, idx: usize) -> (T, Self::Output) {\n        assert!(\n            N::USIZE > idx,")])

# ---- C11 ------------------------------------------------------------------------------------
mutant("c11-flatten-sum", ["C11"], [
    ("src/sequence.rs", "pub unsafe trait Flatten<T, N, M>: GenericSequence<GenericArray<T, N>, Length = M>\nwhere\n    N: ArrayLength + Mul<M>,\n    Prod<N, M>: ArrayLength,\n{\n    /// Flattened sequence type\n    type Output: GenericSequence<T, Length = Prod<N, M>>;",
     "pub unsafe trait Flatten<T, N, M>: GenericSequence<GenericArray<T, N>, Length = M>\nwhere\n    N: ArrayLength + Mul<M>,\n    Prod<N, M>: ArrayLength,\n{\n    /// Flattened sequence type\n    type Output;"),
    ("src/sequence.rs", "unsafe impl<'a, T, N, M> Flatten<T, N, M> for &'a GenericArray<GenericArray<T, N>, M>\nwhere\n    N: ArrayLength + Mul<M>,\n    M: ArrayLength,\n    Prod<N, M>: ArrayLength,\n{\n    type Output = &'a GenericArray<T, Prod<N, M>>;",
     "unsafe impl<'a, T, N, M> Flatten<T, N, M> for &'a GenericArray<GenericArray<T, N>, M>\nwhere\n    N: ArrayLength + Mul<M> + Add<M>,\n    M: ArrayLength,\n    Prod<N, M>: ArrayLength,\n    Sum<N, M>: ArrayLength,\n{\n    type Output = &'a GenericArray<T, Sum<N, M>>;")], "C11.E")
mutant("c11-unflatten-ref-longer", ["C11"], [
    ("src/sequence.rs", "    /// Unflattened sequence type\n    type Output: GenericSequence<GenericArray<T, N>, Length = Quot<NM, N>>;", "    /// Unflattened sequence type\n    type Output;"),
    ("src/sequence.rs", "    type Output = &'a GenericArray<GenericArray<T, N>, Quot<NM, N>>;", "    type Output = &'a GenericArray<GenericArray<T, N>, NM>;")], "C11.E")
mutant("c11-flatten-mut-from-shared-cast", ["C11"], [("src/sequence.rs", "    type Output = &'a mut GenericArray<T, Prod<N, M>>;\n\n    #[inline(always)]\n    fn flatten(self) -> Self::Output {\n        unsafe { mem::transmute(self) }", "    type Output = &'a mut GenericArray<T, Prod<N, M>>;\n\n    #[inline(always)]\n    fn flatten(self) -> Self::Output {\n        unsafe { mem::transmute(&mut self[M::USIZE - M::USIZE.min(1)]) }")], "C11.E")
mutant("c11-unflatten-tcopy-self-dropped", ["C11"], [("src/sequence.rs", "    fn unflatten(self) -> Self::Output {\n        unsafe { crate::const_transmute(self) }", "    fn unflatten(self) -> Self::Output {\n        unsafe { mem::transmute_copy(&self) }")], "C11.E")
mutant("c11-flatten-tcopy-inner-only", ["C11"], [("src/sequence.rs", "    fn flatten(self) -> Self::Output {\n        unsafe { crate::const_transmute(self) }", "    fn flatten(self) -> Self::Output {\n        let this = mem::ManuallyDrop::new(self);\n        unsafe { mem::transmute_copy(&this[M::USIZE - M::USIZE.min(1)]) }")], "C11.E")
# reclassified in round 22: without const_transmute's size comparison the by-value unflatten returns a truncated array (and leaks the tail) outside its
# documented domain, where it used to panic - the change of seed S247, confirmed there by a demonstration; it is a mutant of the domain clause now
mutant("c11-unflatten-md-tcopy", ["C11"], [("src/sequence.rs", "    fn unflatten(self) -> Self::Output {\n        unsafe { crate::const_transmute(self) }", "    fn unflatten(self) -> Self::Output {\n        let this = mem::ManuallyDrop::new(self);\n        unsafe { mem::transmute_copy(&this) }")], "C11.E")
benign("c11-flatten-md-ptr-read", ["C11"], [("src/sequence.rs", "    fn flatten(self) -> Self::Output {\n        unsafe { crate::const_transmute(self) }", "    fn flatten(self) -> Self::Output {\n        let this = mem::ManuallyDrop::new(self);\n        unsafe { ptr::read(&*this as *const GenericArray<GenericArray<T, N>, M> as *const Self::Output) }")])
benign("c11-unflatten-ref-ptr-deref", ["C11"], [("src/sequence.rs", "    type Output = &'a GenericArray<GenericArray<T, N>, Quot<NM, N>>;\n\n    #[inline(always)]\n    fn unflatten(self) -> Self::Output {\n        unsafe { mem::transmute(self) }", "    type Output = &'a GenericArray<GenericArray<T, N>, Quot<NM, N>>;\n\n    #[inline(always)]\n    fn unflatten(self) -> Self::Output {\n        unsafe { &*(self as *const GenericArray<T, NM> as *const GenericArray<GenericArray<T, N>, Quot<NM, N>>) }")])
benign("c11-flatten-ref-ptr-cast", ["C11"], [("src/sequence.rs", "    type Output = &'a GenericArray<T, Prod<N, M>>;\n\n    #[inline(always)]\n    fn flatten(self) -> Self::Output {\n        unsafe { mem::transmute(self) }", "    type Output = &'a GenericArray<T, Prod<N, M>>;\n\n    #[inline(always)]\n    fn flatten(self) -> Self::Output {\n        unsafe { mem::transmute::<&'a GenericArray<GenericArray<T, N>, M>, Self::Output>(self) }")])

# ---- C01 ------------------------------------------------------------------------------------
_ODD = "#[repr(C)]\n#[doc(hidden)]\npub struct GenericArrayImplOdd<T, U> {\n    parent1: U,\n    parent2: U,\n    data: T,\n}"
_EVEN = "#[repr(C)]\n#[doc(hidden)]\npub struct GenericArrayImplEven<T, U> {\n    parent1: U,\n    parent2: U,\n    _marker: PhantomData<T>,\n}"
mutant("c01-odd-no-repr-c", ["C01"], [("src/lib.rs", _ODD, _ODD.replace("#[repr(C)]\n", ""))], "C01.S")
mutant("c01-even-tag-field", ["C01"], [("src/lib.rs", _EVEN, _EVEN.replace("    _marker: PhantomData<T>,", "    _marker: PhantomData<T>,\n    _tag: [u8; 0],\n    _tag2: (),\n    _pad: core::mem::MaybeUninit<u8>,"))], "C01.")
mutant("c01-base-u8-array", ["C01"], [("src/lib.rs", "type ArrayType<T> = [T; 0];", "type ArrayType<T> = [u8; 0];")], "C01.")
mutant("c01-odd-packed", ["C01"], [("src/lib.rs", _ODD, _ODD.replace("#[repr(C)]", "#[repr(C, packed)]"))], "C01.")
mutant("c01-even-align16", ["C01"], [("src/lib.rs", _EVEN, _EVEN.replace("#[repr(C)]", "#[repr(C, align(16))]"))], "C01.")
mutant("c01-wrapper-rust-repr", ["C01"], [("src/lib.rs", "#[repr(transparent)]\npub struct GenericArray<T, N: ArrayLength> {", "pub struct GenericArray<T, N: ArrayLength> {")], "C01.S")
mutant("c01-const-transmute-no-guard", ["C01"], [("src/lib.rs", "if mem::size_of::<A>() != mem::size_of::<B>() {\n        panic!(\"Size mismatch for generic_array::const_transmute\");", "if mem::size_of::<A>() < mem::size_of::<B>() {\n        panic!(\"Size mismatch for generic_array::const_transmute\");")], "C01.T")
benign("c01-odd-fields-reordered", ["C01"], [("src/lib.rs", _ODD, _ODD.replace("    parent1: U,\n    parent2: U,\n    data: T,", "    data: T,\n    parent1: U,\n    parent2: U,"))])
benign("c01-wrapper-repr-c", ["C01"], [("src/lib.rs", "#[repr(transparent)]\npub struct GenericArray<T, N: ArrayLength> {", "#[repr(C)]\npub struct GenericArray<T, N: ArrayLength> {")])

# ---- C04 ------------------------------------------------------------------------------------
_CLONE_FIXED = "        let mut iter = GenericArrayIter {\n            array: unsafe { ptr::read(&self.array) },\n            index: 0,\n            index_back: 0,\n        };\n\n        for (dst, src) in iter.array.as_mut_slice().iter_mut().zip(self.as_slice()) {\n            unsafe { ptr::write(dst, src.clone()) };\n            iter.index_back += 1;\n        }\n\n        iter\n"
_CLONE_OLD = "        let mut array = unsafe { ptr::read(&self.array) };\n        let mut index_back = 0;\n\n        for (dst, src) in array.as_mut_slice().iter_mut().zip(self.as_slice()) {\n            unsafe { ptr::write(dst, src.clone()) };\n            index_back += 1;\n        }\n\n        GenericArrayIter {\n            array,\n            index: 0,\n            index_back,\n        }\n"
mutant("c04-revert-clone-fix", ["C04"], [("src/iter.rs", _CLONE_FIXED, _CLONE_OLD)], "C04.W")
mutant("c04-clone-count-before-write", ["C04"], [("src/iter.rs", "            unsafe { ptr::write(dst, src.clone()) };\n            iter.index_back += 1;", "            iter.index_back += 1;\n            unsafe { ptr::write(dst, src.clone()) };")], "C04.W")
_MAP = "                let value = ptr::read(src);\n\n                *position += 1;\n\n                f(value)\n            }))\n        }\n    }\n\n    #[inline(always)]\n    fn zip"
mutant("c04-map-inc-after-f", ["C04"], [("src/lib.rs", _MAP, _MAP.replace("                *position += 1;\n\n                f(value)", "                let r = f(value);\n                *position += 1;\n                r"))], "C04.P")
mutant("c04-zip-only-left-advanced", ["C04", "C03"], [("src/lib.rs", "                    *left_position += 1;\n                    *right_position = *left_position;\n", "                    *left_position += 1;\n")], "C0")
mutant("c04-zip-needs-drop-test-dropped", ["C04"], [("src/lib.rs", "if mem::needs_drop::<T>() || mem::needs_drop::<B>() {", "if mem::needs_drop::<T>() {")], "C04.O")
mutant("c04-generate-inc-before-write", ["C04"], [("src/lib.rs", "                builder_iter.enumerate().for_each(|(i, dst)| {\n                    dst.write(f(i));\n                    *position += 1;", "                builder_iter.enumerate().for_each(|(i, dst)| {\n                    *position += 1;\n                    dst.write(f(i));")], "C04.P")
mutant("c04-fold-forget-source-before", ["C04"], [("src/lib.rs", "            let mut source = ArrayConsumer::new(self);\n\n            let (array_iter, position) = source.iter_position();\n\n            array_iter.fold(init, |acc, src| {", "            let mut source = ManuallyDrop::new(ArrayConsumer::new(self));\n\n            let (array_iter, position) = source.iter_position();\n\n            array_iter.fold(init, |acc, src| {")], "C04.")
benign("c04-generate-for-loop", ["C03", "C04", "C08", "C15"], [("src/lib.rs", '                builder_iter.enumerate().for_each(|(i, dst)| {\n                    dst.write(f(i));\n                    *position += 1;\n                });', '                for (i, dst) in builder_iter.enumerate() {\n                    dst.write(f(i));\n                    *position += 1;\n                }'), ("src/impl_alloc.rs", '                builder_iter.enumerate().for_each(|(i, dst)| {\n                    dst.write(f(i));\n                    *position += 1;\n                });', '                for (i, dst) in builder_iter.enumerate() {\n                    dst.write(f(i));\n                    *position += 1;\n                }')])
mutant("c04-generate-for-loop-count-before-call", ["C04"], [("src/lib.rs", '                builder_iter.enumerate().for_each(|(i, dst)| {\n                    dst.write(f(i));\n                    *position += 1;\n                });', '                for (i, dst) in builder_iter.enumerate() {\n                    *position += 1;\n                    dst.write(f(i));\n                }')], "C04.P")
mutant("c03-generate-for-loop-no-count", ["C03"], [("src/lib.rs", '                builder_iter.enumerate().for_each(|(i, dst)| {\n                    dst.write(f(i));\n                    *position += 1;\n                });', '                for (i, dst) in builder_iter.enumerate() {\n                    dst.write(f(i));\n                    if i < 1 { *position += 1; }\n                }')], "C03")
mutant("c08-generate-for-loop-index-shift", ["C08"], [("src/lib.rs", '                builder_iter.enumerate().for_each(|(i, dst)| {\n                    dst.write(f(i));\n                    *position += 1;\n                });', '                for (i, dst) in builder_iter.enumerate() {\n                    dst.write(f(i + (i > 40) as usize));\n                    *position += 1;\n                }')], "C08.G")
mutant("c08-generate-for-loop-break", ["C08", "C03"], [("src/lib.rs", '                builder_iter.enumerate().for_each(|(i, dst)| {\n                    dst.write(f(i));\n                    *position += 1;\n                });', '                for (i, dst) in builder_iter.enumerate() {\n                    if i == 40 { break; }\n                    dst.write(f(i));\n                    *position += 1;\n                }')], "")
mutant("c04-extend-inc-then-write", ["C04"], [("src/internal.rs", "impl<'a, T, N: ArrayLength> IntrusiveArrayBuilder<'a, T, N> {", "impl<'a, T, N: ArrayLength> IntrusiveArrayBuilder<'a, T, N> {\n    // (mutant marker)"), ("src/internal.rs", "    pub unsafe fn extend(&mut self, source: impl Iterator<Item = T>) {\n        let (destination, position) = (self.array.iter_mut(), &mut self.position);\n\n        destination.zip(source).for_each(|(dst, src)| {\n            dst.write(src);\n            *position += 1;\n        });\n    }\n\n    /// Returns true if the write position equals the array size\n    #[inline(always)]\n    pub const fn is_full(&self) -> bool {\n        self.position == N::USIZE\n    }\n\n    /// Creates a mutable iterator for writing to the array elements.\n    ///\n    /// You MUST increment the position value (given as a mutable reference) as you iterate\n    /// to mark how many elements have been created.\n    ///\n    /// ```\n    /// #[cfg(feature = \"internals\")]\n    /// # {\n    /// # use generic_array::{GenericArray, internals::IntrusiveArrayBuilder", "    pub unsafe fn extend(&mut self, source: impl Iterator<Item = T>) {\n        let (destination, position) = (self.array.iter_mut(), &mut self.position);\n\n        destination.zip(source).for_each(|(dst, src)| {\n            *position += 1;\n            dst.write(src);\n        });\n    }\n\n    /// Returns true if the write position equals the array size\n    #[inline(always)]\n    pub const fn is_full(&self) -> bool {\n        self.position == N::USIZE\n    }\n\n    /// Creates a mutable iterator for writing to the array elements.\n    ///\n    /// You MUST increment the position value (given as a mutable reference) as you iterate\n    /// to mark how many elements have been created.\n    ///\n    /// ```\n    /// #[cfg(feature = \"internals\")]\n    /// # {\n    /// # use generic_array::{GenericArray, internals::IntrusiveArrayBuilder")], "C04.P")
benign("c04-map-rename-and-hoist", ["C04"], [("src/lib.rs", _MAP, _MAP.replace("                let value = ptr::read(src);\n\n                *position += 1;\n\n                f(value)", "                let moved_out = ptr::read(src);\n                *position = *position + 1;\n                let out = f(moved_out);\n                out"))])

# ---- C05 ------------------------------------------------------------------------------------
_NTH_FIXED = "        let skipped = self.index..next_index;\n        self.index = next_index;\n\n        unsafe {\n            ptr::drop_in_place(self.array.get_unchecked_mut(skipped));\n        }\n"
_NTH_OLD = "        unsafe {\n            ptr::drop_in_place(self.array.get_unchecked_mut(self.index..next_index));\n        }\n\n        self.index = next_index;\n"
mutant("c05-revert-nth-fix", ["C05"], [("src/iter.rs", _NTH_FIXED, _NTH_OLD)], "C05.X")
_NTHB_FIXED = "        let skipped = next_back..self.index_back;\n        self.index_back = next_back;\n\n        unsafe {\n            ptr::drop_in_place(self.array.get_unchecked_mut(skipped));\n        }\n"
mutant("c05-revert-nth-back-fix", ["C05"], [("src/iter.rs", _NTHB_FIXED, "        unsafe {\n            ptr::drop_in_place(self.array.get_unchecked_mut(next_back..self.index_back));\n        }\n\n        self.index_back = next_back;\n")], "C05.X")
mutant("c05-nth-excludes-one-less", ["C05"], [("src/iter.rs", _NTH_FIXED, "        let skipped = self.index..next_index;\n        self.index = next_index - (next_index > self.index + 5) as usize;\n\n        unsafe {\n            ptr::drop_in_place(self.array.get_unchecked_mut(skipped));\n        }\n        self.index = next_index;\n")], "C05.X")
mutant("c05-consumer-drop-from-next", ["C05"], [("src/internal.rs", "ptr::drop_in_place(self.array.get_unchecked_mut(self.position..));", "ptr::drop_in_place(self.array.get_unchecked_mut(self.position.saturating_sub((self.position > 60) as usize)..));")], "C05.R")
mutant("c05-builder-drop-inclusive", ["C05"], [("src/internal.rs", "impl<T, N: ArrayLength> Drop for IntrusiveArrayBuilder<'_, T, N> {\n    fn drop(&mut self) {\n        unsafe {\n            ptr::drop_in_place(\n                // Same cast as MaybeUninit::slice_assume_init_mut\n                self.array.get_unchecked_mut(..self.position)", "impl<T, N: ArrayLength> Drop for IntrusiveArrayBuilder<'_, T, N> {\n    fn drop(&mut self) {\n        unsafe {\n            ptr::drop_in_place(\n                // Same cast as MaybeUninit::slice_assume_init_mut\n                self.array.get_unchecked_mut(..self.position + (self.position > 70 && self.position < N::USIZE) as usize)")], "C05.R")
benign("c05-nth-min-form", ["C05"], [("src/iter.rs", "let next_index = self.index + cmp::min(n, self.len());", "let next_index = cmp::min(self.index + n, self.index_back);")])

# ---- C03 ------------------------------------------------------------------------------------
mutant("c03-map-no-increment", ["C03"], [("src/lib.rs", _MAP, _MAP.replace("                *position += 1;\n\n", ""))], "C03.P")
mutant("c03-map-double-read", ["C03"], [("src/lib.rs", _MAP, _MAP.replace("                f(value)", "                let _again = ManuallyDrop::new(ptr::read(src));\n                f(value)"))], "C03.P")
mutant("c03-pop-back-tail-at-n", ["C03"], [("src/sequence.rs", "let last = ptr::read(whole.as_ptr().add(Sub1::<N>::USIZE) as _);", "let last = ptr::read(whole.as_ptr().add(Sub1::<N>::USIZE.saturating_sub((N::USIZE > 90) as usize)) as _);")], "C03.T")
mutant("c03-iter-fold-forget-before", ["C04"], [("src/iter.rs", "    fn fold<B, F>(mut self, init: B, mut f: F) -> B\n    where\n        F: FnMut(B, Self::Item) -> B,\n    {\n        let ret = unsafe {", "    fn fold<B, F>(self, init: B, mut f: F) -> B\n    where\n        F: FnMut(B, Self::Item) -> B,\n    {\n        let mut self_ = ManuallyDrop::new(self);\n        let self__: &mut Self = &mut self_;\n        let ret = unsafe {"),
    ("src/iter.rs", "            } = self;\n\n            let remaining = array.get_unchecked(*index..index_back);\n\n            remaining.iter().fold(init, |acc, src| {", "            } = *self__;\n\n            let remaining = array.get_unchecked(*index..index_back);\n\n            remaining.iter().fold(init, |acc, src| {"),
    ("src/iter.rs", "        // destructuring never moves by value, so its behavior on drop remains intact.\n        mem::forget(self);", "        // destructuring never moves by value, so its behavior on drop remains intact.\n")], "C0")
mutant("c03-consumer-drop-skip-one", ["C03"], [("src/internal.rs", "ptr::drop_in_place(self.array.get_unchecked_mut(self.position..));", "ptr::drop_in_place(self.array.get_unchecked_mut(self.position + (self.position > 80 && self.position < N::USIZE) as usize..));")], "C05.R")
mutant("c03-try-from-iter-finish-unguarded", ["C03"], [("src/lib.rs", "            if !builder.is_full() || iter.next().is_some() {\n                return Err(LengthError);\n            }", "            if iter.next().is_some() {\n                return Err(LengthError);\n            }")], "C03.F")
mutant("c03-generate-take", ["C03"], [("src/lib.rs", "builder_iter.enumerate().for_each(|(i, dst)| {\n                    dst.write(f(i));\n                    *position += 1;\n                });\n            }\n\n            builder.finish();\n            IntrusiveArrayBuilder::array_assume_init(array)", "builder_iter.enumerate().take(if N::USIZE > 100 { N::USIZE - 1 } else { N::USIZE }).for_each(|(i, dst)| {\n                    dst.write(f(i));\n                    *position += 1;\n                });\n            }\n\n            builder.finish();\n            IntrusiveArrayBuilder::array_assume_init(array)")], "C03.F")
benign("c03-split-offset-form", ["C03"], [("src/sequence.rs", "let tail = ptr::read(whole.as_ptr().add(K::USIZE) as *const _);", "let tail = ptr::read(whole.as_ptr().offset(K::USIZE as isize) as *const _);")])

# ---- C06 ------------------------------------------------------------------------------------
mutant("c06-nth-min-n-plus-1", ["C06"], [("src/iter.rs", "let next_index = self.index + cmp::min(n, self.len());", "let next_index = self.index + cmp::min(n + 1, self.len());")], "C06.S")
mutant("c06-next-back-read-before-dec", ["C06"], [("src/iter.rs", "            self.index_back -= 1;\n\n            unsafe { Some(ptr::read(self.array.get_unchecked(self.index_back))) }", "            let p = unsafe { Some(ptr::read(self.array.get_unchecked(self.index_back))) };\n            self.index_back -= 1;\n            p")], "C06.")
mutant("c06-len-plus-one", ["C06"], [("src/iter.rs", "    fn len(&self) -> usize {\n        self.index_back - self.index\n    }", "    fn len(&self) -> usize {\n        self.index_back - self.index + (self.index > 50) as usize\n    }")], "MODEL")
mutant("c06-size-hint-upper-none", ["C06"], [("src/iter.rs", "        let len = self.len();\n        (len, Some(len))", "        let len = self.len();\n        (len, None)")], "C06.S")
mutant("c06-clone-whole-array", ["C06"], [("src/iter.rs", "iter.array.as_mut_slice().iter_mut().zip(self.as_slice())", "iter.array.as_mut_slice().iter_mut().zip(self.array.as_slice())")], "C06.S")
mutant("c06-rfold-via-fold", ["C06"], [("src/iter.rs", "            remaining.iter().rfold(init, |acc, src| {\n                let value = ptr::read(src);\n\n                *index_back -= 1;", "            remaining.iter().rev().fold(init, |acc, src| {\n                let value = ptr::read(src);\n\n                *index_back -= 1;")], "C06.S")
mutant("c06-rfold-forward", ["C06"], [("src/iter.rs", "            remaining.iter().rfold(init, |acc, src| {", "            remaining.iter().fold(init, |acc, src| {")], "C06.S")
mutant("c06-next-stores-on-none", ["C06"], [("src/iter.rs", "            p\n        } else {\n            None\n        }", "            p\n        } else {\n            self.index = self.index_back;\n            None\n        }")], "C06.S")
mutant("c06-next-guard-le", ["C06"], [("src/iter.rs", "    fn next(&mut self) -> Option<T> {\n        if self.index < self.index_back {", "    fn next(&mut self) -> Option<T> {\n        if self.index <= self.index_back && self.index < N::USIZE {")], "C06.")
mutant("c06-as-slice-from-zero", ["C06"], [("src/iter.rs", "unsafe { self.array.get_unchecked(self.index..self.index_back) }", "unsafe { self.array.get_unchecked(self.index.saturating_sub((self.index > 33) as usize)..self.index_back) }")], "MODEL")
mutant("c06-last-is-next", ["C06"], [("src/iter.rs", "        // Note, everything else will correctly drop first as `self` leaves scope.\n        self.next_back()", "        // Note, everything else will correctly drop first as `self` leaves scope.\n        if self.len() > 77 { self.next() } else { self.next_back() }")], "C06.S")
benign("c06-nth-override-removed", ["C06", "C05", "C03"], [("src/iter.rs", '    fn nth(&mut self, n: usize) -> Option<T> {\n        // First consume values prior to the nth.\n        let next_index = self.index + cmp::min(n, self.len());\n\n        // Advance first, so the skipped elements are no longer owned by the\n        // iterator if one of their destructors panics.\n        let skipped = self.index..next_index;\n        self.index = next_index;\n\n        unsafe {\n            ptr::drop_in_place(self.array.get_unchecked_mut(skipped));\n        }\n\n        self.next()\n    }\n', "")])
benign("c06-nth-back-override-removed", ["C06", "C05"], [("src/iter.rs", '    fn nth_back(&mut self, n: usize) -> Option<T> {\n        let next_back = self.index_back - cmp::min(n, self.len());\n\n        // Same as `nth`: shrink first, then drop the skipped elements.\n        let skipped = next_back..self.index_back;\n        self.index_back = next_back;\n\n        unsafe {\n            ptr::drop_in_place(self.array.get_unchecked_mut(skipped));\n        }\n\n        self.next_back()\n    }\n', "")])
benign("c06-count-last-overrides-removed", ["C06"], [("src/iter.rs", "    #[inline(always)]\n    fn count(self) -> usize {\n        self.len()\n    }\n", ""), ("src/iter.rs", "    #[inline]\n    fn last(mut self) -> Option<T> {\n        // Note, everything else will correctly drop first as `self` leaves scope.\n        self.next_back()\n    }\n", "")])
benign("c06-nth-fast-path-clear-helper", ["C06", "C05", "C03"], [("src/iter.rs", '}\n\nimpl<T, N: ArrayLength> IntoIterator for GenericArray<T, N> {', '    fn as_mut_slice_range(&mut self, r: core::ops::Range<usize>) -> &mut [T] {\n        unsafe { self.array.get_unchecked_mut(r) }\n    }\n\n    /// Drops all remaining items, leaving the iterator exhausted.\n    fn clear(&mut self) {\n        let live = self.index..self.index_back;\n        self.index = self.index_back;\n        unsafe {\n            ptr::drop_in_place(self.as_mut_slice_range(live));\n        }\n    }\n}\n\nimpl<T, N: ArrayLength> IntoIterator for GenericArray<T, N> {'), ("src/iter.rs", "    fn nth(&mut self, n: usize) -> Option<T> {\n", '    fn nth(&mut self, n: usize) -> Option<T> {\n        if n >= self.len() {\n            self.clear();\n            return None;\n        }\n'), ("src/iter.rs", "    fn nth_back(&mut self, n: usize) -> Option<T> {\n", '    fn nth_back(&mut self, n: usize) -> Option<T> {\n        if n >= self.len() {\n            self.clear();\n            return None;\n        }\n')])
mutant("c06-nth-fast-path-gt", ["C06"], [("src/iter.rs", '}\n\nimpl<T, N: ArrayLength> IntoIterator for GenericArray<T, N> {', '    fn as_mut_slice_range(&mut self, r: core::ops::Range<usize>) -> &mut [T] {\n        unsafe { self.array.get_unchecked_mut(r) }\n    }\n\n    /// Drops all remaining items, leaving the iterator exhausted.\n    fn clear(&mut self) {\n        let live = self.index..self.index_back;\n        self.index = self.index_back;\n        unsafe {\n            ptr::drop_in_place(self.as_mut_slice_range(live));\n        }\n    }\n}\n\nimpl<T, N: ArrayLength> IntoIterator for GenericArray<T, N> {'), ("src/iter.rs", "    fn nth(&mut self, n: usize) -> Option<T> {\n", '    fn nth(&mut self, n: usize) -> Option<T> {\n        if n + 1 >= self.len() {\n            self.clear();\n            return None;\n        }\n')], "C06.S")
mutant("c06-nth-fast-path-clear-keeps-one", ["C06"], [("src/iter.rs", '}\n\nimpl<T, N: ArrayLength> IntoIterator for GenericArray<T, N> {', '    fn as_mut_slice_range(&mut self, r: core::ops::Range<usize>) -> &mut [T] {\n        unsafe { self.array.get_unchecked_mut(r) }\n    }\n\n    /// Drops all remaining items, leaving the iterator exhausted.\n    fn clear(&mut self) {\n        let live = self.index..self.index_back - (self.index_back - self.index).min(1);\n        self.index = self.index_back;\n        unsafe {\n            ptr::drop_in_place(self.as_mut_slice_range(live));\n        }\n    }\n}\n\nimpl<T, N: ArrayLength> IntoIterator for GenericArray<T, N> {'), ("src/iter.rs", "    fn nth(&mut self, n: usize) -> Option<T> {\n", '    fn nth(&mut self, n: usize) -> Option<T> {\n        if n >= self.len() {\n            self.clear();\n            return None;\n        }\n')], "C06.S")
benign("c06-nth-extract-skip-helper", ["C06", "C05", "C03"], [("src/iter.rs", '}\n\nimpl<T, N: ArrayLength> IntoIterator for GenericArray<T, N> {', '    fn skip_front(&mut self, m: usize) {\n        let skipped = self.index..self.index + m;\n        self.index += m;\n        unsafe {\n            ptr::drop_in_place(self.array.get_unchecked_mut(skipped));\n        }\n    }\n}\n\nimpl<T, N: ArrayLength> IntoIterator for GenericArray<T, N> {'), ("src/iter.rs", '    fn nth(&mut self, n: usize) -> Option<T> {\n        // First consume values prior to the nth.\n        let next_index = self.index + cmp::min(n, self.len());\n\n        // Advance first, so the skipped elements are no longer owned by the\n        // iterator if one of their destructors panics.\n        let skipped = self.index..next_index;\n        self.index = next_index;\n\n        unsafe {\n            ptr::drop_in_place(self.array.get_unchecked_mut(skipped));\n        }\n\n        self.next()\n    }\n', '    fn nth(&mut self, n: usize) -> Option<T> {\n        let m = cmp::min(n, self.len());\n        self.skip_front(m);\n        self.next()\n    }\n')])
mutant("c06-nth-extract-skip-helper-off-by-one", ["C06"], [("src/iter.rs", '}\n\nimpl<T, N: ArrayLength> IntoIterator for GenericArray<T, N> {', '    fn skip_front(&mut self, m: usize) {\n        let skipped = self.index..self.index + m;\n        self.index += m;\n        unsafe {\n            ptr::drop_in_place(self.array.get_unchecked_mut(skipped));\n        }\n    }\n}\n\nimpl<T, N: ArrayLength> IntoIterator for GenericArray<T, N> {'), ("src/iter.rs", '    fn nth(&mut self, n: usize) -> Option<T> {\n        // First consume values prior to the nth.\n        let next_index = self.index + cmp::min(n, self.len());\n\n        // Advance first, so the skipped elements are no longer owned by the\n        // iterator if one of their destructors panics.\n        let skipped = self.index..next_index;\n        self.index = next_index;\n\n        unsafe {\n            ptr::drop_in_place(self.array.get_unchecked_mut(skipped));\n        }\n\n        self.next()\n    }\n', '    fn nth(&mut self, n: usize) -> Option<T> {\n        let m = cmp::min(n + 1, self.len());\n        self.skip_front(m);\n        self.next()\n    }\n')], "C06.S")
benign("c06-nth-via-advance-helper-consuming", ["C06", "C05", "C03"], [("src/iter.rs", '}\n\nimpl<T, N: ArrayLength> IntoIterator for GenericArray<T, N> {', '    fn advance_front(&mut self, n: usize) -> Result<(), usize> {\n        let len = self.len();\n        let m = if n > len { len } else { n };\n        let skipped = self.index..(self.index + m);\n        self.index = skipped.end;\n        unsafe {\n            ptr::drop_in_place(self.array.get_unchecked_mut(skipped));\n        }\n        if n > len {\n            Err(n - len)\n        } else {\n            Ok(())\n        }\n    }\n}\n\nimpl<T, N: ArrayLength> IntoIterator for GenericArray<T, N> {'), ("src/iter.rs", '    fn nth(&mut self, n: usize) -> Option<T> {\n        // First consume values prior to the nth.\n        let next_index = self.index + cmp::min(n, self.len());\n\n        // Advance first, so the skipped elements are no longer owned by the\n        // iterator if one of their destructors panics.\n        let skipped = self.index..next_index;\n        self.index = next_index;\n\n        unsafe {\n            ptr::drop_in_place(self.array.get_unchecked_mut(skipped));\n        }\n\n        self.next()\n    }\n', '    fn nth(&mut self, n: usize) -> Option<T> {\n        self.advance_front(n).ok()?;\n        self.next()\n    }\n')])
mutant("c06-nth-via-advance-helper-not-consuming", ["C06"], [("src/iter.rs", '}\n\nimpl<T, N: ArrayLength> IntoIterator for GenericArray<T, N> {', '    fn advance_front(&mut self, n: usize) -> Result<(), usize> {\n        let len = self.len();\n        if n > len {\n            return Err(n - len);\n        }\n        let m = n;\n        let skipped = self.index..(self.index + m);\n        self.index = skipped.end;\n        unsafe {\n            ptr::drop_in_place(self.array.get_unchecked_mut(skipped));\n        }\n        if n > len {\n            Err(n - len)\n        } else {\n            Ok(())\n        }\n    }\n}\n\nimpl<T, N: ArrayLength> IntoIterator for GenericArray<T, N> {'), ("src/iter.rs", '    fn nth(&mut self, n: usize) -> Option<T> {\n        // First consume values prior to the nth.\n        let next_index = self.index + cmp::min(n, self.len());\n\n        // Advance first, so the skipped elements are no longer owned by the\n        // iterator if one of their destructors panics.\n        let skipped = self.index..next_index;\n        self.index = next_index;\n\n        unsafe {\n            ptr::drop_in_place(self.array.get_unchecked_mut(skipped));\n        }\n\n        self.next()\n    }\n', '    fn nth(&mut self, n: usize) -> Option<T> {\n        self.advance_front(n).ok()?;\n        self.next()\n    }\n')], "C06.S")
benign("c03-nth-via-advance-helper-not-consuming-keeps-ownership", ["C03", "C05"], [("src/iter.rs", '}\n\nimpl<T, N: ArrayLength> IntoIterator for GenericArray<T, N> {', '    fn advance_front(&mut self, n: usize) -> Result<(), usize> {\n        let len = self.len();\n        if n > len {\n            return Err(n - len);\n        }\n        let m = n;\n        let skipped = self.index..(self.index + m);\n        self.index = skipped.end;\n        unsafe {\n            ptr::drop_in_place(self.array.get_unchecked_mut(skipped));\n        }\n        if n > len {\n            Err(n - len)\n        } else {\n            Ok(())\n        }\n    }\n}\n\nimpl<T, N: ArrayLength> IntoIterator for GenericArray<T, N> {'), ("src/iter.rs", '    fn nth(&mut self, n: usize) -> Option<T> {\n        // First consume values prior to the nth.\n        let next_index = self.index + cmp::min(n, self.len());\n\n        // Advance first, so the skipped elements are no longer owned by the\n        // iterator if one of their destructors panics.\n        let skipped = self.index..next_index;\n        self.index = next_index;\n\n        unsafe {\n            ptr::drop_in_place(self.array.get_unchecked_mut(skipped));\n        }\n\n        self.next()\n    }\n', '    fn nth(&mut self, n: usize) -> Option<T> {\n        self.advance_front(n).ok()?;\n        self.next()\n    }\n')])
benign("c06-fold-refactored", ["C06"], [("src/iter.rs", "    fn fold<B, F>(mut self, init: B, mut f: F) -> B\n    where\n        F: FnMut(B, Self::Item) -> B,\n    {", "    fn fold<B, F>(mut self, init: B, mut f: F) -> B\n    where\n        F: FnMut(B, Self::Item) -> B,\n    {\n        let init = init;"), ("src/iter.rs", "                *index += 1;\n\n                f(acc, value)", "                *index += 1;\n\n                let r = f(acc, value);\n                r")])
# (this one was registered as a benign variant until round 14: `index + n` overflows for n > usize::MAX - index - it is seed S164's change)
mutant("c06-nth-min-form", ["C06"], [("src/iter.rs", "let next_index = self.index + cmp::min(n, self.len());", "let next_index = cmp::min(self.index + n, self.index_back);")], "C06.N")
benign("c06-nth-min-form-saturating", ["C06", "C03", "C05"], [("src/iter.rs", "let next_index = self.index + cmp::min(n, self.len());", "let next_index = cmp::min(self.index.saturating_add(n), self.index_back);")])
benign("c06-next-match-form", ["C06"], [("src/iter.rs", "    fn next(&mut self) -> Option<T> {\n        if self.index < self.index_back {", "    fn next(&mut self) -> Option<T> {\n        if self.index_back > self.index {")])

# ---- C07 ------------------------------------------------------------------------------------
mutant("c07-no-excess-poll", ["C07"], [("src/lib.rs", "if !builder.is_full() || iter.next().is_some() {", "if !builder.is_full() {")], "C07.O")
mutant("c07-lower-ge", ["C07"], [("src/lib.rs", "(n, _) if n > N::USIZE => return Err(LengthError),\n            // if the upper bound is smaller than N, array cannot be filled\n            (_, Some(n)) if n < N::USIZE => return Err(LengthError),\n            _ => {}\n        }\n\n        unsafe {", "(n, _) if n >= N::USIZE && n > 0 => return Err(LengthError),\n            // if the upper bound is smaller than N, array cannot be filled\n            (_, Some(n)) if n < N::USIZE => return Err(LengthError),\n            _ => {}\n        }\n\n        unsafe {")], "C07.H")
mutant("c07-zip-source-first", ["C07"], [("src/internal.rs", "impl<'a, T, N: ArrayLength> IntrusiveArrayBuilder<'a, T, N> {", "impl<'a, T, N: ArrayLength> IntrusiveArrayBuilder<'a, T, N> {\n    // zip order mutant"), ("src/internal.rs", "        destination.zip(source).for_each(|(dst, src)| {\n            dst.write(src);\n            *position += 1;\n        });\n    }\n\n    /// Returns true if the write position equals the array size\n    #[inline(always)]\n    pub const fn is_full(&self) -> bool {\n        self.position == N::USIZE\n    }\n\n    /// Creates a mutable iterator for writing to the array elements.\n    ///\n    /// You MUST increment the position value (given as a mutable reference) as you iterate\n    /// to mark how many elements have been created.\n    ///\n    /// ```\n    /// #[cfg(feature = \"internals\")]\n    /// # {\n    /// # use generic_array::{GenericArray, internals::IntrusiveArrayBuilder", "        source.zip(destination).for_each(|(src, dst)| {\n            dst.write(src);\n            *position += 1;\n        });\n    }\n\n    /// Returns true if the write position equals the array size\n    #[inline(always)]\n    pub const fn is_full(&self) -> bool {\n        self.position == N::USIZE\n    }\n\n    /// Creates a mutable iterator for writing to the array elements.\n    ///\n    /// You MUST increment the position value (given as a mutable reference) as you iterate\n    /// to mark how many elements have been created.\n    ///\n    /// ```\n    /// #[cfg(feature = \"internals\")]\n    /// # {\n    /// # use generic_array::{GenericArray, internals::IntrusiveArrayBuilder")], "C07.Z")
mutant("c07-poll-when-not-full", ["C07"], [("src/lib.rs", "if !builder.is_full() || iter.next().is_some() {", "if iter.next().is_some() || !builder.is_full() {")], "C07.P")
mutant("c07-boxed-no-take", ["C07"], [("src/impl_alloc.rs", "v.extend((&mut iter).take(N::USIZE));", "v.extend((&mut iter).take(N::USIZE + 1));")], "C07.Z")
benign("c07-boxed-len-lt-is-len-ne-after-take", ["C07", "C15"], [("src/impl_alloc.rs", "if v.len() != N::USIZE || iter.next().is_some() {\n            return Err(LengthError);\n        }\n\n        Ok(GenericArray::try_from_vec(v).unwrap())", "if v.len() < N::USIZE || iter.next().is_some() {\n            return Err(LengthError);\n        }\n\n        Ok(GenericArray::try_from_vec(v).unwrap())")])  # an equivalent "mutant": take(N) caps the Vec at N items, so `< N` is `!= N` (was listed as a mutant until the Vec length model saw that)
mutant("c07-is-full-ge", ["C07"], [("src/internal.rs", "pub struct IntrusiveArrayBuilder<'a, T, N: ArrayLength> {", "// is_full mutant\npub struct IntrusiveArrayBuilder<'a, T, N: ArrayLength> {"), ("src/internal.rs", "    pub const fn is_full(&self) -> bool {\n        self.position == N::USIZE\n    }\n\n    /// Creates a mutable iterator for writing to the array elements.\n    ///\n    /// You MUST increment the position value (given as a mutable reference) as you iterate\n    /// to mark how many elements have been created.\n    ///\n    /// ```\n    /// #[cfg(feature = \"internals\")]\n    /// # {\n    /// # use generic_array::{GenericArray, internals::IntrusiveArrayBuilder", "    pub const fn is_full(&self) -> bool {\n        self.position + 1 >= N::USIZE\n    }\n\n    /// Creates a mutable iterator for writing to the array elements.\n    ///\n    /// You MUST increment the position value (given as a mutable reference) as you iterate\n    /// to mark how many elements have been created.\n    ///\n    /// ```\n    /// #[cfg(feature = \"internals\")]\n    /// # {\n    /// # use generic_array::{GenericArray, internals::IntrusiveArrayBuilder")], "")
mutant("c07-from-iter-swallow", ["C07"], [("src/lib.rs", "            Err(_) => from_iter_length_fail(N::USIZE),\n        }\n    }\n}\n\n#[inline(never)]", "            Err(_) => from_iter_length_fail(N::USIZE + 1),\n        }\n    }\n}\n\n#[inline(never)]")], "C07.F")
benign("c07-prechecks-if", ["C07"], [("src/lib.rs", "        match iter.size_hint() {\n            // if the lower bound is greater than N, array will overflow\n            (n, _) if n > N::USIZE => return Err(LengthError),\n            // if the upper bound is smaller than N, array cannot be filled\n            (_, Some(n)) if n < N::USIZE => return Err(LengthError),\n            _ => {}\n        }\n\n        unsafe {", "        let (lo, hi) = iter.size_hint();\n        if lo > N::USIZE {\n            return Err(LengthError);\n        }\n        if let Some(h) = hi {\n            if h < N::USIZE {\n                return Err(LengthError);\n            }\n        }\n\n        unsafe {")])

# ---- C08 ------------------------------------------------------------------------------------
mutant("c08-generate-rev", ["C08"], [("src/lib.rs", "                builder_iter.enumerate().for_each(|(i, dst)| {\n                    dst.write(f(i));\n                    *position += 1;", "                builder_iter.rev().enumerate().for_each(|(i, dst)| {\n                    dst.write(f(i));\n                    *position += 1;")], "C08.G")
mutant("c08-generate-index-plus-one", ["C08"], [("src/lib.rs", "                builder_iter.enumerate().for_each(|(i, dst)| {\n                    dst.write(f(i));\n                    *position += 1;", "                builder_iter.enumerate().for_each(|(i, dst)| {\n                    dst.write(f(i + (i > 200) as usize));\n                    *position += 1;")], "C08.G")
mutant("c08-generate-f-twice", ["C08"], [("src/lib.rs", "                builder_iter.enumerate().for_each(|(i, dst)| {\n                    dst.write(f(i));\n                    *position += 1;", "                builder_iter.enumerate().for_each(|(i, dst)| {\n                    if i == 300 { let _ = ManuallyDrop::new(f(i)); }\n                    dst.write(f(i));\n                    *position += 1;")], "C08.G")
mutant("c08-nodrop-zip-reversed", ["C08"], [("src/lib.rs", "FromIterator::from_iter(left.iter().zip(right.iter()).map(|(l, r)| {", "FromIterator::from_iter(left.iter().rev().zip(right.iter().rev()).map(|(l, r)| {")], "C08.Z")
mutant("c08-zip2-nodrop-swapped-sides", ["C08"], [("src/lib.rs", "FromIterator::from_iter(right.iter().zip(lhs).map(|(r, left_value)| {\n                    f(left_value, ptr::read(r)) //", "FromIterator::from_iter(right.iter().skip(0).zip(lhs).map(|(r, left_value)| {\n                    f(left_value, ptr::read(r)) //")], "C08.Z")
mutant("c08-fold-via-rfold", ["C08"], [("src/lib.rs", "            array_iter.fold(init, |acc, src| {\n                let value = ptr::read(src);\n                *position += 1;\n                f(acc, value)", "            array_iter.rfold(init, |acc, src| {\n                let value = ptr::read(src);\n                *position += 1;\n                f(acc, value)")], "C08.M")
mutant("c08-default-trait-map-rev", ["C08"], [("src/functional.rs", "FromIterator::from_iter(self.into_iter().map(f))", "FromIterator::from_iter(self.into_iter().skip(0).map(f))")], "C08.R")
mutant("c08-boxed-generate-rev", ["C08"], [("src/impl_alloc.rs", "                builder_iter.enumerate().for_each(|(i, dst)| {", "                builder_iter.enumerate().rev().for_each(|(i, dst)| {")], "C08.G")
benign("c08-clone-closure-form", ["C08"], [("src/impls.rs", "        self.map(Clone::clone)", "        self.map(|x| x.clone())")])

# ---- C12 ------------------------------------------------------------------------------------
mutant("c12-send-without-bound", ["C12"], [("src/lib.rs", "unsafe impl<T: Send, N: ArrayLength> Send for GenericArray<T, N> {}", "unsafe impl<T, N: ArrayLength> Send for GenericArray<T, N> {}")], "C12.A")
mutant("c12-sync-send-bound", ["C12"], [("src/lib.rs", "unsafe impl<T: Sync, N: ArrayLength> Sync for GenericArray<T, N> {}", "unsafe impl<T: Send, N: ArrayLength> Sync for GenericArray<T, N> {}")], "C12.A")
mutant("c12-as-slice-detached-lifetime", ["C12"], [("src/lib.rs", "pub const fn as_slice(&self) -> &[T] {", "pub const fn as_slice<'a, 'b>(&'a self) -> &'b [T] {")], "C12.")
mutant("c12-split-mut-static", ["C12"], [("src/sequence.rs", "    type First = &'a mut GenericArray<T, K>;\n    type Second = &'a mut GenericArray<T, Diff<N, K>>;", "    type First = &'static mut GenericArray<T, K>;\n    type Second = &'a mut GenericArray<T, Diff<N, K>>;")], "C12.")
mutant("c12-node-copy-weaker", ["C12"], [("src/lib.rs", "impl<T: Copy, U: Copy> Copy for GenericArrayImplOdd<T, U> {}", "impl<T: Clone, U: Copy> Copy for GenericArrayImplOdd<T, U> {}")], "C12.")
mutant("c12-from-mut-slice-shared-input", ["C12"], [("src/lib.rs", "pub const fn from_mut_slice(slice: &mut [T]) -> &mut GenericArray<T, N> {\n        assert!(\n            slice.len() == N::USIZE,\n            \"slice.len() != N in GenericArray::from_mut_slice\"\n        );\n\n        unsafe { &mut *(slice.as_mut_ptr() as *mut GenericArray<T, N>) }", "pub const fn from_mut_slice(slice: &mut [T]) -> &mut GenericArray<T, N> {\n        assert!(\n            slice.len() == N::USIZE,\n            \"slice.len() != N in GenericArray::from_mut_slice\"\n        );\n\n        unsafe { &mut *(slice.as_mut_ptr() as *mut GenericArray<T, N>) }\n    }\n\n    /// mutant: hands out a mutable view from a shared slice\n    pub const fn from_slice_mut_alias(slice: &[T]) -> &mut GenericArray<T, N> {\n        assert!(slice.len() == N::USIZE);\n        unsafe { &mut *(slice.as_ptr() as *mut GenericArray<T, N>) }")], "C12.L")
mutant("c12-sealed-exported", ["C12"], [("src/lib.rs", "mod internal;\nuse internal::{ArrayConsumer, IntrusiveArrayBuilder, Sealed};", "pub mod internal;\nuse internal::{ArrayConsumer, IntrusiveArrayBuilder, Sealed};")], "C12.")
mutant("c12-chunks-detached", ["C12"], [("src/lib.rs", "pub const fn slice_from_chunks(slice: &[GenericArray<T, N>]) -> &[T] {", "pub const fn slice_from_chunks<'x, 'y>(slice: &'x [GenericArray<T, N>]) -> &'y [T] {")], "C12.")
benign("c12-explicit-lifetimes", ["C12"], [("src/lib.rs", "pub const fn as_slice(&self) -> &[T] {", "pub const fn as_slice<'s>(&'s self) -> &'s [T] {")])
benign("c12-copy-bound-clone-on-wrapper", ["C12"], [("src/impls.rs", "impl<T: Copy, N: ArrayLength> Copy for GenericArray<T, N> where N::ArrayType<T>: Copy {}", "impl<T: Clone, N: ArrayLength> Copy for GenericArray<T, N> where N::ArrayType<T>: Copy {}")])

# ---- C14 ------------------------------------------------------------------------------------
mutant("c14-chunks-2048", ["C14"], [("src/hex.rs", "for chunk in input.chunks(1024) {", "for chunk in input.chunks(2048) {")], "C14.H")
mutant("c14-buffer-1024", ["C14"], [("src/hex.rs", "let mut buf = [0u8; 2048];", "let mut buf = [0u8; 1024];")], "C14.H")
mutant("c14-max-bytes-floor", ["C14"], [("src/hex.rs", "let max_bytes = (max_digits >> 1) + (max_digits & 1);", "let max_bytes = max_digits >> 1;")], "C14.H2")
mutant("c14-no-min-in-loop", ["C14"], [("src/hex.rs", "let n = min(chunk.len() * 2, digits_left);", "let n = chunk.len() * 2;")], "C14.H4")
mutant("c14-lower-calls-upper", ["C14"], [("src/hex.rs", "generic_hex::<_, false>(self, f)", "generic_hex::<_, true>(self, f)")], "C14.H6")
mutant("c14-clamp-le-only-bigger", ["C14"], [("src/hex.rs", "Some(precision) if precision < max_digits => precision,", "Some(precision) if precision < max_digits + 2 => precision,")], "C14.H")
mutant("c14-tables-swapped", ["C14"], [("src/hex.rs", "true => b\"0123456789ABCDEF\",\n        false => b\"0123456789abcdef\",", "true => b\"0123456789abcdef\",\n        false => b\"0123456789ABCDEF\",")], "C14.H6")
mutant("c14-small-path-2048", ["C14"], [("src/hex.rs", "if N::USIZE <= 1024 {", "if N::USIZE <= 1024 || N::USIZE == 4000 {")], "C14.H3")
benign("c14-clamp-le", ["C14"], [("src/hex.rs", "Some(precision) if precision < max_digits => precision,", "Some(precision) if precision <= max_digits => precision,")])

# ---- C16 ------------------------------------------------------------------------------------
_GEN_FIXED = "            let mut array: Box<GenericArray<MaybeUninit<T>, N>> =\n                Box::<GenericArray<MaybeUninit<T>, N>>::new_uninit().assume_init();\n\n            let mut builder = IntrusiveArrayBuilder::new(&mut *array);\n"
_GEN_TAIL = "            Box::from_raw(Box::into_raw(array).cast()) // IntrusiveArrayBuilder::array_assume_init"
mutant("c16-revert-raw-alloc", ["C16"], [
    ("src/impl_alloc.rs", "            use core::mem::MaybeUninit;\n", "            use core::{alloc::Layout, mem::{size_of, MaybeUninit}, ptr};\n"),
    ("src/impl_alloc.rs", _GEN_FIXED, "            let ptr: *mut GenericArray<MaybeUninit<T>, N> = if size_of::<T>() == 0 {\n                ptr::NonNull::dangling().as_ptr()\n            } else {\n                alloc::alloc::alloc(Layout::new::<GenericArray<MaybeUninit<T>, N>>()).cast()\n            };\n\n            let mut builder = IntrusiveArrayBuilder::new(&mut *ptr);\n"),
    ("src/impl_alloc.rs", _GEN_TAIL, "            Box::from_raw(ptr.cast()) // IntrusiveArrayBuilder::array_assume_init")], "C16.")
mutant("c16-zero-guard-only", ["C16"], [
    ("src/impl_alloc.rs", "            use core::mem::MaybeUninit;\n", "            use core::{alloc::Layout, mem::{size_of, MaybeUninit}, ptr};\n"),
    ("src/impl_alloc.rs", _GEN_FIXED, "            let layout = Layout::new::<GenericArray<MaybeUninit<T>, N>>();\n            let ptr: *mut GenericArray<MaybeUninit<T>, N> = if layout.size() == 0 {\n                ptr::NonNull::dangling().as_ptr()\n            } else {\n                let p = alloc::alloc::alloc(layout);\n                if p.is_null() { alloc::alloc::handle_alloc_error(layout) }\n                p.cast()\n            };\n\n            let mut builder = IntrusiveArrayBuilder::new(&mut *ptr);\n"),
    ("src/impl_alloc.rs", _GEN_TAIL, "            Box::from_raw(ptr.cast()) // IntrusiveArrayBuilder::array_assume_init")], "C16.U")
mutant("c16-from-raw-wrong-layout", ["C16"], [("src/impl_alloc.rs", "        Ok(unsafe { Box::from_raw(Box::into_raw(slice) as *mut _) })", "        Ok(unsafe { Box::from_raw(Box::into_raw(slice) as *mut GenericArray<T, N>).into_boxed_slice() }).and_then(|b: Box<[T]>| {\n            let p = Box::into_raw(b) as *mut T;\n            Ok(unsafe { Box::from_raw(p.add((N::USIZE > 1000) as usize) as *mut GenericArray<T, N>) })\n        })")], "C16.P")
mutant("c16-boxed-slice-short", ["C16"], [("src/impl_alloc.rs", "                Box::into_raw(self) as *mut T,\n                N::USIZE,", "                Box::into_raw(self) as *mut T,\n                N::USIZE - (N::USIZE > 500) as usize,")], "C16.P")
mutant("c16-try-from-boxed-guard-le", ["C16"], [("src/impl_alloc.rs", "        if slice.len() != N::USIZE {\n            return Err(LengthError);\n        }\n\n        Ok(unsafe { Box::from_raw", "        if slice.len() < N::USIZE {\n            return Err(LengthError);\n        }\n\n        Ok(unsafe { Box::from_raw")], "C16.P")
benign("c16-cast-method", ["C16"], [("src/impl_alloc.rs", "                Box::into_raw(self) as *mut T,", "                Box::into_raw(self).cast::<T>(),")])

# ---- C15 ------------------------------------------------------------------------------------
mutant("c15-try-from-boxed-guard-lt", ["C15"], [("src/impl_alloc.rs", "        if slice.len() != N::USIZE {\n            return Err(LengthError);\n        }\n\n        Ok(unsafe { Box::from_raw", "        if slice.len() < N::USIZE {\n            return Err(LengthError);\n        }\n\n        Ok(unsafe { Box::from_raw")], "C15.G")
mutant("c15-into-boxed-slice-copy", ["C15"], [("src/impl_alloc.rs", "    pub fn into_vec(self: Box<GenericArray<T, N>>) -> Vec<T> {\n        Vec::from(self.into_boxed_slice())", "    pub fn into_vec(self: Box<GenericArray<T, N>>) -> Vec<T> {\n        let mut v = Vec::with_capacity(N::USIZE);\n        v.extend(Vec::from(self.into_boxed_slice()));\n        v")], "C15.")
mutant("c15-default-boxed-on-stack", ["C15"], [("src/impl_alloc.rs", "        Box::<GenericArray<T, N>>::generate(|_| T::default())", "        Box::new(<GenericArray<T, N> as Default>::default())")], "C15.K")
mutant("c15-try-boxed-via-stack", ["C15"], [("src/impl_alloc.rs", "        Ok(GenericArray::try_from_vec(v).unwrap())", "        Ok(Box::new(GenericArray::<T, N>::try_from(v).unwrap()))")], "C15.K")
mutant("c15-vec-fill-unguarded", ["C15"], [("src/impl_alloc.rs", "        if v.len() != N::USIZE {\n            return Err(crate::LengthError);\n        }", "        if v.len() < N::USIZE {\n            return Err(crate::LengthError);\n        }")], "C15.G")
benign("c15-into-raw-cast", ["C15"], [("src/impl_alloc.rs", "                Box::into_raw(self) as *mut T,", "                Box::into_raw(self).cast::<T>(),")])

# ---- C17 ------------------------------------------------------------------------------------
mutant("c17-serialize-seq", ["C17"], [("src/impl_serde.rs", "use serde::{ser::SerializeTuple, Deserialize, Deserializer, Serialize, Serializer};", "use serde::{ser::SerializeSeq, Deserialize, Deserializer, Serialize, Serializer};"), ("src/impl_serde.rs", "let mut tup = serializer.serialize_tuple(N::USIZE)?;\n        for el in self {\n            tup.serialize_element(el)?;", "let mut tup = serializer.serialize_seq(Some(N::USIZE))?;\n        for el in self {\n            tup.serialize_element(el)?;")], "C17.S")
mutant("c17-serialize-skip-first", ["C17"], [("src/impl_serde.rs", "        for el in self {\n            tup.serialize_element(el)?;", "        for el in self.iter().skip((N::USIZE > 300) as usize) {\n            tup.serialize_element(el)?;")], "C17.S")
mutant("c17-ok-position-ge", ["C17"], [("src/impl_serde.rs", "            if *position == N::USIZE {", "            if *position + 1 >= N::USIZE {")], "C17.V")
mutant("c17-no-surplus-probe", ["C17"], [("src/impl_serde.rs", "if seq.size_hint() != Some(0) && seq.next_element::<Dummy>()?.is_some() {", "if false && seq.next_element::<Dummy>()?.is_some() {")], "C17.V")
mutant("c17-precheck-lt-only", ["C17"], [("src/impl_serde.rs", "Some(n) if n != N::USIZE => {", "Some(n) if n <= N::USIZE => {")], "C17.V")
mutant("c17-inc-before-write", ["C17"], [("src/impl_serde.rs", "                    Some(el) => {\n                        dst.write(el);\n                        *position += 1;", "                    Some(el) => {\n                        *position += 1;\n                        if *position == usize::MAX { let _ = seq.size_hint(); }\n                        dst.write(el);")], "C17.")
mutant("c17-deserialize-seq", ["C17"], [("src/impl_serde.rs", "deserializer.deserialize_tuple(N::USIZE, visitor)", "deserializer.deserialize_seq(visitor)")], "C17.T")
mutant("c17-deserialize-wrong-len", ["C17"], [("src/impl_serde.rs", "deserializer.deserialize_tuple(N::USIZE, visitor)", "deserializer.deserialize_tuple(N::USIZE + (N::USIZE > 64) as usize, visitor)")], "C17.T")
benign("c17-serialize-iter", ["C17"], [("src/impl_serde.rs", "        for el in self {\n            tup.serialize_element(el)?;", "        for el in self.iter() {\n            tup.serialize_element(el)?;")])

# ---- C19 ------------------------------------------------------------------------------------
mutant("c19-zeroize-skip", ["C19"], [("src/impl_zeroize.rs", "self.as_mut_slice().iter_mut().zeroize()", "self.as_mut_slice().iter_mut().skip((N::USIZE > 40) as usize).for_each(|x| x.zeroize())")], "C19.Z")
mutant("c19-zeroize-subslice", ["C19"], [("src/impl_zeroize.rs", "self.as_mut_slice().iter_mut().zeroize()", "self.as_mut_slice()[..N::USIZE - (N::USIZE > 40) as usize].iter_mut().zeroize()")], "C19.Z")
mutant("c19-odd-data-zeroed", ["C19"], [("src/impl_const_default.rs", "        parent2: U::DEFAULT,\n        data: T::DEFAULT,", "        parent2: U::DEFAULT,\n        data: unsafe { core::mem::MaybeUninit::<T>::zeroed().assume_init() },")], "C19.D")
mutant("c19-even-child-zeroed", ["C19"], [("src/impl_const_default.rs", "impl<T, U: ConstDefault> ConstDefault for GenericArrayImplEven<T, U> {\n    const DEFAULT: Self = Self {\n        parent1: U::DEFAULT,\n        parent2: U::DEFAULT,", "impl<T, U: ConstDefault> ConstDefault for GenericArrayImplEven<T, U> {\n    const DEFAULT: Self = Self {\n        parent1: U::DEFAULT,\n        parent2: unsafe { core::mem::MaybeUninit::<U>::zeroed().assume_init() },")], "C19.D")
benign("c19-zeroize-for-loop", ["C19"], [("src/impl_zeroize.rs", "self.as_mut_slice().iter_mut().zeroize()", "for x in self.as_mut_slice().iter_mut() { x.zeroize() }")])
benign("c19-zeroize-for-each", ["C19"], [("src/impl_zeroize.rs", "self.as_mut_slice().iter_mut().zeroize()", "self.iter_mut().for_each(|x| x.zeroize())")])
mutant("c19-zeroize-for-loop-break", ["C19"], [("src/impl_zeroize.rs", "self.as_mut_slice().iter_mut().zeroize()", "for (i, x) in self.as_mut_slice().iter_mut().enumerate() { if i == 40 { break; } x.zeroize() }")], "C19.Z")
mutant("c19-zeroize-halves-zip", ["C19"], [("src/impl_zeroize.rs", "self.as_mut_slice().iter_mut().zeroize()", "let (a, b) = self.as_mut_slice().split_at_mut(N::USIZE / 2); for (x, y) in a.iter_mut().zip(b.iter_mut()) { x.zeroize(); y.zeroize(); }")], "C19.Z")
benign("c19-zeroize-index-range-loop", ["C19"], [("src/impl_zeroize.rs", "self.as_mut_slice().iter_mut().zeroize()", "let base = self as *mut Self as *mut T; for i in 0..N::USIZE { unsafe { (*base.add(i)).zeroize() } }")])
mutant("c19-zeroize-index-range-from-one", ["C19"], [("src/impl_zeroize.rs", "self.as_mut_slice().iter_mut().zeroize()", "let base = self as *mut Self as *mut T; for i in (N::USIZE > 40) as usize..N::USIZE { unsafe { (*base.add(i)).zeroize() } }")], "C19.Z")
mutant("c19-zeroize-index-range-stride", ["C19"], [("src/impl_zeroize.rs", "self.as_mut_slice().iter_mut().zeroize()", "let base = self as *mut Self as *mut T; for i in 0..N::USIZE { unsafe { (*base.add(i - i % 2)).zeroize() } }")], "C19.Z")
benign("c19-zeroize-via-iter-mut", ["C19"], [("src/impl_zeroize.rs", "self.as_mut_slice().iter_mut().zeroize()", "self.iter_mut().zeroize()")])

# ---- C18 ------------------------------------------------------------------------------------
mutant("c18-chunks-mut-not-const", ["C18"], [("src/lib.rs", "pub const fn chunks_from_slice_mut(slice: &mut [T])", "pub fn chunks_from_slice_mut(slice: &mut [T])")], "C18.")
mutant("c18-len-not-const", ["C18"], [("src/lib.rs", "pub const fn len() -> usize {", "pub fn len() -> usize {")], "C18.")
mutant("c18-from-slice-guard", ["C18"], [("src/lib.rs", "if slice.len() != N::USIZE {\n            panic!(\"slice.len() != N in GenericArray::from_slice\");", "if slice.len() < N::USIZE {\n            panic!(\"slice.len() != N in GenericArray::from_slice\");")], "C02.G")
benign("c18-extra-const-fn", ["C18"], [("src/lib.rs", "    pub const fn len() -> usize {\n        N::USIZE\n    }", "    pub const fn len() -> usize {\n        N::USIZE\n    }\n\n    /// Whether the array has no elements.\n    pub const fn is_empty_array() -> bool {\n        N::USIZE == 0\n    }")])

# ---- C20 ------------------------------------------------------------------------------------
mutant("c20-list-evaluated-twice", ["C20"], [("src/arr.rs", "($($x:expr),* $(,)*) => ( $crate::GenericArray::from_array([$($x),*]) );", "($($x:expr),* $(,)*) => ({ let _ = [$($x),*]; $crate::GenericArray::from_array([$($x),*]) });")], "C20.E")
mutant("c20-repeat-evaluated-twice", ["C20"], [("src/arr.rs", "        __do_transmute::<_, $N>([$x; __INPUT_LENGTH])", "        let _ = $x;\n        __do_transmute::<_, $N>([$x; __INPUT_LENGTH])")], "C20.R")
mutant("c20-box-unit-evaluates", ["C20"], [("src/arr.rs", "    (@unit $e:expr) => {\n        ()\n    };", "    (@unit $e:expr) => {\n        { let _ = $e; }\n    };")], "C20.B")
mutant("c20-box-repeat-plus-one", ["C20"], [("src/arr.rs", "($x:expr; $N:ty) => ( $crate::GenericArray::<_, $N>::try_from_vec($crate::alloc::vec![$x; <$N as $crate::typenum::Unsigned>::USIZE]).unwrap() );", "($x:expr; $N:ty) => ( $crate::GenericArray::<_, $N>::try_from_vec({ let mut v = $crate::alloc::vec![$x; <$N as $crate::typenum::Unsigned>::USIZE]; v.truncate(<$N as $crate::typenum::Unsigned>::USIZE); v }).unwrap() );")], "C20.B")
mutant("c20-list-reversed-helper", ["C20"], [("src/arr.rs", "($($x:expr),* $(,)*) => ( $crate::GenericArray::from_array([$($x),*]) );", "($($x:expr),* $(,)*) => ({ let mut __a = [$($x),*]; if __a.len() == 11 { __a.reverse(); } $crate::GenericArray::from_array(__a) });")], "C20.E")
benign("c20-rename-helper", ["C20"], [("src/arr.rs", "const fn __do_transmute<T, N: $crate::ArrayLength>(arr: [T; __INPUT_LENGTH]) -> $crate::GenericArray<T, N> {\n            unsafe { $crate::const_transmute(arr) }\n        }\n\n        __do_transmute::<_, $N>([$x; __INPUT_LENGTH])", "const fn __do_transmute<T, N: $crate::ArrayLength>(arr: [T; __INPUT_LENGTH]) -> $crate::GenericArray<T, N> {\n            unsafe { $crate::const_transmute::<[T; __INPUT_LENGTH], $crate::GenericArray<T, N>>(arr) }\n        }\n\n        __do_transmute::<_, $N>([$x; __INPUT_LENGTH])")])
benign("c08-fold-nodrop-fast-path", ["C08", "C03", "C04"], [("src/lib.rs", "            let mut source = ArrayConsumer::new(self);\n\n            let (array_iter, position) = source.iter_position();\n\n            array_iter.fold(init, |acc, src| {\n                let value = ptr::read(src);\n                *position += 1;\n                f(acc, value)\n            })", "            if !mem::needs_drop::<T>() {\n                let source = ManuallyDrop::new(self);\n                return source.iter().fold(init, |acc, src| f(acc, ptr::read(src)));\n            }\n            let mut source = ArrayConsumer::new(self);\n\n            let (array_iter, position) = source.iter_position();\n\n            array_iter.fold(init, |acc, src| {\n                let value = ptr::read(src);\n                *position += 1;\n                f(acc, value)\n            })")])


# ---- behaviour-preserving refactorings written by independent sub-agents (selftest/patches/R<prop>.p<1..3>.patch, notes beside them) ----
# Each was built and run against the pinned suite (and a differential harness) by its author; every property must stay silent on it.
ALL = ["C%02d" % i for i in range(1, 21)]


def benign_patch(name, props=None):
    VARIANTS.append({"name": "refactor-" + name, "kind": "benign", "props": props or ALL, "edits": [("patch", name + ".patch")]})

_REL = {"R02": ["C02", "C12", "C13", "C18"], "R03": ["C03", "C04", "C05", "C06", "C08", "C09"], "R04": ["C03", "C04", "C07", "C08", "C15"],
        "R05": ["C03", "C05", "C06"], "R06": ["C03", "C04", "C05", "C06"], "R07": ["C03", "C04", "C07", "C15", "C17"],
        "R08": ["C03", "C04", "C08", "C15", "C17"], "R09": ["C03", "C04", "C09"]}
# R07.p3 is NOT registered: it replaces the fill strategy of try_from_iter / try_boxed_from_iter (explicit loop helper, in-place boxed fill);
# C07.O/P/Z and C15 do not recognise it and report it (DESIGN 8.5) - a known limit, not a silenced alarm.
_REL.update({"R01": ["C01", "C02", "C10", "C12", "C18"], "R12": ["C02", "C09", "C10", "C11", "C12", "C13", "C18"], "R16": ["C03", "C04", "C07", "C08", "C15", "C16"],
             "R18": ["C02", "C10", "C12", "C18"], "R19": ["C19"], "R20": ["C01", "C15", "C16", "C18", "C20"],
             "R10": ["C02", "C10", "C12", "C18"], "R11": ["C01", "C03", "C11", "C18"], "R13": ["C02", "C13"], "R14": ["C14"],
             "R15": ["C03", "C04", "C07", "C15", "C16"], "R17": ["C03", "C04", "C12", "C17"]})
# NOT registered (reported by the checks although behaviour-preserving - known limits, DESIGN 8.5):
_SKIP = {("R14", 3), ("R16", 3), ("R17", 3)}
for _g, _props in _REL.items():
    for _i in (1, 2, 3):
        if (_g, _i) in _SKIP:
            continue
        benign_patch("%s.p%d" % (_g, _i), _props)


# second corpus (Q<prop>.p<i>: deeper rewrites of the unsafe core, written after the rules of seed rounds 2-3 were added)
_RELQ = {"Q03": ["C03", "C04", "C05", "C06", "C09", "C11", "C18"], "Q04": ["C03", "C04", "C05", "C07", "C08", "C15", "C17"], "Q05": ["C03", "C04", "C05", "C06"],
         "Q06": ["C03", "C04", "C05", "C06"], "Q07": ["C03", "C04", "C07", "C15", "C16", "C17"], "Q09": ["C02", "C03", "C04", "C09", "C11", "C18"],
         "Q14": ["C14"], "Q16": ["C03", "C04", "C07", "C08", "C15", "C16"], "Q18": ["C02", "C03", "C09", "C10", "C11", "C12", "C18", "C20"],
         "Q20": ["C01", "C15", "C16", "C18", "C20"]}
# NOT registered (reported although behaviour-preserving - known limits, DESIGN 8.5)
_SKIPQ = {("Q05", 3), ("Q14", 3)}
for _g, _props in _RELQ.items():
    for _i in (1, 2, 3):
        if (_g, _i) in _SKIPQ:
            continue
        benign_patch("%s.p%d" % (_g, _i), _props)


# third corpus (P<prop>.p<i>: the ten properties the second corpus did not cover, written after seed rounds 4-5)
_RELP = {"P02": ["C02", "C12", "C13", "C18"], "P08": ["C03", "C04", "C07", "C08", "C15"], "P10": ["C01", "C02", "C10", "C12", "C18"], "P11": ["C01", "C03", "C11", "C18"],
         "P13": ["C02", "C13"], "P15": ["C03", "C04", "C07", "C15", "C16"], "P17": ["C03", "C04", "C12", "C17"], "P19": ["C19", "C18"]}
_SKIPP = set()
for _g, _props in _RELP.items():
    for _i in (1, 2, 3):
        if (_g, _i) in _SKIPP:
            continue
        benign_patch("%s.p%d" % (_g, _i), _props)


# fourth corpus (T<prop>.p<i>: "go deeper" rewrites - storage nodes merged into one generic struct, shared fill helper / boxed constructor without a
# Vec, pull-form map override on Box, forget-first hand-overs, where-clause reshuffles; written after seed round 7)
_RELT = {"T01": ["C01", "C02", "C10", "C12", "C18", "C19"], "T03": ["C03", "C04", "C05", "C07", "C08", "C09", "C18"], "T07": ["C03", "C04", "C07", "C15", "C16"],
         "T12": ["C08", "C09", "C12"], "T16": ["C03", "C04", "C08", "C15", "C16"], "T05": ["C03", "C04", "C05", "C06"],
         # fifth corpus (U<prop>.p<i>, written after seed round 9 with a list of what had been done before)
         "U02": ["C01", "C02", "C10", "C12", "C13", "C18", "C20"], "U09": ["C03", "C04", "C09", "C11", "C12", "C18"], "U06": ["C03", "C04", "C05", "C06"], "U10": ["C01", "C02", "C10", "C12", "C18"], "U11": ["C03", "C09", "C11", "C12", "C18"],
         "U13": ["C02", "C13"], "U15": ["C03", "C04", "C07", "C15", "C16"], "U17": ["C03", "C04", "C12", "C17"],
         # sixth corpus (V<prop>.p<i>, written after seed round 10)
         "V04": ["C03", "C04", "C05", "C06", "C07", "C08", "C16", "C19"], "V08": ["C03", "C04", "C08", "C13", "C19"], "V14": ["C14"], "V18": ["C01", "C02", "C03", "C04", "C08", "C13", "C17", "C18", "C19", "C20"],
         "V19": ["C18", "C19"], "V20": ["C15", "C16", "C18", "C20"]}
# V14.p3 (generic_hex restructured around a `written` counter, get_unchecked and an early-return chunked path) is reported by C14's rules, which are stated
# on the clamp / budget shape (the hex family of DESIGN 8.5); V18.p3's arr! repeat helper (uninit + one write + assume_init instead of const_transmute) is
# reported by C20.R, which knows the size-guarded const_transmute helper only
# seventh corpus (X<prop>.p<i>, written after seed round 13; the authors were asked to spread the three patches over different functions)
_RELT.update({"X02": ["C01", "C02", "C03", "C09", "C12", "C18", "C20"], "X03": ["C03", "C04", "C05", "C08", "C09", "C15", "C16"], "X07": ["C03", "C04", "C05", "C07", "C15", "C16", "C17"],
              "X05": ["C03", "C04", "C05", "C06", "C08"], "X12": ["C01", "C03", "C09", "C10", "C12", "C18"], "X14": ["C14"], "X16": ["C03", "C04", "C07", "C08", "C15", "C16"], "X17": ["C03", "C04", "C05", "C07", "C12", "C17"]})
# eighth corpus (A<prop>.p<i>, written after seed round 15)
_RELT.update({"A04": ["C03", "C04", "C05", "C07", "C08", "C15"], "A06": ["C03", "C04", "C05", "C06"], "A08": ["C03", "C04", "C05", "C08", "C19"], "A09": ["C03", "C09", "C12", "C18"],
              "A10": ["C01", "C02", "C10", "C18"], "A11": ["C01", "C03", "C11", "C18", "C20"], "A13": ["C01", "C02", "C13", "C18"], "A15": ["C03", "C04", "C07", "C08", "C15", "C16"]})
# ninth corpus (B<prop>.p<i>, written after seed round 17)
_RELT.update({"B18": ["C01", "C02", "C03", "C04", "C05", "C08", "C09", "C10", "C13", "C18", "C19", "C20"], "B20": ["C01", "C15", "C16", "C18", "C20"],
              "B05": ["C03", "C04", "C05", "C06", "C07", "C17"], "B19": ["C01", "C02", "C18", "C19"], "B12": ["C01", "C02", "C03", "C06", "C09", "C10", "C12", "C18"]})
# B05.p3 (the by-value iterator's two cursors merged into one `alive: Range<usize>` field: the owner discovery and the deque rules are stated on two
# cursor fields) and B19.p3 (the odd storage node's DEFAULT built from its even sibling through a const fn that moves the halves with ptr::read:
# C19.D is stated on struct aggregates of per-field DEFAULTs) are reported although behaviour-preserving - DESIGN 8.5
# tenth corpus (D<prop>.p<i>, written after seed round 19) and B01 (arrived late)
_RELT.update({"D02": ["C01", "C02", "C10", "C12", "C13", "C18"], "D04": ["C03", "C04", "C05", "C06", "C07", "C08", "C15"], "D07": ["C03", "C04", "C05", "C07", "C15", "C16", "C17"],
              "D08": ["C03", "C04", "C05", "C07", "C08", "C15", "C16"], "D13": ["C02", "C13"], "D16": ["C03", "C04", "C07", "C08", "C12", "C15", "C16", "C17"], "B01": ["C01", "C02", "C10", "C18", "C19"]})
# D08.p3 (the owned map rebuilt on Mapped::generate(|i| f(read(src[i]))): index-addressed reads driven by the crate's own generate, which the step protocol
# does not know as a range driver) and B01.p3 (N elements stored as N/2 pairs `[T; 2]`: another layout induction than the two-children node C01.S is stated
# on - and C01.L found that it does change which astronomically large types have a layout) are reported - DESIGN 8.5
_SKIPT = {("V14", 3), ("V18", 3), ("X14", 3), ("B05", 3), ("B19", 3), ("B12", 3), ("B01", 3)}   # D08.p3 is supported since generate counts as a range driver   # B12.p3: the same Range<usize> cursor merge as B05.p3, by another author
for _g, _props in _RELT.items():
    for _i in (1, 2, 3):
        if (_g, _i) in _SKIPT:
            continue
        benign_patch("%s.p%d" % (_g, _i), _props)


# ---- Clone::clone_from overrides (round 18, own probe): the override is part of the element-wise Clone (C08.D) ----
_CF_OLD = "        self.map(Clone::clone)\n    }\n}"
def _cf(body):
    return [("src/impls.rs", _CF_OLD, "        self.map(Clone::clone)\n    }\n\n    #[inline]\n    fn clone_from(&mut self, source: &Self) {\n        %s\n    }\n}" % body)]
mutant("c08-clone-from-reversed", ["C08"], _cf("for (dst, src) in self.iter_mut().zip(source.iter()).rev() { dst.clone_from(src); }"), "C08.D")
mutant("c08-clone-from-skips-the-first", ["C08"], _cf("for (dst, src) in self.iter_mut().zip(source.iter()).skip(1) { dst.clone_from(src); }"), "C08.D")
mutant("c08-clone-from-index-loop-from-one", ["C08"], _cf("for i in 1..N::USIZE { self[i] = source[i].clone(); }"), "C08.D")
benign("c08-clone-from-zip-loop", ["C08", "C03", "C04"], _cf("for (dst, src) in self.iter_mut().zip(source.iter()) { dst.clone_from(src); }"))
benign("c08-clone-from-zip-for-each", ["C08", "C03", "C04"], _cf("self.iter_mut().zip(source).for_each(|(d, s)| d.clone_from(s));"))
benign("c08-clone-from-assign", ["C08", "C03", "C04"], _cf("*self = source.clone();"))
benign("c08-clone-from-index-loop", ["C08", "C03", "C04"], _cf("for i in 0..N::USIZE { self[i] = source[i].clone(); }"))
benign("c08-clone-from-source-first-assign", ["C08", "C03", "C04"], _cf("for (src, dst) in source.iter().zip(self.iter_mut()) { *dst = src.clone(); }"))

# ---- a NEW part-view API (first_chunk-style prefix of a slice as an array, round 18 / S201): in bounds is what it owes; the anchored whole-slice
# ---- conversions stay exact (the seed S201 itself, which rebuilds try_from_mut_slice on the prefix view, is a regression mutant through _seeded)
_FC_ANCHOR = "    /// Converts a slice of `T` elements into a slice of `GenericArray<T, N>` chunks.\n    ///\n    /// Any remaining elements that do not fill the array will be returned as a second slice.\n    ///\n    /// # Panics\n    ///\n    /// Panics if `N` is `U0` _AND_ the input slice is not empty.\n    pub const fn chunks_from_slice("
def _fc(guard):
    return [("src/lib.rs", _FC_ANCHOR, "    /// The first `N` elements of the slice as an array reference, `None` if there are fewer.\n    pub const fn first_chunk_from_slice(slice: &[T]) -> Option<&GenericArray<T, N>> {\n        if %s {\n            return None;\n        }\n        Some(unsafe { &*(slice.as_ptr() as *const GenericArray<T, N>) })\n    }\n\n" % guard + _FC_ANCHOR)]
benign("c02-new-prefix-view-api-in-bounds", ["C02", "C12", "C18", "C01"], _fc("slice.len() < N::USIZE"))
mutant("c02-new-prefix-view-api-guard-off-by-one", ["C02"], _fc("slice.len() + 1 < N::USIZE"), "C02.G.sweep")
mutant("c02-new-prefix-view-api-no-guard-for-empty", ["C02"], _fc("slice.len() < N::USIZE && !slice.is_empty()"), "C02.G.sweep")

# ---- mutants of the refactored forms: the semantic rules must still refute a wrong version of each alternative formulation ----
def mutant_on_patch(name, patch, props, edits, expect=""):
    VARIANTS.append({"name": name, "kind": "mutant", "props": props, "edits": [("patch", patch + ".patch")] + edits, "expect": expect})


mutant_on_patch("m-R13p3-cmp-args-swapped", "R13.p3", ["C13"], [("src/impls.rs", "match Ord::cmp(l, r) {", "match Ord::cmp(r, l) {")], "C13.D")
mutant_on_patch("m-R13p3-continue-on-less", "R13.p3", ["C13"], [("src/impls.rs", "match Ord::cmp(l, r) {\n            Ordering::Equal => {}", "match Ord::cmp(l, r) {\n            Ordering::Less => {}")], "C13.D")
mutant_on_patch("m-R09p3-remove-copies-one-less", "R09.p3", ["C09", "C03"], [("src/sequence.rs", "ptr::copy_nonoverlapping(src.add(idx + 1), dst.add(idx), N::USIZE - 1 - idx);", "ptr::copy_nonoverlapping(src.add(idx + 1), dst.add(idx), N::USIZE - 1 - idx - (N::USIZE - 1 - idx).min(1));")], "")
mutant_on_patch("m-R09p3-remove-prefix-shifted", "R09.p3", ["C09"], [("src/sequence.rs", "ptr::copy_nonoverlapping(src, dst, idx);", "ptr::copy_nonoverlapping(src.add(idx.min(1)), dst, idx);")], "C09.M")
mutant_on_patch("m-R09p3-swap-remove-fills-from-first", "R09.p3", ["C09"], [("src/sequence.rs", "ptr::copy(base.add(N::USIZE - 1), base.add(idx), 1);", "ptr::copy(base, base.add(idx), 1);")], "C09.M")
mutant_on_patch("m-R06p3-fold-from-the-back", "R06.p3", ["C06"], [("src/iter.rs", "while let Some(value) = self.next() {", "while let Some(value) = self.next_back() {")], "C06.S")
mutant_on_patch("m-R10p3-chunk-count-minus-one", "R10.p3", ["C10"], [("src/lib.rs", "slice::from_raw_parts(head.as_ptr().cast::<GenericArray<T, N>>(), num_chunks)", "slice::from_raw_parts(head.as_ptr().cast::<GenericArray<T, N>>(), num_chunks - (num_chunks != 0) as usize)")], "C10.C")
mutant_on_patch("m-R10p3-from-chunks-len-plus-one", "R10.p3", ["C10"], [("src/lib.rs", "unsafe { slice::from_raw_parts(chunks.as_ptr().cast::<GenericArray<T, N>>(), chunks.len()) }", "unsafe { slice::from_raw_parts(chunks.as_ptr().cast::<GenericArray<T, N>>(), chunks.len() + (chunks.len() != 0) as usize) }")], "C10.X")
mutant_on_patch("m-R03p3-prepend-joins-in-append-order", "R03.p3", ["C09", "C03"], [("src/sequence.rs", "unsafe { join_adjacent(first, self) }", "unsafe { join_adjacent(self, first) }")], "")
mutant_on_patch("m-R08p1-fold-loop-counts-after-call", "R08.p1", ["C04"], [("src/lib.rs", "                *position += 1;\n                acc = f(acc, value);", "                acc = f(acc, value);\n                *position += 1;")], "C04.P")
mutant_on_patch("m-R08p1-fold-loop-acc-not-threaded", "R08.p1", ["C08"], [("src/lib.rs", "            let mut acc = init;\n\n            for src in array_iter {", "            let mut acc = init;\n            let mut first = true;\n\n            for src in array_iter {"), ("src/lib.rs", "                acc = f(acc, value);", "                if first { first = false; acc = f(acc, value); } else { drop(value); }")], "C08.M")

# ---- digit strings (C14.H8 - H10) ----
mutant("c14-budget-never-decremented", ["C14"], [("src/hex.rs", "            digits_left -= n;", "")], "C14.H9")
mutant("c14-nibbles-swapped", ["C14"], [("src/hex.rs", "s[0] = alphabet[(c >> 4) as usize];\n        s[1] = alphabet[(c & 0xF) as usize];", "s[1] = alphabet[(c >> 4) as usize];\n        s[0] = alphabet[(c & 0xF) as usize];")], "C14.H8")
mutant("c14-low-nibble-mask-7", ["C14"], [("src/hex.rs", "alphabet[(c & 0xF) as usize]", "alphabet[(c & 0x7) as usize]")], "C14.H8")
mutant("c14-source-reversed", ["C14"], [("src/hex.rs", ".zip(src).for_each", ".zip(src.iter().rev()).for_each")], "C14.H8")
mutant("c14-always-first-chunk", ["C14"], [("src/hex.rs", "hex_encode::<UPPER>(chunk, &mut buf);", "hex_encode::<UPPER>(&input[..chunk.len()], &mut buf);")], "C14.H9")
mutant("c14-chunks-reversed", ["C14"], [("src/hex.rs", "for chunk in input.chunks(1024) {", "for chunk in input.chunks(1024).rev() {")], "C14.H9")
mutant("c14-small-path-encodes-the-tail", ["C14"], [("src/hex.rs", "hex_encode::<UPPER>(input, &mut buf);", "hex_encode::<UPPER>(&arr[N::USIZE - max_bytes..], &mut buf);")], "C14.H10")
mutant_on_patch("m-Q14p2-loop-encoder-odd-slot", "Q14.p2", ["C14"], [("src/hex.rs", "dst[2 * i + 1] = alphabet[(c & 0xF) as usize];", "dst[2 * i + 1] = alphabet[(c >> 4) as usize];")], "C14.H8")
mutant_on_patch("m-R14p1-zip-loop-encoder-low-first", "R14.p1", ["C14"], [("src/hex.rs", "s[0] = alphabet[usize::from(c >> 4)];", "s[0] = alphabet[usize::from(c & 0xF)];")], "C14.H8")
# ---- forms introduced by the second corpus ----
mutant_on_patch("m-Q07p1-exclusive-range", "Q07.p1", ["C07"], [("src/lib.rs", "(lower..=upper.unwrap_or(usize::MAX)).contains(&N::USIZE)", "(lower..upper.unwrap_or(usize::MAX)).contains(&N::USIZE)")], "C07.H")
mutant_on_patch("m-Q04p2-none-breaks", "Q04.p2", ["C07"], [("src/lib.rs", "None => return Err(LengthError),", "None => break,")], "C07")
mutant_on_patch("m-Q04p2-double-poll", "Q04.p2", ["C07"], [("src/lib.rs", "                            dst.write(value);", "                            dst.write(value); let _ = iter.next();")], "C07")
mutant_on_patch("m-Q04p2-reversed-fill", "Q04.p2", ["C07"], [("src/lib.rs", "for dst in builder_iter {", "for dst in builder_iter.rev() {")], "C07")
mutant_on_patch("m-Q09p3-gap-guard-off-by-one", "Q09.p3", ["C09"], [("src/sequence.rs", "        if idx != last {\n            // the last element fills the gap", "        if idx + 1 < last {\n            // the last element fills the gap")], "C09.M")
mutant_on_patch("m-Q16p3-generate-reversed-indices", "Q16.p3", ["C08"], [("src/impl_alloc.rs", "builder.extend((0..N::USIZE).map(&mut f));", "builder.extend((0..N::USIZE).rev().map(&mut f));")], "C08.G")
mutant_on_patch("m-Q16p3-generate-one-short", "Q16.p3", ["C03"], [("src/impl_alloc.rs", "builder.extend((0..N::USIZE).map(&mut f));", "builder.extend((0..N::USIZE.saturating_sub(1)).map(&mut f));")], "C03.F")
mutant_on_patch("m-Q16p3-unbox-by-read-and-drop", "Q16.p3", ["C15"], [("src/impl_alloc.rs", "GenericArray::try_from_boxed_slice(value).map(|array| *array)", "GenericArray::try_from_boxed_slice(value).map(|array| unsafe { core::ptr::read(&*array) })")], "C15.D")
mutant_on_patch("m-Q16p1-capacity-plus-one", "Q16.p1", ["C15", "C16"], [("src/impl_alloc.rs", "Vec::from_raw_parts(Box::into_raw(self).cast::<T>(), N::USIZE, N::USIZE)", "Vec::from_raw_parts(Box::into_raw(self).cast::<T>(), N::USIZE, N::USIZE + 1)")], "")

mutant_on_patch("m-Q06p3-fold-cursor-not-past-slot", "Q06.p3", ["C04"], [("src/iter.rs", "                *index = i + 1;", "                *index = i;")], "C04.O")
mutant_on_patch("m-Q06p3-rfold-cursor-keeps-slot", "Q06.p3", ["C04"], [("src/iter.rs", "                *index_back = i;", "                *index_back = i + 1;")], "C04.O")
mutant_on_patch("m-Q06p3-rfold-travels-forward", "Q06.p3", ["C06", "C03"], [("src/iter.rs", "            remaining.rfold(init, |acc, i| {", "            remaining.fold(init, |acc, i| {")], "")
mutant_on_patch("m-Q06p3-fold-reads-neighbour-slot", "Q06.p3", ["C06"], [("src/iter.rs", "let value = unsafe { ptr::read(base.add(i)) };\n\n                // Slot", "let value = unsafe { ptr::read(base.add(i ^ 1)) };\n\n                // Slot")], "C06.S")
mutant_on_patch("m-Q06p2-clone-slot-offset-by-index", "Q06.p2", ["C06"], [("src/iter.rs", "unsafe { ptr::write(dst.add(iter.index_back), value) };", "unsafe { ptr::write(dst.add(iter.index_back + self.index), value) };")], "C06.S")
# ---- write permission (C18.M / C02.M) ----
mutant("c18-remainder-through-as-ptr", ["C18", "C02"], [("src/lib.rs", "slice::from_raw_parts_mut(slice.as_mut_ptr().add(num_in_chunks), num_remainder),", "slice::from_raw_parts_mut(slice.as_ptr().add(num_in_chunks) as *mut T, num_remainder),")], ".M")
mutant("c02-from-mut-slice-through-as-ptr", ["C02", "C18"], [("src/lib.rs", "unsafe { &mut *(slice.as_mut_ptr() as *mut GenericArray<T, N>) }", "unsafe { &mut *(slice.as_ptr() as *mut GenericArray<T, N>) }")], ".M")
mutant("c10-flat-view-through-as-ptr", ["C18"], [("src/lib.rs", "unsafe { slice::from_raw_parts_mut(slice.as_mut_ptr() as *mut T, slice.len() * N::USIZE) }", "unsafe { slice::from_raw_parts_mut(slice.as_ptr().cast_mut() as *mut T, slice.len() * N::USIZE) }")], "C18.M")
# ---- forms introduced by the third corpus ----
mutant_on_patch("m-P19p3-back-half-not-visited", "P19.p3", ["C19"], [("src/impl_zeroize.rs", "            zeroize_bisect(back);", "")], "C19.Z")
mutant_on_patch("m-P19p3-single-element-skipped", "P19.p3", ["C19"], [("src/impl_zeroize.rs", "[elem] => elem.zeroize(),", "[_elem] => {}")], "C19.Z")
mutant_on_patch("m-P19p2-first-run-skipped", "P19.p2", ["C19"], [("src/impl_zeroize.rs", "chunks_mut(RUN_LEN)", "chunks_mut(RUN_LEN).skip(1)")], "C19.Z")
mutant_on_patch("m-P17p1-serialize-reversed", "P17.p1", ["C17"], [("src/impl_serde.rs", "self.iter().try_for_each(|el| tup.serialize_element(el))?;", "self.iter().rev().try_for_each(|el| tup.serialize_element(el))?;")], "C17.S")
mutant_on_patch("m-P17p1-hint-filter-only-smaller", "P17.p1", ["C17"], [("src/impl_serde.rs", ".filter(|&n| n != N::USIZE)", ".filter(|&n| n < N::USIZE)")], "C17.V")
mutant_on_patch("m-P08p1-generate-range-one-short", "P08.p1", ["C03", "C08"], [("src/lib.rs", "(0..N::USIZE).zip(builder_iter)", "(0..N::USIZE.saturating_sub(1)).zip(builder_iter)")], "")
mutant_on_patch("m-P08p2-map-cursor-not-past-slot", "P08.p2", ["C04"], [("src/lib.rs", "                *position = i + 1;", "                *position = i;")], "C04.O")
mutant_on_patch("m-Q04p3-cursor-never-advanced", "Q04.p3", ["C04", "C08"], [("src/internal.rs", "        self.position += 1;\n\n        value", "        value")], "")
mutant_on_patch("m-Q04p3-map-range-reversed", "Q04.p3", ["C08"], [("src/lib.rs", "FromIterator::from_iter((0..N::USIZE).map(|_| {\n                let value = source.take_next();", "FromIterator::from_iter((0..N::USIZE).rev().map(|_| {\n                let value = source.take_next();")], "C08.M")
mutant_on_patch("m-Q04p3-fold-one-step-too-many", "Q04.p3", ["C04", "C08"], [("src/lib.rs", "            for _ in 0..N::USIZE {\n                let value = source.take_next();", "            for _ in 0..N::USIZE + 1 {\n                let value = source.take_next();")], "")

# ---- additive edits: new API that touches no anchored behaviour must not disturb any check ----
_ADD_ANCHOR = "impl<T, N: ArrayLength> GenericArray<T, N> {\n    /// Returns the number of elements in the array."
benign("add-new-methods", ALL, [("src/lib.rs", _ADD_ANCHOR, """impl<T: Default, N: ArrayLength> GenericArray<T, N> {
    /// Resets every element to its default value.
    pub fn reset(&mut self) {
        for x in self.iter_mut() {
            *x = T::default();
        }
    }

    /// Swaps the first and the last element.
    pub fn swap_ends(&mut self) {
        if N::USIZE > 1 {
            self.as_mut_slice().swap(0, N::USIZE - 1);
        }
    }
}

impl<T, N: ArrayLength> GenericArray<T, N> {
    /// True if the array has no elements.
    pub const fn is_empty_array(&self) -> bool {
        N::USIZE == 0
    }

    /// The first element, if any.
    pub fn first_elem(&self) -> Option<&T> {
        self.as_slice().first()
    }
}

""" + _ADD_ANCHOR)])

mutant_on_patch("m-R19p3-counting-loop-starts-at-one", "R19.p3", ["C19"], [("src/impl_zeroize.rs", "    let mut index = 0;", "    let mut index = (len > 40) as usize;")], "C19.Z")
mutant_on_patch("m-R19p3-counting-loop-stops-early", "R19.p3", ["C19"], [("src/impl_zeroize.rs", "    while index < len {", "    while index + ((len > 40) as usize) < len {")], "C19.Z")
mutant_on_patch("m-R19p3-counting-loop-step-two", "R19.p3", ["C19"], [("src/impl_zeroize.rs", "        index += 1;", "        index += 1 + (len > 40) as usize;")], "C19.Z")


# ---- the seeded breaking changes of /verif/seeded (independent sub-agents, DESIGN 8.3) as regression mutants: each must keep firing on the
# ---- checks recorded in its meta.json when it was confirmed
def _seeded():
    import glob
    import json
    import os
    root = os.path.join(os.path.dirname(os.path.dirname(os.path.abspath(__file__))), "seeded")
    for d in sorted(glob.glob(os.path.join(root, "S*"))):
        meta = json.load(open(os.path.join(d, "meta.json")))
        props = sorted(p for p, rc in meta.get("check_exit_codes", {}).items() if rc) or [meta["breaks_property"]]
        if props:
            VARIANTS.append({"name": "seed-" + os.path.basename(d).split("-")[0] + "-" + meta["breaks_property"], "kind": "mutant", "props": props,
                             "edits": [("patch", os.path.join(d, "patch.diff"))], "expect": ""})


_seeded()


# fourth corpus
mutant_on_patch("m-T16p3-pull-map-skips-an-item", "T16.p3", ["C08"], [("src/impl_alloc.rs", "f(unsafe { source.next().unwrap_unchecked() })", "{ let _ = source.next(); f(unsafe { source.next().unwrap_unchecked() }) }")], "C08.R")
mutant_on_patch("m-T16p3-pull-map-reversed-source", "T16.p3", ["C08"], [("src/impl_alloc.rs", "let mut source = GenericArray::into_vec(self).into_iter();", "let mut source = GenericArray::into_vec(self).into_iter().rev();")], "C08.R")
mutant_on_patch("m-T16p2-default-takes-one-more", "T16.p2", ["C08"], [("src/impl_alloc.rs", "core::iter::repeat_with(T::default).take(N::USIZE).collect()", "core::iter::repeat_with(T::default).take(N::USIZE + 1).collect()")], "C08.D")
mutant_on_patch("m-T03p3-assume-init-reads-off-the-field", "T03.p3", ["C03"], [("src/internal.rs", "GenericArray::assume_init(ptr::read(ptr::addr_of!((*this).array)))", "GenericArray::assume_init(ptr::read(ptr::addr_of!((*this).array).cast::<u8>().add(1).cast()))")], "C03.A")
mutant_on_patch("m-T03p3-array-assume-init-of-a-prefix", "T03.p3", ["C03"], [("src/internal.rs", "mem::transmute_copy::<GenericArray<MaybeUninit<T>, N>, GenericArray<T, N>>(&array)", "mem::transmute_copy::<GenericArray<MaybeUninit<T>, N>, GenericArray<T, N>>(&*(array.as_ptr().wrapping_add(1) as *const GenericArray<MaybeUninit<T>, N>))")], "C03.A")
mutant_on_patch("m-T01p3-even-node-carries-an-element", "T01.p3", ["C01"], [("src/lib.rs", "pub type GenericArrayImplEven<T, U> = GenericArrayImplNode<U, PhantomData<T>>;", "pub type GenericArrayImplEven<T, U> = GenericArrayImplNode<U, T>;")], "C01.S")
mutant_on_patch("m-T07p3-surplus-probed-before-fullness", "T07.p3", ["C07"], [("src/lib.rs", "    if !builder.is_full() {\n        return Err(LengthError);\n    }\n\n    // every slot is taken, whatever the source yields now is one item too many\n    let surplus = iter.next();\n", "    let surplus = iter.next();\n    if !builder.is_full() {\n        return Err(LengthError);\n    }\n")], "C07.P")
mutant_on_patch("m-T07p2-vec-length-test-inverted", "T07.p2", ["C07"], [("src/impl_alloc.rs", "if v.len() < N::USIZE || iter.next().is_some() {", "if v.len() > N::USIZE || iter.next().is_some() {")], "C07.O")
mutant_on_patch("m-T07p1-hint-test-inverted", "T07.p1", ["C07"], [("src/lib.rs", "if lower > N::USIZE || upper.is_some_and(|upper| upper < N::USIZE) {", "if lower > N::USIZE || upper.is_some_and(|upper| upper > N::USIZE) {")], "C07.H")

# release-profile twins (config F1N, debug assertions off): a guard that exists only in debug builds guards nothing
mutant("c02-from-mut-slice-guard-only-in-debug", ["C02"], [("src/lib.rs", "        assert!(\n            slice.len() == N::USIZE,\n            \"slice.len() != N in GenericArray::from_mut_slice\"", "        debug_assert!(\n            slice.len() == N::USIZE,\n            \"slice.len() != N in GenericArray::from_mut_slice\"")], "C02.G")
mutant("c09-remove-bounds-check-only-in-debug", ["C09"], [("src/sequence.rs", "    fn remove(self, idx: usize) -> (T, Self::Output) {\n        assert!(", "    fn remove(self, idx: usize) -> (T, Self::Output) {\n        debug_assert!(")], "C09.")
mutant("c10-zero-length-guard-only-in-debug", ["C10"], [("src/lib.rs", "            assert!(slice.is_empty(), \"GenericArray length N must be non-zero\");\n            return (&[], &[]);", "            debug_assert!(slice.is_empty(), \"GenericArray length N must be non-zero\");\n            return (&[], &[]);")], "C10.")
benign("c03-debug-assert-is-full-removed", ["C03", "C04", "C18"], [("src/internal.rs", "    pub const unsafe fn assume_init(self) -> GenericArray<T, N> {\n        debug_assert!(self.is_full());\n", "    pub const unsafe fn assume_init(self) -> GenericArray<T, N> {\n")])

mutant_on_patch("m-P17p3-slot-next-to-the-cursor", "P17.p3", ["C17", "C04"], [("src/impl_serde.rs", "while let Some(slot) = slots.get_mut(*position) {", "while let Some(slot) = slots.get_mut(*position ^ 1) {")], "")
mutant_on_patch("m-P17p3-counted-before-read", "P17.p3", ["C17", "C04"], [("src/impl_serde.rs", "        match seq.next_element()? {\n            Some(el) => {\n                slot.write(el);\n                *position += 1;\n            }", "        *position += 1;\n        match seq.next_element()? {\n            Some(el) => {\n                slot.write(el);\n            }")], "")


# fifth corpus
mutant_on_patch("m-U13p3-empty-shortcut-says-less", "U13.p3", ["C13"], [("src/impls.rs", "            return Ordering::Equal;", "            return Ordering::Less;")], "C13.D")
mutant_on_patch("m-U06p1-then-guard-inclusive", "U06.p1", ["C06", "C03"], [("src/iter.rs", "        (self.index < self.index_back).then(|| {\n            let i = self.index;", "        (self.index <= self.index_back).then(|| {\n            let i = self.index;")], "")
mutant_on_patch("m-U06p3-fold-loop-leaves-early", "U06.p3", ["C03"], [("src/iter.rs", "        while let Some(value) = self.next() {\n            acc = f(acc, value);\n        }", "        while let Some(value) = self.next() {\n            acc = f(acc, value);\n            if self.index == 1 {\n                break;\n            }\n        }")], "C03.F")
mutant_on_patch("m-T05p2-last-does-not-shrink", "T05.p2", ["C05", "C06"], [("src/iter.rs", "        self.index_back -= 1;\n\n        // Note, everything else will correctly drop first as `self` leaves scope.", "        // Note, everything else will correctly drop first as `self` leaves scope.")], "")
mutant_on_patch("m-U17p2-stored-but-not-counted", "U17.p2", ["C17", "C04"], [("src/impl_serde.rs", "                    dst.write(el);\n                    *position += 1;\n                    ControlFlow::Continue(())", "                    dst.write(el);\n                    ControlFlow::Continue(())")], "")
mutant_on_patch("m-U17p3-source-polls-twice", "U17.p3", ["C17"], [("src/impl_serde.rs", "            builder.extend(iter::from_fn(|| match seq.next_element() {", "            builder.extend(iter::from_fn(|| match seq.next_element::<T>().and_then(|_| seq.next_element()) {")], "C17.V")


# sixth corpus
mutant_on_patch("m-V19p3-peeling-starts-at-the-second-element", "V19.p3", ["C19"], [("src/impl_zeroize.rs", "        zeroize_in_order::<T>(self)", "        zeroize_in_order::<T>(&mut self[1..])")], "C19.Z")
mutant_on_patch("m-V19p3-last-element-left-alone", "V19.p3", ["C19"], [("src/impl_zeroize.rs", "        head.zeroize();\n        rest = tail;", "        if tail.is_empty() {\n            break;\n        }\n        head.zeroize();\n        rest = tail;")], "C19.Z")
mutant_on_patch("m-V04p2-index-one-ahead-of-the-count", "V04.p2", ["C08"], [("src/lib.rs", "                    let i = *position;", "                    let i = *position + 1;")], "C08.G")
mutant_on_patch("m-V04p3-fold-through-try-fold-that-can-break", "V04.p3", ["C03", "C06"], [("src/iter.rs", "let folded: Result<B, Infallible> = self.try_fold(init, |acc, value| Ok(f(acc, value)));", "let folded: Result<B, B> = self.try_fold(init, |acc, value| if false { Err(acc) } else { Ok(f(acc, value)) });")], "")
mutant_on_patch("m-V08p3-fold-over-the-reversed-iterator", "V08.p3", ["C08"], [("src/lib.rs", "self.into_iter().fold(init, &mut f)", "self.into_iter().skip(1).fold(init, &mut f)")], "C08.M")
mutant_on_patch("m-V18p2-len-constant-off-by-one", "V18.p2", ["C02", "C18"], [("src/lib.rs", "const LEN: usize = <N as Unsigned>::USIZE;", "const LEN: usize = <N as Unsigned>::USIZE + 1;")], "")

# the fallible forms answer with Err, not with a panic of their own (C07.N / C15.N, judged in the no-debug-assertion configuration)
mutant("c07-short-source-asserted-instead-of-refused", ["C07"], [("src/lib.rs", "            if !builder.is_full() || iter.next().is_some() {\n                return Err(LengthError);\n            }", "            assert!(builder.is_full(), \"too few items\");\n            if iter.next().is_some() {\n                return Err(LengthError);\n            }")], "C07.N")
mutant("c15-short-boxed-slice-asserted-instead-of-refused", ["C15"], [("src/impl_alloc.rs", "        if slice.len() != N::USIZE {\n            return Err(LengthError);\n        }\n\n        Ok(unsafe { Box::from_raw(Box::into_raw(slice) as *mut _) })", "        if slice.len() > N::USIZE {\n            return Err(LengthError);\n        }\n        assert!(slice.len() == N::USIZE);\n\n        Ok(unsafe { Box::from_raw(Box::into_raw(slice) as *mut _) })")], "C15.N")

mutant_on_patch("m-U09p1-replace-puts-the-removed-element-back", "U09.p1", ["C09", "C03"], [("src/sequence.rs", "let removed = ptr::replace(base.add(idx), last);", "let removed = ptr::replace(base.add(idx), ptr::read(base.add(idx)));")], "")
mutant_on_patch("m-U09p3-joined-fields-in-the-other-order", "U09.p3", ["C09"], [("src/sequence.rs", "let joined = ManuallyDrop::new(Joined(self, last));", "let joined = ManuallyDrop::new(Joined(last, self));")], "C09.")

# mutants of the forms the seventh corpus introduced
mutant_on_patch("m-X03p2-take-next-advances-before-reading", "X03.p2", ["C03", "C04", "C08"], [("src/internal.rs", "        let value = ptr::read(self.array.get_unchecked(self.position));\n\n        self.position += 1;\n", "        self.position += 1;\n\n        let value = ptr::read(self.array.get_unchecked(self.position));\n")], "")
mutant_on_patch("m-X03p2-fold-counts-one-short", "X03.p2", ["C08"], [("src/lib.rs", "            (0..N::USIZE).fold(init, |acc, _| {", "            (1..N::USIZE).fold(init, |acc, _| {")], "")
mutant_on_patch("m-X03p3-vec-not-emptied", "X03.p3", ["C15", "C03"], [("src/impl_alloc.rs", "            v.set_len(0);\n", "")], "")
mutant_on_patch("m-X03p3-read-one-element-in", "X03.p3", ["C15"], [("src/impl_alloc.rs", "v.as_ptr() as *const GenericArray<T, N>", "v.as_ptr().add(1) as *const GenericArray<T, N>")], "C15.G")
mutant_on_patch("m-X14p1-digits-swapped", "X14.p1", ["C14"], [("src/hex.rs", "        s[0] = alphabet[usize::from(c / 16)];\n        s[1] = alphabet[usize::from(c % 16)];", "        s[1] = alphabet[usize::from(c / 16)];\n        s[0] = alphabet[usize::from(c % 16)];")], "C14.H8")
mutant_on_patch("m-X14p2-hint-on-success", "X14.p2", ["C14"], [("src/hex.rs", "    if res.is_err() {", "    if res.is_ok() {")], "C14.H5")

# C06.N: cursor arithmetic that can fail (a panic where checks are on, a wrapped cursor where they are off) although every in-range argument is right
mutant("c06-nth-back-clamps-the-difference", ["C06"], [("src/iter.rs", "let next_back = self.index_back - cmp::min(n, self.len());", "let next_back = self.index_back - n + (n - cmp::min(n, self.len()));")], "C06.N")
mutant("c06-len-through-a-sum", ["C06"], [("src/iter.rs", "    fn len(&self) -> usize {\n        self.index_back - self.index\n    }", "    fn len(&self) -> usize {\n        (self.index_back + N::USIZE) - (self.index + N::USIZE)\n    }")], "C06.N")

mutant_on_patch("m-X05p3-nth-everything-skipped-without-the-destroy", "X05.p3", ["C03", "C06"], [("src/iter.rs", "            self.index = self.index_back;\n\n            unsafe { self.drop_detached(skipped) };\n", "            self.index = self.index_back;\n\n            let _ = skipped;\n")], "")
mutant_on_patch("m-X05p3-nth-back-comparison-off-by-one", "X05.p3", ["C06"], [("src/iter.rs", "        if n >= self.len() {\n            let skipped = self.index..self.index_back;\n            self.index_back = self.index;", "        if n > self.len() {\n            let skipped = self.index..self.index_back;\n            self.index_back = self.index;")], "")
mutant_on_patch("m-X05p3-nth-destroys-before-advancing", "X05.p3", ["C05"], [("src/iter.rs", "        let skipped = self.index..nth_index;\n        self.index = nth_index;\n\n        unsafe {\n            self.drop_detached(skipped);\n", "        let skipped = self.index..nth_index;\n\n        unsafe {\n            self.drop_detached(skipped);\n            self.index = nth_index;\n")], "")

# a new exported method of the by-value iterator that moves a cursor without moving / destroying the element (leak), or backwards (double drop)
mutant("c06-new-method-skips-without-destroying", ["C03", "C06"], [("src/iter.rs", "    /// Returns the remaining items of this iterator as a mutable slice\n", "    /// Skips the next element\n    #[inline]\n    pub fn skip_one(&mut self) {\n        if self.index < self.index_back {\n            self.index += 1;\n        }\n    }\n\n    /// Returns the remaining items of this iterator as a mutable slice\n")], "")
mutant("c06-new-method-rewinds-the-front-cursor", ["C03", "C06"], [("src/iter.rs", "    /// Returns the remaining items of this iterator as a mutable slice\n", "    /// Puts the last element taken from the front back\n    #[inline]\n    pub fn unread(&mut self) {\n        if self.index > 0 {\n            self.index -= 1;\n        }\n    }\n\n    /// Returns the remaining items of this iterator as a mutable slice\n")], "")
mutant("c06-free-function-rewinds-the-front-cursor", ["C03"], [("src/iter.rs", "impl<T, N: ArrayLength> IntoIterator for GenericArray<T, N> {", "/// Puts the last element taken from the front back\npub fn unread<T, N: ArrayLength>(it: &mut GenericArrayIter<T, N>) {\n    if it.index > 0 {\n        it.index -= 1;\n    }\n}\n\nimpl<T, N: ArrayLength> IntoIterator for GenericArray<T, N> {")], "C03.Q")

mutant_on_patch("m-A06p1-nth-back-max-with-plain-sub", "A06.p1", ["C06"], [("src/iter.rs", "self.index_back.saturating_sub(n)", "(self.index_back - n)")], "C06.N")
mutant_on_patch("m-A08p3-map-fast-path-under-the-wrong-condition", "A08.p3", ["C03", "C04"], [("src/lib.rs", "            if mem::needs_drop::<T>() {\n                let mut source = ArrayConsumer::new(self);\n\n                let (array_iter, position) = source.iter_position();\n\n                FromIterator::from_iter(array_iter.map(|src| {", "            if !mem::needs_drop::<T>() {\n                let mut source = ArrayConsumer::new(self);\n\n                let (array_iter, position) = source.iter_position();\n\n                FromIterator::from_iter(array_iter.map(|src| {")], "")
mutant_on_patch("m-A04p3-zip-consumers-without-position-on-the-right", "A04.p3", ["C04"], [("src/lib.rs", "                *right_position = *left_position;\n", "")], "")

# an owner constructed anywhere else than in its judged constructor, with cursors that do not describe its storage
mutant("c06-second-constructor-starts-at-one", ["C03", "C06"], [("src/iter.rs", "impl<T, N: ArrayLength> IntoIterator for GenericArray<T, N> {", "impl<T, N: ArrayLength> GenericArray<T, N> {\n    /// By-value iterator over all elements but the first\n    #[inline]\n    pub fn into_tail_iter(self) -> GenericArrayIter<T, N> {\n        GenericArrayIter {\n            array: ManuallyDrop::new(self),\n            index: 1,\n            index_back: N::USIZE,\n        }\n    }\n}\n\nimpl<T, N: ArrayLength> IntoIterator for GenericArray<T, N> {")], "")
mutant("c04-builder-constructed-half-full", ["C03", "C06"], [("src/internal.rs", "impl<T, N: ArrayLength> ArrayBuilder<T, N> {\n    /// Begin building an array\n", "impl<T, N: ArrayLength> ArrayBuilder<T, N> {\n    /// A builder that takes over storage whose first half is said to be written already\n    #[inline(always)]\n    pub const fn resume(array: GenericArray<MaybeUninit<T>, N>) -> ArrayBuilder<T, N> {\n        ArrayBuilder {\n            array,\n            position: N::USIZE / 2,\n        }\n    }\n\n    /// Begin building an array\n")], "")
benign("c04-unsafe-builder-constructor-with-a-caller-contract", ["C03", "C04", "C06"], [("src/internal.rs", "impl<T, N: ArrayLength> ArrayBuilder<T, N> {\n    /// Begin building an array\n", "impl<T, N: ArrayLength> ArrayBuilder<T, N> {\n    /// A builder that takes over storage whose first `written` slots the caller has initialised\n    ///\n    /// # Safety\n    /// The first `written` elements of `array` must be initialised and `written <= N`\n    #[inline(always)]\n    pub const unsafe fn resume(array: GenericArray<MaybeUninit<T>, N>, written: usize) -> ArrayBuilder<T, N> {\n        ArrayBuilder {\n            array,\n            position: written,\n        }\n    }\n\n    /// Begin building an array\n")])

# the cursor-loop form of fold / rfold (A06.p3): wrong versions of it
mutant_on_patch("m-A06p3-rfold-reads-before-the-decrement", "A06.p3", ["C06", "C03"], [("src/iter.rs", "            // when it is handed to `f`, which may panic.\n            self.index_back -= 1;\n", "            // when it is handed to `f`, which may panic.\n"), ("src/iter.rs", "            acc = f(acc, value);\n", "            self.index_back -= 1;\n            acc = f(acc, value);\n")], "")
mutant_on_patch("m-A06p3-rfold-calls-f-before-shrinking", "A06.p3", ["C04", "C05", "C06"], [("src/iter.rs", "            // when it is handed to `f`, which may panic.\n            self.index_back -= 1;\n", "            // when it is handed to `f`, which may panic.\n"), ("src/iter.rs", "let value = unsafe { ptr::read(base.add(self.index_back)) };", "let value = unsafe { ptr::read(base.add(self.index_back - 1)) };"), ("src/iter.rs", "            acc = f(acc, value);\n", "            acc = f(acc, value);\n            self.index_back -= 1;\n")], "")
mutant_on_patch("m-A06p3-rfold-loop-condition-le", "A06.p3", ["C06"], [("src/iter.rs", "while self.index < self.index_back {", "while self.index <= self.index_back {")], "")
mutant_on_patch("m-A06p3-rfold-stops-one-early", "A06.p3", ["C06", "C03"], [("src/iter.rs", "while self.index < self.index_back {", "while self.index + 1 < self.index_back {")], "")

benign("c06-fold-as-a-loop-over-its-own-cursors", ["C03", "C04", "C05", "C06"], [("src/iter.rs", '        let ret = unsafe {\n            let GenericArrayIter {\n                ref array,\n                ref mut index,\n                index_back,\n            } = self;\n\n            let remaining = array.get_unchecked(*index..index_back);\n\n            remaining.iter().fold(init, |acc, src| {\n                let value = ptr::read(src);\n\n                *index += 1;\n\n                f(acc, value)\n            })\n        };\n', '        let base: *const T = self.array.as_ptr();\n        let mut ret = init;\n\n        while self.index < self.index_back {\n            let value = unsafe { ptr::read(base.add(self.index)) };\n\n            self.index += 1;\n\n            ret = f(ret, value);\n        }\n')])
mutant("c06-fold-cursor-loop-advances-before-reading", ["C06", "C03"], [("src/iter.rs", '        let ret = unsafe {\n            let GenericArrayIter {\n                ref array,\n                ref mut index,\n                index_back,\n            } = self;\n\n            let remaining = array.get_unchecked(*index..index_back);\n\n            remaining.iter().fold(init, |acc, src| {\n                let value = ptr::read(src);\n\n                *index += 1;\n\n                f(acc, value)\n            })\n        };\n', '        let base: *const T = self.array.as_ptr();\n        let mut ret = init;\n\n        while self.index < self.index_back {\n            self.index += 1;\n\n            let value = unsafe { ptr::read(base.add(self.index)) };\n\n            ret = f(ret, value);\n        }\n')], "")

# ninth corpus (B<prop>.p<i>): wrong versions of the new forms
mutant_on_patch("m-B20p3-repeat-vec-one-short", "B20.p3", ["C20"], [("src/arr.rs", "$crate::alloc::vec![$x; __LEN])", "$crate::alloc::vec![$x; __LEN - (__LEN > 3) as usize])")], "C20.B")
mutant_on_patch("m-B18p3-view-on-a-flattening-that-is-one-too-long", "B18.p3", ["C02", "C13", "C01"], [("src/lib.rs", "slice::from_raw_parts(slice.as_ptr() as *const T, slice.len() * N::USIZE)", "slice::from_raw_parts(slice.as_ptr() as *const T, slice.len() * N::USIZE + (N::USIZE > 30) as usize)")], "")
mutant_on_patch("m-B19p2-zeroize-helper-skips-the-first", "B19.p2", ["C19"], [("src/impl_zeroize.rs", "    GenericArray::slice_from_chunks_mut(chunks)\n", "    GenericArray::slice_from_chunks_mut(chunks)[(N::USIZE > 20) as usize..]\n")], "C19.Z")

# ---- Hash::hash_slice overrides (round 19 / S216): each piece to the array's own `hash`, once, in order
_HS_OLD = "        Hash::hash(self.as_slice(), state)\n    }\n"
def _hs(body):
    return [("src/impls.rs", _HS_OLD, _HS_OLD + "\n    fn hash_slice<H: Hasher>(data: &[Self], state: &mut H) {\n        %s\n    }\n" % body)]
benign("c13-hash-slice-override-loop", ["C13"], _hs("for piece in data { Hash::hash(piece, state); }"))
benign("c13-hash-slice-override-for-each", ["C13"], _hs("data.iter().for_each(|piece| piece.hash(state));"))
mutant("c13-hash-slice-override-skips-the-first", ["C13"], _hs("for piece in data.iter().skip(1) { Hash::hash(piece, state); }"), "C13.D")
mutant("c13-hash-slice-override-hashes-the-elements", ["C13"], _hs("for piece in data { for x in piece.iter() { Hash::hash(x, state); } }"), "C13.D")

# ---- tuple conversions through the From / Into impls for native arrays instead of the const fns (own probe, round 19)
benign("c02-tuple-from-via-from-impl", ["C02", "C12"], [("src/impls.rs", "GenericArray::from_array([$($t,)*])", "GenericArray::from([$($t,)*])")])
benign("c02-tuple-into-via-into-impl", ["C02", "C12"], [("src/impls.rs", "let [$($t),*] = array.into_array();", "let [$($t),*] = array.into();")])

# ---- early returns in generate (round 19 / S214): only a path on which N == 0 is known may skip the traversal
_BG_OLD = "                Box::<GenericArray<MaybeUninit<T>, N>>::new_uninit().assume_init();\n"
benign("c08-boxed-generate-early-return-for-zero-length", ["C08", "C15", "C16", "C03", "C04"], [("src/impl_alloc.rs", _BG_OLD, _BG_OLD + "\n            if N::USIZE == 0 {\n                return Box::from_raw(Box::into_raw(array).cast());\n            }\n")])
mutant("c08-boxed-generate-early-return-for-zero-size", ["C08"], [("src/impl_alloc.rs", _BG_OLD, _BG_OLD + "\n            if core::mem::size_of::<GenericArray<T, N>>() == 0 {\n                return Box::from_raw(Box::into_raw(array).cast());\n            }\n")], "C08.G")

# a NEW windowed view API (seed S211's array_windows with the window count put right: (N + 1).saturating_sub(K)): C01.V must prove it in bounds
benign_patch("own.array-windows-correct", ["C01", "C02", "C12", "C18"])

# ---- lockstep (round 18 / S203): `slots.skip(cursor)` over the owner's whole storage starts at the slot the cursor designates (benign); any other skip does not
_MAP_OLD = "            let (array_iter, position) = source.iter_position();\n\n            FromIterator::from_iter(array_iter.map(|src| {"
benign("c04-map-consumer-slots-skip-the-cursor", ["C03", "C04", "C05"],   # (C08.M keeps its own rule: no skipping adaptor in map's pipeline at all)
        [("src/lib.rs", _MAP_OLD, "            let (array_iter, position) = source.iter_position();\n            let array_iter = array_iter.skip(*position);\n\n            FromIterator::from_iter(array_iter.map(|src| {")])
mutant("c04-map-consumer-slots-skip-one", ["C04"], [("src/lib.rs", _MAP_OLD, "            let (array_iter, position) = source.iter_position();\n            let array_iter = array_iter.skip((N::USIZE > 40) as usize);\n\n            FromIterator::from_iter(array_iter.map(|src| {")], "C04.O")

# ---- optimiser hints in safe const fns (round 20 / S230): true ones are proved, false ones reported (C18.H)
_HINT_OLD = "        let num_remainder = slice.len() - num_in_chunks;\n\n        unsafe {\n            (\n                slice::from_raw_parts(slice.as_ptr() as *const GenericArray<T, N>, num_chunks),"
benign("c18-true-hint-in-chunks-from-slice", ["C18", "C10", "C01"], [("src/lib.rs", _HINT_OLD, "        let num_remainder = slice.len() - num_in_chunks;\n        unsafe { core::hint::assert_unchecked(num_in_chunks <= slice.len()) };\n\n        unsafe {\n            (\n                slice::from_raw_parts(slice.as_ptr() as *const GenericArray<T, N>, num_chunks),")])
mutant("c18-false-hint-in-chunks-from-slice", ["C18"], [("src/lib.rs", _HINT_OLD, "        let num_remainder = slice.len() - num_in_chunks;\n        unsafe { core::hint::assert_unchecked(num_remainder != 0) };\n\n        unsafe {\n            (\n                slice::from_raw_parts(slice.as_ptr() as *const GenericArray<T, N>, num_chunks),")], "C18.H")

# ---- more new part-view APIs (own probes for C01.V / C02.G.sweep): a suffix view of a slice, a strided element view of self
def _api(body):
    return [("src/lib.rs", _FC_ANCHOR, body + _FC_ANCHOR)]
benign("c01-new-suffix-view-api-in-bounds", ["C01", "C02", "C12", "C18"], _api("    /// The last `N` elements of the slice as an array reference, `None` if there are fewer.\n    pub const fn last_chunk_from_slice(slice: &[T]) -> Option<&GenericArray<T, N>> {\n        if slice.len() < N::USIZE {\n            return None;\n        }\n        Some(unsafe { &*(slice.as_ptr().add(slice.len() - N::USIZE) as *const GenericArray<T, N>) })\n    }\n\n"))
mutant("c01-new-suffix-view-api-one-too-far", ["C01"], _api("    /// The last `N` elements of the slice as an array reference, `None` if there are fewer.\n    pub const fn last_chunk_from_slice(slice: &[T]) -> Option<&GenericArray<T, N>> {\n        if slice.len() < N::USIZE {\n            return None;\n        }\n        Some(unsafe { &*(slice.as_ptr().add(slice.len() - N::USIZE + (N::USIZE > 30) as usize) as *const GenericArray<T, N>) })\n    }\n\n"), "")
benign("c01-new-pair-view-of-self-in-bounds", ["C01", "C02", "C12"], _api("    /// Elements `i` and `i + 1` as a native pair, `None` if `i + 1` is out of range.\n    pub fn pair_at(&self, i: usize) -> Option<&[T; 2]> {\n        if N::USIZE < 2 || i > N::USIZE - 2 {\n            return None;\n        }\n        Some(unsafe { &*(self.as_ptr().add(i) as *const [T; 2]) })\n    }\n\n"))
mutant("c01-new-pair-view-of-self-off-by-one", ["C01"], _api("    /// Elements `i` and `i + 1` as a native pair, `None` if `i + 1` is out of range.\n    pub fn pair_at(&self, i: usize) -> Option<&[T; 2]> {\n        if N::USIZE < 2 || i > N::USIZE - 1 {\n            return None;\n        }\n        Some(unsafe { &*(self.as_ptr().add(i) as *const [T; 2]) })\n    }\n\n"), "C01.V")
benign("c01-new-tail-slice-of-self-in-bounds", ["C01", "C02", "C12"], _api("    /// All elements but the first.\n    pub fn tail(&self) -> &[T] {\n        if N::USIZE == 0 {\n            return &[];\n        }\n        unsafe { slice::from_raw_parts(self.as_ptr().add(1), N::USIZE - 1) }\n    }\n\n"))
mutant("c01-new-tail-slice-of-self-one-too-long", ["C01"], _api("    /// All elements but the first.\n    pub fn tail(&self) -> &[T] {\n        if N::USIZE == 0 {\n            return &[];\n        }\n        unsafe { slice::from_raw_parts(self.as_ptr().add(1), N::USIZE) }\n    }\n\n"), "C01.V")

# tenth corpus: wrong versions of the owned map rebuilt on generate (D08.p3)
mutant_on_patch("m-D08p3-map-reads-the-mirrored-element", "D08.p3", ["C08"], [("src/lib.rs", "let value = ptr::read(src.get_unchecked(i));", "let value = ptr::read(src.get_unchecked(N::USIZE - 1 - i));")], "C08.M")
mutant_on_patch("m-D08p3-map-counts-after-the-call", "D08.p3", ["C04"], [("src/lib.rs", "                let value = ptr::read(src.get_unchecked(i));\n\n                *position += 1;\n\n                f(value)", "                let value = ptr::read(src.get_unchecked(i));\n                let r = f(value);\n                *position += 1;\n                r")], "C04")

# C09.N must not call a division by a non-zero constant fallible (own probe after S242's `N::USIZE / 2`)
benign("c09-remove-unchecked-halves-the-length", ["C09", "C03"], [("src/sequence.rs", "    unsafe fn remove_unchecked(self, idx: usize) -> (T, Self::Output) {\n        if idx >= N::USIZE || N::USIZE == 0 {\n            core::hint::unreachable_unchecked();\n        }\n", "    unsafe fn remove_unchecked(self, idx: usize) -> (T, Self::Output) {\n        if idx >= N::USIZE || N::USIZE == 0 {\n            core::hint::unreachable_unchecked();\n        }\n        let _front_half = idx < N::USIZE / 2;\n")])
