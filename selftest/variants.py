"""Mutants (must fire) and benign edits (must stay silent). edits = [(file, old, new)], applied to a scratch copy."""

VARIANTS = []


def mutant(name, props, edits, expect=""):
    VARIANTS.append({"name": name, "kind": "mutant", "props": props, "edits": edits, "expect": expect})


def benign(name, props, edits):
    VARIANTS.append({"name": name, "kind": "benign", "props": props, "edits": edits})


# ---- C13 ------------------------------------------------------------------------------------
mutant("c13-cmp-swapped", ["C13"], [("src/impls.rs", "Ord::cmp(self.as_slice(), other.as_slice())", "Ord::cmp(other.as_slice(), self.as_slice())")], "C13.D")
mutant("c13-hash-per-element", ["C13"], [("src/impls.rs", "Hash::hash(self.as_slice(), state)", "for x in self.as_slice() { Hash::hash(x, state) }")], "C13.D")
mutant("c13-eq-prefix", ["C13"], [("src/impls.rs", "**self == **other", "self[..N::USIZE.saturating_sub(1)] == other[..N::USIZE.saturating_sub(1)]")], "C13.D")
mutant("c13-partial-cmp-via-reverse", ["C13"], [("src/impls.rs", "PartialOrd::partial_cmp(self.as_slice(), other.as_slice())", "PartialOrd::partial_cmp(self.as_slice(), other.as_slice()).map(Ordering::reverse).map(Ordering::reverse).map(Ordering::reverse)")], "C13.D")
mutant("c13-debug-reversed", ["C13"], [("src/impls.rs", "self.as_slice().fmt(fmt)", "fmt.debug_list().entries(self.iter().rev()).finish()")], "C13.D")
mutant("c13-borrow-tail", ["C13"], [("src/impls.rs", "fn borrow(&self) -> &[T] {\n        self.as_slice()", "fn borrow(&self) -> &[T] {\n        &self.as_slice()[N::USIZE.min(1)..]")], "C13.B")
mutant("c13-as-slice-short", ["C13"], [("src/lib.rs", "slice::from_raw_parts(self as *const Self as *const T, N::USIZE)", "slice::from_raw_parts(self as *const Self as *const T, N::USIZE - (N::USIZE > 7) as usize)")], "C02.V")
benign("c13-eq-as-slice", ["C13"], [("src/impls.rs", "**self == **other", "self.as_slice() == other.as_slice()")])
benign("c13-debug-index", ["C13"], [("src/impls.rs", "self.as_slice().fmt(fmt)", "Debug::fmt(&self[..], fmt)")])
benign("c13-cmp-method", ["C13"], [("src/impls.rs", "Ord::cmp(self.as_slice(), other.as_slice())", "self.as_slice().cmp(other.as_slice())")])
benign("c13-eq-iter", ["C13"], [("src/impls.rs", "**self == **other", "self.as_slice().iter().eq(other.as_slice().iter())")])

# ---- C02 ------------------------------------------------------------------------------------
mutant("c02-from-slice-lt", ["C02"], [("src/lib.rs", "if slice.len() != N::USIZE {\n            panic!(\"slice.len() != N in GenericArray::from_slice\");", "if slice.len() < N::USIZE {\n            panic!(\"slice.len() != N in GenericArray::from_slice\");")], "C02.G")
mutant("c02-try-from-slice-gt", ["C02"], [("src/lib.rs", "if slice.len() != N::USIZE {\n            return Err(LengthError);\n        }\n\n        Ok(unsafe { &*(slice.as_ptr()", "if slice.len() > N::USIZE {\n            return Err(LengthError);\n        }\n\n        Ok(unsafe { &*(slice.as_ptr()")], "C02.G")
mutant("c02-from-mut-slice-ge", ["C02"], [("src/lib.rs", "slice.len() == N::USIZE,\n            \"slice.len() != N in GenericArray::from_mut_slice\"", "slice.len() >= N::USIZE,\n            \"slice.len() != N in GenericArray::from_mut_slice\"")], "C02.G")
mutant("c02-try-from-mut-overstrict", ["C02"], [("src/lib.rs", "match slice.len() == N::USIZE {\n            true => Ok(GenericArray::from_mut_slice(slice)),", "match slice.len() == N::USIZE && N::USIZE != 5 {\n            true => Ok(GenericArray::from_mut_slice(slice)),")], "C02.R")
mutant("c02-as-mut-slice-offset", ["C02"], [("src/lib.rs", "slice::from_raw_parts_mut(self as *mut Self as *mut T, N::USIZE)", "slice::from_raw_parts_mut((self as *mut Self as *mut T).add((N::USIZE > 9) as usize), N::USIZE - (N::USIZE > 9) as usize)")], "C02.V")
mutant("c02-asref-tail", ["C02"], [("src/impls.rs", "fn as_ref(&self) -> &[T] {\n        self.as_slice()", "fn as_ref(&self) -> &[T] {\n        &self.as_slice()[..N::USIZE - (N::USIZE > 12) as usize]")], "C02.D")
mutant("c02-tuple-swapped", ["C02"], [("src/impls.rs", "let ($($t,)*) = tuple;\n                GenericArray::from_array([$($t,)*])", "let ($($t,)*) = tuple;\n                let mut a = [$($t,)*];\n                if a.len() == 11 { a.swap(3, 4); }\n                GenericArray::from_array(a)")], "C02.P")
mutant("c02-from-slice-copy", ["C02"], [("src/lib.rs", "unsafe { &*(slice.as_ptr() as *const GenericArray<T, N>) }\n    }\n\n    /// Converts a slice to a generic array reference with inferred length.\n    ///\n    /// This is a fallible", "unsafe { &*(slice.as_ptr().add(N::USIZE).sub(N::USIZE).add(0usize.wrapping_sub(0)) as *const GenericArray<T, N>).add(0) }\n    }\n\n    /// Converts a slice to a generic array reference with inferred length.\n    ///\n    /// This is a fallible")], "")
mutant("c02-as-slice-detached-lifetime", ["C02"], [("src/lib.rs", "pub const fn as_slice(&self) -> &[T] {", "pub const fn as_slice<'a, 'b>(&'a self) -> &'b [T] {")], "C02.M")
mutant("c02-into-iter-skip", ["C02"], [("src/lib.rs", "fn into_iter(self: &'a GenericArray<T, N>) -> Self::IntoIter {\n        self.as_slice().iter()", "fn into_iter(self: &'a GenericArray<T, N>) -> Self::IntoIter {\n        self.as_slice()[(N::USIZE > 20) as usize..].iter()")], "C02.D")
benign("c02-from-slice-assert-eq", ["C02"], [("src/lib.rs", "if slice.len() != N::USIZE {\n            panic!(\"slice.len() != N in GenericArray::from_slice\");\n        }", "assert!(slice.len() == N::USIZE, \"slice.len() != N in GenericArray::from_slice\");")])
benign("c02-try-from-slice-match", ["C02"], [("src/lib.rs", "if slice.len() != N::USIZE {\n            return Err(LengthError);\n        }\n\n        Ok(unsafe { &*(slice.as_ptr() as *const GenericArray<T, N>) })", "match slice.len() == N::USIZE {\n            true => Ok(unsafe { &*(slice.as_ptr() as *const GenericArray<T, N>) }),\n            false => Err(LengthError),\n        }")])
benign("c02-from-slice-lt-or-gt", ["C02"], [("src/lib.rs", "if slice.len() != N::USIZE {\n            panic!(\"slice.len() != N in GenericArray::from_slice\");", "if slice.len() < N::USIZE || slice.len() > N::USIZE {\n            panic!(\"slice.len() != N in GenericArray::from_slice\");")])
benign("c02-as-slice-cast-method", ["C02"], [("src/lib.rs", "slice::from_raw_parts(self as *const Self as *const T, N::USIZE)", "slice::from_raw_parts((self as *const Self).cast::<T>(), Self::len())")])
benign("c02-asref-via-deref", ["C02"], [("src/impls.rs", "fn as_ref(&self) -> &[T] {\n        self.as_slice()", "fn as_ref(&self) -> &[T] {\n        &**self")])
