"""Mutants (must fire) and benign edits (must stay silent). edits = [(file, old, new)], applied to a scratch copy."""

VARIANTS = []


def mutant(name, props, edits, expect=""):
    VARIANTS.append({"name": name, "kind": "mutant", "props": props, "edits": edits, "expect": expect})


def benign(name, props, edits):
    VARIANTS.append({"name": name, "kind": "benign", "props": props, "edits": edits})


# ---- C13 ------------------------------------------------------------------------------------
mutant("c13-cmp-swapped", ["C13"], [("src/impls.rs", "Ord::cmp(self.as_slice(), other.as_slice())", "Ord::cmp(other.as_slice(), self.as_slice())")], "C13.D")
mutant("c13-hash-per-element", ["C13"], [("src/impls.rs", "Hash::hash(self.as_slice(), state)", "for x in self.as_slice() { Hash::hash(x, state) }")], "C13.D")
mutant("c13-eq-prefix", ["C13"], [("src/impls.rs", "**self == **other", "self[..N::USIZE.saturating_sub(1)] == other[..N::USIZE.saturating_sub(1)]")], "C13.D")
mutant("c13-partial-cmp-via-reverse", ["C13"], [("src/impls.rs", "PartialOrd::partial_cmp(self.as_slice(), other.as_slice())", "PartialOrd::partial_cmp(self.as_slice(), other.as_slice()).map(Ordering::reverse).map(Ordering::reverse).map(Ordering::reverse)")], "C13.D")
mutant("c13-debug-reversed", ["C13"], [("src/impls.rs", "self.as_slice().fmt(fmt)", "fmt.debug_list().entries(self.iter().rev()).finish()")], "C13.D")
mutant("c13-borrow-tail", ["C13"], [("src/impls.rs", "fn borrow(&self) -> &[T] {\n        self.as_slice()", "fn borrow(&self) -> &[T] {\n        &self.as_slice()[N::USIZE.min(1)..]")], "C13.B")
mutant("c13-as-slice-short", ["C13"], [("src/lib.rs", "slice::from_raw_parts(self as *const Self as *const T, N::USIZE)", "slice::from_raw_parts(self as *const Self as *const T, N::USIZE - (N::USIZE > 7) as usize)")], "C02.V")
benign("c13-eq-as-slice", ["C13"], [("src/impls.rs", "**self == **other", "self.as_slice() == other.as_slice()")])
benign("c13-debug-index", ["C13"], [("src/impls.rs", "self.as_slice().fmt(fmt)", "Debug::fmt(&self[..], fmt)")])
benign("c13-cmp-method", ["C13"], [("src/impls.rs", "Ord::cmp(self.as_slice(), other.as_slice())", "self.as_slice().cmp(other.as_slice())")])
benign("c13-eq-iter", ["C13"], [("src/impls.rs", "**self == **other", "self.as_slice().iter().eq(other.as_slice().iter())")])
