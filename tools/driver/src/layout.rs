use crate::json::J;
use rustc_middle::ty::TyCtxt;

pub fn run<'tcx>(_tcx: TyCtxt<'tcx>, _req: &str, _errors: &mut Vec<String>) -> J {
    J::Null
}
