//! Layout oracle: evaluates rustc's own `layout_of` query on GenericArray<E, N> for a lattice of element
//! types (type aliases `E_*` of the witness crate) and lengths (built here from their binary digits),
//! and checks size / alignment / the offset of every element-bearing field of every storage node.
//! Nothing of the crate is executed: this is a query over types.
//!
//! Request file (GAV_LAYOUT): lines `lens <n> <n> ...` (decimal), `zst_only <n> ...` (lengths probed
//! with zero-sized elements only), `samples <k>`.

use crate::export::{path, ty_str};
use crate::json::J;
use rustc_abi::FieldsShape;
use rustc_hir::def::DefKind;
use rustc_middle::ty::layout::{LayoutCx, LayoutError, TyAndLayout};
use rustc_middle::ty::{self, Ty, TyCtxt, TypingEnv};
use std::collections::HashMap;

struct Cx<'tcx> {
    tcx: TyCtxt<'tcx>,
    env: TypingEnv<'tcx>,
    memo: HashMap<(Ty<'tcx>, Ty<'tcx>), Result<u128, String>>,
    nodes: u64,
}

struct Lattice<'tcx> {
    ga: ty::AdtDef<'tcx>,
    uint: ty::AdtDef<'tcx>,
    uterm: Ty<'tcx>,
    b0: Ty<'tcx>,
    b1: Ty<'tcx>,
}

fn adt_parts<'tcx>(t: Ty<'tcx>) -> Option<(ty::AdtDef<'tcx>, ty::GenericArgsRef<'tcx>)> {
    match t.kind() {
        ty::TyKind::Adt(d, a) => Some((*d, *a)),
        _ => None,
    }
}

fn mk_len<'tcx>(tcx: TyCtxt<'tcx>, l: &Lattice<'tcx>, n: u64) -> Ty<'tcx> {
    let mut t = l.uterm;
    if n == 0 {
        return t;
    }
    let bits = 64 - n.leading_zeros();
    for i in (0..bits).rev() {
        let b = if (n >> i) & 1 == 1 { l.b1 } else { l.b0 };
        t = Ty::new_adt(tcx, l.uint, tcx.mk_args(&[t.into(), b.into()]));
    }
    t
}

impl<'tcx> Cx<'tcx> {
    fn layout(&self, t: Ty<'tcx>) -> Result<TyAndLayout<'tcx>, &'tcx LayoutError<'tcx>> {
        self.tcx.layout_of(self.env.as_query_input(t))
    }

    /// Verifies that `node` (laid out as `lay`) holds its elements of type `elem` exactly at
    /// offsets {i * size(elem)} and nothing else but 1-aligned zero-sized markers.
    /// Returns the number of elements.
    fn check_node(&mut self, lay: TyAndLayout<'tcx>, elem: Ty<'tcx>, se: u64, ae: u64) -> Result<u128, String> {
        let key = (lay.ty, elem);
        if let Some(r) = self.memo.get(&key) {
            return r.clone();
        }
        self.nodes += 1;
        let r = self.check_node_inner(lay, elem, se, ae);
        self.memo.insert(key, r.clone());
        r
    }

    fn check_node_inner(&mut self, lay: TyAndLayout<'tcx>, elem: Ty<'tcx>, se: u64, ae: u64) -> Result<u128, String> {
        let t = lay.ty;
        if t == elem {
            return Ok(1);
        }
        if lay.align.abi.bytes() != ae {
            return Err(format!("node {} has alignment {} but the element's is {}", ty_str(t), lay.align.abi.bytes(), ae));
        }
        match t.kind() {
            ty::TyKind::Array(inner, n) => {
                let n = n.try_to_target_usize(self.tcx).ok_or_else(|| "array length not evaluable".to_string())? as u128;
                if *inner != elem {
                    // an array of child nodes: n copies of the child, back to back (the array stride is the child's size)
                    let cx = LayoutCx::new(self.tcx, self.env);
                    let child = lay.field(&cx, 0);
                    if n == 0 {
                        return Ok(0);
                    }
                    let c = self.check_node(child, elem, se, ae)?;
                    if child.size.bytes() as u128 != c * se as u128 {
                        return Err(format!("child {} has size {} for {} elements", ty_str(child.ty), child.size.bytes(), c));
                    }
                    if lay.size.bytes() as u128 != n * c * se as u128 {
                        return Err(format!("array node {} has size {}", ty_str(t), lay.size.bytes()));
                    }
                    return Ok(n * c);
                }
                if lay.size.bytes() as u128 != n * se as u128 {
                    return Err(format!("array node {} has size {}", ty_str(t), lay.size.bytes()));
                }
                Ok(n)
            }
            ty::TyKind::Adt(def, _) if def.is_struct() => {
                let cx = LayoutCx::new(self.tcx, self.env);
                let nf = lay.fields.count();
                if !matches!(lay.fields, FieldsShape::Arbitrary { .. }) && nf > 0 {
                    return Err(format!("node {} has a non-struct field shape", ty_str(t)));
                }
                let mut parts: Vec<(u64, u128, String)> = Vec::new(); // (offset, count, ty)
                for i in 0..nf {
                    let f = lay.field(&cx, i);
                    let off = lay.fields.offset(i).bytes();
                    if f.ty != elem && f.size.bytes() == 0 && f.align.abi.bytes() == 1 && (f.ty.is_phantom_data() || (se > 0 && !matches!(f.ty.kind(), ty::TyKind::Array(inner, _) if *inner == elem))) {
                        continue; // a 1-aligned zero-sized marker (PhantomData, (), [(); 0], ...) occupies nothing and constrains nothing
                    }
                    let c = self.check_node(f, elem, se, ae)?;
                    if f.ty != elem && f.size.bytes() as u128 != c * se as u128 {
                        return Err(format!("child {} has size {} for {} elements", ty_str(f.ty), f.size.bytes(), c));
                    }
                    parts.push((off, c, ty_str(f.ty)));
                }
                parts.sort();
                let mut count: u128 = 0;
                for (off, c, fty) in parts.iter() {
                    let want = count * se as u128;
                    if *off as u128 != want {
                        // zero-sized pieces may sit anywhere aligned; non-empty ones must be adjacent
                        if !(*c == 0 || se == 0) || (*off % ae.max(1)) != 0 {
                            return Err(format!("in {}: field of type {} at byte {} but its first element belongs at byte {}", ty_str(t), fty, off, want));
                        }
                    }
                    count += *c;
                }
                if lay.size.bytes() as u128 != count * se as u128 {
                    return Err(format!("node {} has size {} but holds {} elements of {} bytes (padding or overlap)", ty_str(t), lay.size.bytes(), count, se));
                }
                Ok(count)
            }
            _ => Err(format!("unexpected storage node type {}", ty_str(t))),
        }
    }
}

pub fn run<'tcx>(tcx: TyCtxt<'tcx>, req: &str, errors: &mut Vec<String>) -> J {
    let text = match std::fs::read_to_string(req) {
        Ok(t) => t,
        Err(e) => {
            errors.push(format!("layout request unreadable: {}", e));
            return J::Null;
        }
    };
    let mut lens: Vec<u64> = Vec::new();
    let mut zst_lens: Vec<u64> = Vec::new();
    let mut nsamples = 6usize;
    for line in text.lines() {
        let mut it = line.split_whitespace();
        match it.next() {
            Some("lens") => lens.extend(it.filter_map(|x| x.parse::<u64>().ok())),
            Some("zst_only") => zst_lens.extend(it.filter_map(|x| x.parse::<u64>().ok())),
            Some("samples") => nsamples = it.next().and_then(|x| x.parse().ok()).unwrap_or(6),
            _ => {}
        }
    }
    // locate SEED and element aliases
    let mut seed: Option<Ty<'tcx>> = None;
    let mut elems: Vec<(String, Ty<'tcx>)> = Vec::new();
    for id in tcx.hir_free_items() {
        let did = id.owner_id.def_id.to_def_id();
        if tcx.def_kind(did) == DefKind::TyAlias {
            let name = tcx.item_name(did).to_string();
            let t = tcx.type_of(did).instantiate_identity().skip_norm_wip();
            if name == "SEED" {
                seed = Some(t);
            } else if name.starts_with("E_") {
                elems.push((name, t));
            }
        }
    }
    let env = TypingEnv::fully_monomorphized();
    let seed = match seed {
        Some(s) => tcx.normalize_erasing_regions(env, ty::Unnormalized::new_wip(s)),
        None => {
            errors.push("no SEED alias in witness crate".to_string());
            return J::Null;
        }
    };
    let lat = (|| {
        let (ga, a) = adt_parts(seed)?;
        let n = a.type_at(1);
        let (uint, ua) = adt_parts(n)?;
        let b0 = ua.type_at(1);
        let (_, ia) = adt_parts(ua.type_at(0))?;
        Some(Lattice { ga, uint, uterm: ia.type_at(0), b0, b1: ia.type_at(1) })
    })();
    let lat = match lat {
        Some(l) => l,
        None => {
            errors.push("SEED alias does not have the shape GenericArray<u8, UInt<UInt<UTerm, B1>, B0>>".to_string());
            return J::Null;
        }
    };
    let mut cx = Cx { tcx, env, memo: HashMap::new(), nodes: 0 };
    let mut failures: Vec<J> = Vec::new();
    let mut samples: Vec<J> = Vec::new();
    let mut elem_info: Vec<J> = Vec::new();
    let mut probes: u64 = 0;
    let mut ok: u64 = 0;
    let mut uninhabitable: u64 = 0;
    const MAX_OBJ: u128 = 1u128 << 61; // rustc's object size bound on 64-bit targets
    for (name, et) in elems.iter() {
        let et = tcx.normalize_erasing_regions(env, ty::Unnormalized::new_wip(*et));
        let el = match cx.layout(et) {
            Ok(l) => l,
            Err(e) => {
                errors.push(format!("element {} has no layout: {:?}", name, e));
                continue;
            }
        };
        let (se, ae) = (el.size.bytes(), el.align.abi.bytes());
        let mut n_e = 0u64;
        let all: Vec<u64> = if se == 0 { lens.iter().chain(zst_lens.iter()).cloned().collect() } else { lens.clone() };
        for &n in all.iter() {
            probes += 1;
            n_e += 1;
            let nty = mk_len(tcx, &lat, n);
            let gt = Ty::new_adt(tcx, lat.ga, tcx.mk_args(&[et.into(), nty.into()]));
            let total = n as u128 * se as u128;
            let lay = match cx.layout(gt) {
                Ok(l) => l,
                Err(e) => {
                    if total >= MAX_OBJ {
                        uninhabitable += 1; // the type cannot exist in any program; neither pass nor fail
                    } else {
                        failures.push(J::obj(vec![("elem", J::s(name.clone())), ("n", J::Int(n as i128)), ("reason", J::s(format!("layout_of failed: {:?}", e)))]));
                    }
                    continue;
                }
            };
            let mut reason: Option<String> = None;
            if lay.size.bytes() as u128 != total {
                reason = Some(format!("size {} != N * size_of(T) = {}", lay.size.bytes(), total));
            } else if lay.align.abi.bytes() != ae {
                reason = Some(format!("align {} != align_of(T) = {}", lay.align.abi.bytes(), ae));
            } else {
                // GenericArray is a struct with one non-marker field: the storage
                match cx.check_node(lay, et, se, ae) {
                    Ok(c) if c == n as u128 => {}
                    Ok(c) => reason = Some(format!("storage holds {} elements, expected {}", c, n)),
                    Err(e) => reason = Some(e),
                }
            }
            match reason {
                None => {
                    ok += 1;
                    if samples.len() < nsamples && (n == 5 || n == 6 || n > 1000) && samples.iter().all(|_| true) {
                        let lcx = LayoutCx::new(tcx, env);
                        let mut fields = Vec::new();
                        if lay.fields.count() > 0 {
                            let st = lay.field(&lcx, 0);
                            for i in 0..st.fields.count() {
                                let f = st.field(&lcx, i);
                                fields.push(J::obj(vec![
                                    ("offset", J::Int(st.fields.offset(i).bytes() as i128)),
                                    ("size", J::Int(f.size.bytes() as i128)),
                                    ("ty", J::s(if ty_str(f.ty).len() > 120 { format!("{}...", &ty_str(f.ty)[..120]) } else { ty_str(f.ty) })),
                                ]));
                            }
                        }
                        samples.push(J::obj(vec![
                            ("elem", J::s(name.clone())),
                            ("elem_size", J::Int(se as i128)),
                            ("elem_align", J::Int(ae as i128)),
                            ("n", J::Int(n as i128)),
                            ("size", J::Int(lay.size.bytes() as i128)),
                            ("align", J::Int(lay.align.abi.bytes() as i128)),
                            ("top_node_fields", J::Arr(fields)),
                        ]));
                    }
                }
                Some(r) => failures.push(J::obj(vec![("elem", J::s(name.clone())), ("n", J::Int(n as i128)), ("reason", J::s(r))])),
            }
        }
        elem_info.push(J::obj(vec![
            ("name", J::s(name.clone())),
            ("ty", J::s(ty_str(et))),
            ("size", J::Int(se as i128)),
            ("align", J::Int(ae as i128)),
            ("lengths", J::Int(n_e as i128)),
        ]));
    }
    let _ = path;
    J::obj(vec![
        ("probes", J::Int(probes as i128)),
        ("ok", J::Int(ok as i128)),
        ("uninhabitable", J::Int(uninhabitable as i128)),
        ("nodes_checked", J::Int(cx.nodes as i128)),
        ("failures", J::Arr(failures)),
        ("samples", J::Arr(samples)),
        ("elems", J::Arr(elem_info)),
    ])
}
