//! gav-driver: exports the type-checked program of the crate being compiled as JSON facts
//! (MIR after drop elaboration, item facts, layouts). No code of the crate is executed.
//!
//! Usage as RUSTC_WORKSPACE_WRAPPER (argv[1] = path of the real rustc, dropped) or directly
//! `gav-driver rustc <args>`.
//!
//! Environment:
//!   GAV_OUT     path of the fact file to write (one write per process). Unset => plain rustc.
//!   GAV_CRATE   crate name to export (default generic_array)
//!   GAV_NONCE   copied into the fact file
//!   GAV_LAYOUT  path of a layout-lattice request file (witness crates only), see layout.rs

#![feature(rustc_private)]
#![allow(clippy::all)]

extern crate rustc_abi;
extern crate rustc_data_structures;
extern crate rustc_driver;
extern crate rustc_hir;
extern crate rustc_index;
extern crate rustc_interface;
extern crate rustc_middle;
extern crate rustc_session;
extern crate rustc_span;

mod export;
mod json;
mod layout;

use rustc_driver::{Callbacks, Compilation};
use rustc_interface::interface::Compiler;
use rustc_middle::ty::TyCtxt;

struct Cb;

impl Callbacks for Cb {
    fn after_analysis<'tcx>(&mut self, _c: &Compiler, tcx: TyCtxt<'tcx>) -> Compilation {
        let out = match std::env::var("GAV_OUT") {
            Ok(o) => o,
            Err(_) => return Compilation::Continue,
        };
        let want = std::env::var("GAV_CRATE").unwrap_or_else(|_| "generic_array".to_string());
        let name = tcx.crate_name(rustc_hir::def_id::LOCAL_CRATE).to_string();
        if name != want {
            return Compilation::Continue;
        }
        let facts = export::export_crate(tcx);
        let mut s = String::with_capacity(1 << 22);
        facts.write(&mut s);
        std::fs::write(&out, s).expect("write facts");
        Compilation::Continue
    }
}

fn main() -> std::process::ExitCode {
    let mut args: Vec<String> = std::env::args().collect();
    // wrapper mode: argv[1] is the real rustc path
    if args.len() > 1 && (args[1].ends_with("rustc") || args[1].contains("/rustc")) {
        args.remove(1);
    }
    let mut cb = Cb;
    let code = rustc_driver::catch_with_exit_code(|| rustc_driver::run_compiler(&args, &mut cb));
    code
}
