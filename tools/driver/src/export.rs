use crate::json::J;
use rustc_hir::def::DefKind;
use rustc_hir::def_id::{DefId, LocalDefId, LOCAL_CRATE};
use rustc_middle::mir::{
    self, AggregateKind, AssertKind, BasicBlock, Body, CastKind, Const as MirConst, ConstValue,
    Operand, Place, ProjectionElem, Rvalue, StatementKind, TerminatorKind, UnwindAction,
};
use rustc_middle::ty::print::with_no_trimmed_paths;
use rustc_middle::ty::{self, GenericArgKind, GenericArgsRef, Instance, Ty, TyCtxt, TypingEnv};
use rustc_span::Span;
extern crate rustc_type_ir;

pub fn path<'tcx>(tcx: TyCtxt<'tcx>, d: DefId) -> String {
    with_no_trimmed_paths!(tcx.def_path_str(d))
}

pub fn span_str<'tcx>(tcx: TyCtxt<'tcx>, sp: Span) -> (String, bool) {
    let sm = tcx.sess.source_map();
    // use the outermost call site so that a finding points into the crate's own file
    let exp = sp.from_expansion();
    let sp2 = sp.source_callsite();
    let lo = sm.lookup_char_pos(sp2.lo());
    let f = format!("{}", lo.file.name.prefer_local_unconditionally());
    (format!("{}:{}", f, lo.line), exp)
}

pub fn region_json(r: ty::Region<'_>) -> J {
    J::obj(vec![("k", J::s("region")), ("s", J::s(format!("{:?}", r)))])
}

pub fn const_json<'tcx>(tcx: TyCtxt<'tcx>, c: ty::Const<'tcx>) -> J {
    match c.kind() {
        ty::ConstKind::Param(p) => J::obj(vec![("k", J::s("cparam")), ("n", J::s(p.name.as_str()))]),
        ty::ConstKind::Unevaluated(uv) => J::obj(vec![
            ("k", J::s("uneval")),
            ("def", J::s(path(tcx, uv.def))),
            ("args", args_json(tcx, uv.args)),
        ]),
        ty::ConstKind::Value(v) => {
            if let Some(si) = v.try_to_leaf() {
                J::obj(vec![
                    ("k", J::s("int")),
                    ("v", J::Int(si.to_bits_unchecked() as i128)),
                    ("ty", ty_json(tcx, v.ty)),
                ])
            } else {
                J::obj(vec![("k", J::s("cother")), ("s", J::s(format!("{:?}", c)))])
            }
        }
        _ => J::obj(vec![("k", J::s("cother")), ("s", J::s(format!("{:?}", c)))]),
    }
}

pub fn args_json<'tcx>(tcx: TyCtxt<'tcx>, args: GenericArgsRef<'tcx>) -> J {
    J::Arr(
        args.iter()
            .map(|a| match a.kind() {
                GenericArgKind::Type(t) => ty_json(tcx, t),
                GenericArgKind::Const(c) => const_json(tcx, c),
                GenericArgKind::Lifetime(r) => region_json(r),
            })
            .collect(),
    )
}

pub fn ty_str<'tcx>(t: Ty<'tcx>) -> String {
    with_no_trimmed_paths!(format!("{}", t))
}

pub fn ty_json<'tcx>(tcx: TyCtxt<'tcx>, t: Ty<'tcx>) -> J {
    use rustc_type_ir::TyKind::*;
    match t.kind() {
        Bool | Char | Int(_) | Uint(_) | Float(_) | Str | Never => {
            J::obj(vec![("k", J::s("prim")), ("n", J::s(format!("{}", t)))])
        }
        Adt(def, args) => J::obj(vec![
            ("k", J::s("adt")),
            ("def", J::s(path(tcx, def.did()))),
            ("args", args_json(tcx, args)),
        ]),
        Param(p) => J::obj(vec![("k", J::s("param")), ("n", J::s(p.name.as_str()))]),
        Alias(at) => J::obj(vec![
            ("k", J::s("alias")),
            ("kind", J::s(format!("{:?}", at.kind).split_whitespace().next().unwrap_or("").to_string())),
            ("def", J::s(path(tcx, at.kind.def_id()))),
            ("args", args_json(tcx, at.args)),
        ]),
        Ref(r, inner, m) => J::obj(vec![
            ("k", J::s("ref")),
            ("r", J::s(format!("{:?}", r))),
            ("mut", J::Bool(m.is_mut())),
            ("t", ty_json(tcx, *inner)),
        ]),
        RawPtr(inner, m) => J::obj(vec![
            ("k", J::s("ptr")),
            ("mut", J::Bool(m.is_mut())),
            ("t", ty_json(tcx, *inner)),
        ]),
        Slice(inner) => J::obj(vec![("k", J::s("slice")), ("t", ty_json(tcx, *inner))]),
        Array(inner, n) => J::obj(vec![
            ("k", J::s("array")),
            ("t", ty_json(tcx, *inner)),
            ("n", const_json(tcx, *n)),
        ]),
        Tuple(ts) => J::obj(vec![
            ("k", J::s("tuple")),
            ("ts", J::Arr(ts.iter().map(|x| ty_json(tcx, x)).collect())),
        ]),
        FnDef(d, args) => J::obj(vec![
            ("k", J::s("fndef")),
            ("def", J::s(path(tcx, *d))),
            ("args", args_json(tcx, args)),
        ]),
        Closure(d, args) => {
            let ups: Vec<J> = args.as_closure().upvar_tys().iter().map(|x| ty_json(tcx, x)).collect();
            J::obj(vec![
                ("k", J::s("closure")),
                ("def", J::s(path(tcx, *d))),
                ("upvars", J::Arr(ups)),
            ])
        }
        _ => J::obj(vec![("k", J::s("other")), ("s", J::s(ty_str(t)))]),
    }
}

fn place_json<'tcx>(tcx: TyCtxt<'tcx>, p: &Place<'tcx>) -> J {
    let mut proj = Vec::new();
    for e in p.projection.iter() {
        proj.push(match e {
            ProjectionElem::Deref => J::s("*"),
            ProjectionElem::Field(f, t) => J::obj(vec![("f", J::Int(f.as_usize() as i128)), ("ty", ty_json(tcx, t))]),
            ProjectionElem::Index(l) => J::obj(vec![("idx", J::Int(l.as_usize() as i128))]),
            ProjectionElem::ConstantIndex { offset, min_length, from_end } => J::obj(vec![
                ("cidx", J::Int(offset as i128)),
                ("min", J::Int(min_length as i128)),
                ("from_end", J::Bool(from_end)),
            ]),
            ProjectionElem::Subslice { from, to, from_end } => J::obj(vec![
                ("sub", J::Arr(vec![J::Int(from as i128), J::Int(to as i128)])),
                ("from_end", J::Bool(from_end)),
            ]),
            ProjectionElem::Downcast(name, v) => J::obj(vec![
                ("down", J::Int(v.as_usize() as i128)),
                ("name", J::s(name.map(|s| s.to_string()).unwrap_or_default())),
            ]),
            other => J::obj(vec![("pother", J::s(format!("{:?}", other)))]),
        });
        let _ = tcx;
    }
    J::obj(vec![("l", J::Int(p.local.as_usize() as i128)), ("p", J::Arr(proj))])
}

fn mir_const_json<'tcx>(tcx: TyCtxt<'tcx>, c: &MirConst<'tcx>) -> J {
    match c {
        MirConst::Ty(_, ct) => const_json(tcx, *ct),
        MirConst::Unevaluated(uv, _) => J::obj(vec![
            ("k", J::s("uneval")),
            ("def", J::s(path(tcx, uv.def))),
            ("args", args_json(tcx, uv.args)),
            ("promoted", match uv.promoted {
                Some(p) => J::Int(p.as_usize() as i128),
                None => J::Null,
            }),
        ]),
        MirConst::Val(v, t) => match v {
            ConstValue::Scalar(mir::interpret::Scalar::Int(si)) => J::obj(vec![
                ("k", J::s("int")),
                ("v", J::Int(si.to_bits_unchecked() as i128)),
                ("size", J::Int(si.size().bytes() as i128)),
            ]),
            ConstValue::ZeroSized => match t.kind() {
                ty::TyKind::FnDef(d, args) => J::obj(vec![
                    ("k", J::s("fn")),
                    ("def", J::s(path(tcx, *d))),
                    ("args", args_json(tcx, args)),
                ]),
                _ => J::obj(vec![("k", J::s("zst"))]),
            },
            _ => J::obj(vec![("k", J::s("cother")), ("s", J::s(format!("{:?}", v)))]),
        },
    }
}

fn operand_json<'tcx>(tcx: TyCtxt<'tcx>, o: &Operand<'tcx>) -> J {
    match o {
        Operand::Copy(p) => J::obj(vec![("k", J::s("copy")), ("p", place_json(tcx, p))]),
        Operand::Move(p) => J::obj(vec![("k", J::s("move")), ("p", place_json(tcx, p))]),
        Operand::Constant(c) => J::obj(vec![
            ("k", J::s("const")),
            ("ty", ty_json(tcx, c.const_.ty())),
            ("c", mir_const_json(tcx, &c.const_)),
            ("s", J::s(with_no_trimmed_paths!(format!("{}", c.const_)))),
        ]),
        #[allow(unreachable_patterns)]
        other => J::obj(vec![("k", J::s("opother")), ("s", J::s(format!("{:?}", other)))]),
    }
}

fn rvalue_json<'tcx>(tcx: TyCtxt<'tcx>, rv: &Rvalue<'tcx>) -> J {
    match rv {
        Rvalue::Use(o, ..) => J::obj(vec![("k", J::s("use")), ("op", operand_json(tcx, o))]),
        Rvalue::Repeat(o, n) => J::obj(vec![
            ("k", J::s("repeat")),
            ("op", operand_json(tcx, o)),
            ("n", const_json(tcx, *n)),
        ]),
        Rvalue::Ref(_, bk, p) => J::obj(vec![
            ("k", J::s("ref")),
            ("mut", J::Bool(matches!(bk, mir::BorrowKind::Mut { .. }))),
            ("bk", J::s(format!("{:?}", bk))),
            ("p", place_json(tcx, p)),
        ]),
        Rvalue::RawPtr(m, p) => J::obj(vec![
            ("k", J::s("rawptr")),
            ("mut", J::Bool(format!("{:?}", m).contains("Mut"))),
            ("p", place_json(tcx, p)),
        ]),
        Rvalue::Cast(ck, o, t) => {
            let cks = match ck {
                CastKind::PtrToPtr => "PtrToPtr".to_string(),
                CastKind::Transmute => "Transmute".to_string(),
                other => format!("{:?}", other),
            };
            J::obj(vec![
                ("k", J::s("cast")),
                ("ck", J::s(cks)),
                ("op", operand_json(tcx, o)),
                ("ty", ty_json(tcx, *t)),
            ])
        }
        Rvalue::BinaryOp(op, ab) => J::obj(vec![
            ("k", J::s("bin")),
            ("op", J::s(format!("{:?}", op))),
            ("a", operand_json(tcx, &ab.0)),
            ("b", operand_json(tcx, &ab.1)),
        ]),
        Rvalue::UnaryOp(op, a) => J::obj(vec![
            ("k", J::s("un")),
            ("op", J::s(format!("{:?}", op))),
            ("a", operand_json(tcx, a)),
        ]),
        Rvalue::Discriminant(p) => J::obj(vec![("k", J::s("discr")), ("p", place_json(tcx, p))]),
        Rvalue::Aggregate(kind, ops) => {
            let (ak, extra) = match &**kind {
                AggregateKind::Array(t) => ("Array".to_string(), ty_json(tcx, *t)),
                AggregateKind::Tuple => ("Tuple".to_string(), J::Null),
                AggregateKind::Adt(d, variant, args, _, active) => (
                    "Adt".to_string(),
                    J::obj(vec![
                        ("def", J::s(path(tcx, *d))),
                        ("variant", J::Int(variant.as_usize() as i128)),
                        ("args", args_json(tcx, args)),
                        ("active", match active {
                            Some(f) => J::Int(f.as_usize() as i128),
                            None => J::Null,
                        }),
                    ]),
                ),
                AggregateKind::Closure(d, _) => ("Closure".to_string(), J::s(path(tcx, *d))),
                AggregateKind::RawPtr(t, m) => (
                    "RawPtr".to_string(),
                    J::obj(vec![("t", ty_json(tcx, *t)), ("mut", J::Bool(m.is_mut()))]),
                ),
                other => (format!("{:?}", other), J::Null),
            };
            J::obj(vec![
                ("k", J::s("agg")),
                ("ak", J::s(ak)),
                ("x", extra),
                ("ops", J::Arr(ops.iter().map(|o| operand_json(tcx, o)).collect())),
            ])
        }
        Rvalue::CopyForDeref(p) => J::obj(vec![
            ("k", J::s("use")),
            ("op", J::obj(vec![("k", J::s("copy")), ("p", place_json(tcx, p))])),
        ]),
        other => J::obj(vec![("k", J::s("rvother")), ("s", J::s(format!("{:?}", other)))]),
    }
}

fn unwind_json(u: &UnwindAction) -> J {
    match u {
        UnwindAction::Continue => J::s("continue"),
        UnwindAction::Unreachable => J::s("unreachable"),
        UnwindAction::Terminate(_) => J::s("terminate"),
        UnwindAction::Cleanup(bb) => J::obj(vec![("cleanup", J::Int(bb.as_usize() as i128))]),
    }
}

fn bb(b: BasicBlock) -> J {
    J::Int(b.as_usize() as i128)
}

fn callee_json<'tcx>(tcx: TyCtxt<'tcx>, owner: DefId, func: &Operand<'tcx>) -> J {
    if let Operand::Constant(c) = func {
        if let ty::TyKind::FnDef(d, args) = c.const_.ty().kind() {
            let mut v = vec![
                ("k", J::s("fn")),
                ("def", J::s(path(tcx, *d))),
                ("args", args_json(tcx, args)),
                ("local", J::Bool(d.is_local())),
            ];
            // trait method?
            if let Some(tr) = tcx.trait_of_assoc(*d) {
                v.push(("trait", J::s(path(tcx, tr))));
                v.push(("method", J::s(tcx.item_name(*d).to_string())));
            } else if let Some(n) = tcx.opt_item_name(*d) {
                v.push(("method", J::s(n.to_string())));
            }
            let env = TypingEnv::post_analysis(tcx, owner);
            let resolved = std::panic::catch_unwind(std::panic::AssertUnwindSafe(|| {
                Instance::try_resolve(tcx, env, *d, args)
            }));
            if let Ok(Ok(Some(inst))) = resolved {
                let rd = inst.def_id();
                v.push(("res", J::s(path(tcx, rd))));
                v.push(("res_args", args_json(tcx, inst.args)));
                v.push(("res_kind", J::s(format!("{:?}", std::mem::discriminant(&inst.def)))));
                v.push(("res_local", J::Bool(rd.is_local())));
                if let Some(imp) = tcx.impl_of_assoc(rd) {
                    v.push(("res_impl_self", J::s(ty_str(tcx.type_of(imp).instantiate_identity().skip_norm_wip()))));
                }
            }
            return J::Obj(v.into_iter().map(|(k, x)| (k.to_string(), x)).collect());
        }
    }
    J::obj(vec![("k", J::s("indirect")), ("op", operand_json(tcx, func))])
}

fn body_json<'tcx>(tcx: TyCtxt<'tcx>, did: DefId, body: &Body<'tcx>) -> J {
    let mut locals = Vec::new();
    for (_l, d) in body.local_decls.iter_enumerated() {
        locals.push(J::obj(vec![
            ("ty", ty_json(tcx, d.ty)),
            ("s", J::s(ty_str(d.ty))),
        ]));
    }
    let mut dbg = Vec::new();
    for v in body.var_debug_info.iter() {
        let val = match &v.value {
            mir::VarDebugInfoContents::Place(p) => place_json(tcx, p),
            mir::VarDebugInfoContents::Const(c) => J::obj(vec![("const", J::s(format!("{}", c.const_)))]),
        };
        dbg.push(J::obj(vec![("name", J::s(v.name.to_string())), ("v", val)]));
    }
    let mut blocks = Vec::new();
    for (_b, data) in body.basic_blocks.iter_enumerated() {
        let mut stmts = Vec::new();
        for st in data.statements.iter() {
            let (sp, exp) = span_str(tcx, st.source_info.span);
            match &st.kind {
                StatementKind::Assign(b2) => {
                    let (lhs, rv) = &**b2;
                    stmts.push(J::obj(vec![
                        ("k", J::s("assign")),
                        ("lhs", place_json(tcx, lhs)),
                        ("rv", rvalue_json(tcx, rv)),
                        ("at", J::s(sp)),
                        ("exp", J::Bool(exp)),
                    ]));
                }
                StatementKind::StorageLive(l) => stmts.push(J::obj(vec![
                    ("k", J::s("slive")),
                    ("sl", J::Int(l.as_usize() as i128)),
                    ("at", J::s(sp)),
                ])),
                StatementKind::StorageDead(l) => stmts.push(J::obj(vec![
                    ("k", J::s("sdead")),
                    ("sl", J::Int(l.as_usize() as i128)),
                    ("at", J::s(sp)),
                ])),
                StatementKind::Nop => {}
                StatementKind::SetDiscriminant { place, variant_index } => stmts.push(J::obj(vec![
                    ("k", J::s("setdiscr")),
                    ("p", place_json(tcx, place)),
                    ("v", J::Int(variant_index.as_usize() as i128)),
                ])),
                other => stmts.push(J::obj(vec![
                    ("k", J::s("stother")),
                    ("s", J::s(format!("{:?}", other))),
                    ("at", J::s(sp)),
                ])),
            }
        }
        let term = data.terminator();
        let (tsp, texp) = span_str(tcx, term.source_info.span);
        let mut t: Vec<(&str, J)> = vec![("at", J::s(tsp)), ("exp", J::Bool(texp))];
        match &term.kind {
            TerminatorKind::Goto { target } => {
                t.push(("k", J::s("goto")));
                t.push(("target", bb(*target)));
            }
            TerminatorKind::SwitchInt { discr, targets } => {
                t.push(("k", J::s("switch")));
                t.push(("discr", operand_json(tcx, discr)));
                let mut ts = Vec::new();
                for (v, b) in targets.iter() {
                    ts.push(J::Arr(vec![J::Int(v as i128), bb(b)]));
                }
                t.push(("targets", J::Arr(ts)));
                t.push(("otherwise", bb(targets.otherwise())));
            }
            TerminatorKind::Return => t.push(("k", J::s("return"))),
            TerminatorKind::Unreachable => t.push(("k", J::s("unreachable"))),
            TerminatorKind::UnwindResume => t.push(("k", J::s("resume"))),
            TerminatorKind::UnwindTerminate(_) => t.push(("k", J::s("terminate"))),
            TerminatorKind::Drop { place, target, unwind, .. } => {
                t.push(("k", J::s("drop")));
                t.push(("p", place_json(tcx, place)));
                let pt = place.ty(&body.local_decls, tcx).ty;
                t.push(("ty", ty_json(tcx, pt)));
                t.push(("tys", J::s(ty_str(pt))));
                t.push(("target", bb(*target)));
                t.push(("unwind", unwind_json(unwind)));
            }
            TerminatorKind::Call { func, args, destination, target, unwind, .. } => {
                t.push(("k", J::s("call")));
                t.push(("f", callee_json(tcx, did, func)));
                t.push(("args", J::Arr(args.iter().map(|a| operand_json(tcx, &a.node)).collect())));
                t.push(("dest", place_json(tcx, destination)));
                t.push(("target", match target {
                    Some(b) => bb(*b),
                    None => J::Null,
                }));
                t.push(("unwind", unwind_json(unwind)));
            }
            TerminatorKind::Assert { cond, expected, msg, target, unwind } => {
                t.push(("k", J::s("assert")));
                t.push(("cond", operand_json(tcx, cond)));
                t.push(("expected", J::Bool(*expected)));
                let mk = match &**msg {
                    AssertKind::Overflow(op, _, _) => format!("Overflow({:?})", op),
                    AssertKind::BoundsCheck { .. } => "BoundsCheck".to_string(),
                    AssertKind::DivisionByZero(_) => "DivisionByZero".to_string(),
                    AssertKind::RemainderByZero(_) => "RemainderByZero".to_string(),
                    AssertKind::OverflowNeg(_) => "OverflowNeg".to_string(),
                    other => format!("{:?}", std::mem::discriminant(other)),
                };
                t.push(("msg", J::s(mk)));
                t.push(("target", bb(*target)));
                t.push(("unwind", unwind_json(unwind)));
            }
            other => {
                t.push(("k", J::s("termother")));
                t.push(("s", J::s(format!("{:?}", other))));
            }
        }
        blocks.push(J::obj(vec![
            ("cleanup", J::Bool(data.is_cleanup)),
            ("stmts", J::Arr(stmts)),
            ("term", J::Obj(t.into_iter().map(|(k, v)| (k.to_string(), v)).collect())),
        ]));
    }
    J::obj(vec![
        ("arg_count", J::Int(body.arg_count as i128)),
        ("locals", J::Arr(locals)),
        ("debug", J::Arr(dbg)),
        ("blocks", J::Arr(blocks)),
    ])
}

fn predicates_json<'tcx>(tcx: TyCtxt<'tcx>, d: DefId) -> J {
    let mut out = Vec::new();
    let preds = tcx.predicates_of(d).instantiate_identity(tcx);
    for (clause, _sp) in preds.into_iter() {
        let clause = clause.skip_norm_wip();
        let s = with_no_trimmed_paths!(format!("{}", clause));
        let k = clause.kind().skip_binder();
        let j = match k {
            ty::ClauseKind::Trait(tp) => J::obj(vec![
                ("k", J::s("trait")),
                ("trait", J::s(path(tcx, tp.trait_ref.def_id))),
                ("self", ty_json(tcx, tp.trait_ref.self_ty())),
                ("args", args_json(tcx, tp.trait_ref.args)),
                ("s", J::s(s)),
            ]),
            ty::ClauseKind::Projection(pp) => J::obj(vec![
                ("k", J::s("proj")),
                ("def", J::s(path(tcx, pp.projection_term.def_id()))),
                ("args", args_json(tcx, pp.projection_term.args)),
                ("term", match pp.term.kind() {
                    ty::TermKind::Ty(t) => ty_json(tcx, t),
                    ty::TermKind::Const(c) => const_json(tcx, c),
                }),
                ("s", J::s(s)),
            ]),
            _ => J::obj(vec![("k", J::s("other")), ("s", J::s(s))]),
        };
        out.push(j);
    }
    J::Arr(out)
}

fn generics_json<'tcx>(tcx: TyCtxt<'tcx>, d: DefId) -> J {
    let g = tcx.generics_of(d);
    let mut v = Vec::new();
    let mut cur = Some(g);
    let mut chain = Vec::new();
    while let Some(gg) = cur {
        chain.push(gg);
        cur = gg.parent.map(|p| tcx.generics_of(p));
    }
    for gg in chain.into_iter().rev() {
        for p in gg.own_params.iter() {
            v.push(J::obj(vec![
                ("n", J::s(p.name.as_str())),
                ("kind", J::s(match p.kind {
                    ty::GenericParamDefKind::Lifetime => "lifetime",
                    ty::GenericParamDefKind::Type { .. } => "type",
                    ty::GenericParamDefKind::Const { .. } => "const",
                })),
            ]));
        }
    }
    J::Arr(v)
}

fn vis_json<'tcx>(tcx: TyCtxt<'tcx>, d: LocalDefId) -> J {
    let ev = tcx.effective_visibilities(());
    J::obj(vec![
        ("declared", J::s(format!("{:?}", tcx.visibility(d.to_def_id())))),
        ("reachable", J::Bool(ev.is_reachable(d))),
        ("exported", J::Bool(ev.is_exported(d))),
        ("direct_public", J::Bool(ev.is_directly_public(d))),
    ])
}

pub fn export_crate<'tcx>(tcx: TyCtxt<'tcx>) -> J {
    let mut bodies = Vec::new();
    let mut errors = Vec::new();
    for ldid in tcx.mir_keys(()).iter() {
        let did = ldid.to_def_id();
        let kind = tcx.def_kind(did);
        let kind_s = match kind {
            DefKind::Fn => "Fn",
            DefKind::AssocFn => "AssocFn",
            DefKind::Closure => "Closure",
            DefKind::Const { .. } => "Const",
            DefKind::AssocConst { .. } => "AssocConst",
            DefKind::AnonConst => "AnonConst",
            DefKind::InlineConst => "InlineConst",
            DefKind::Static { .. } => "Static",
            DefKind::Ctor(..) => continue,
            _ => "Other",
        };
        let is_fn_like = matches!(kind, DefKind::Fn | DefKind::AssocFn | DefKind::Closure);
        let body_j;
        let stage;
        {
            let steal = tcx.mir_drops_elaborated_and_const_checked(*ldid);
            if !steal.is_stolen() {
                let b = steal.borrow();
                body_j = body_json(tcx, did, &b);
                stage = "drops_elaborated";
            } else if is_fn_like {
                let b = tcx.optimized_mir(did);
                body_j = body_json(tcx, did, b);
                stage = "optimized";
            } else {
                let b = tcx.mir_for_ctfe(did);
                body_j = body_json(tcx, did, b);
                stage = "ctfe";
            }
        }
        let (sp, _) = span_str(tcx, tcx.def_span(did));
        let mut v: Vec<(&str, J)> = vec![
            ("path", J::s(path(tcx, did))),
            ("kind", J::s(kind_s)),
            ("stage", J::s(stage)),
            ("at", J::s(sp)),
            ("generics", generics_json(tcx, did)),
        ];
        if matches!(kind, DefKind::Fn | DefKind::AssocFn) {
            let sig = tcx.fn_sig(did).instantiate_identity().skip_norm_wip();
            let sig_s = with_no_trimmed_paths!(format!("{:?}", sig));
            let sk = sig.skip_binder();
            v.push(("sig", J::obj(vec![
                ("inputs", J::Arr(sk.inputs().iter().map(|t| ty_json(tcx, *t)).collect())),
                ("output", ty_json(tcx, sk.output())),
                ("s", J::s(sig_s)),
                ("unsafe", J::Bool(!sk.safety().is_safe())),
            ])));
            v.push(("const", J::Bool(tcx.is_const_fn(did))));
            v.push(("vis", vis_json(tcx, *ldid)));
            v.push(("predicates", predicates_json(tcx, did)));
        }
        if matches!(kind, DefKind::Closure) {
            let parent = tcx.typeck_root_def_id(did);
            v.push(("root", J::s(path(tcx, parent))));
            v.push(("parent", J::s(path(tcx, tcx.parent(did)))));
        }
        if let Some(imp) = tcx.impl_of_assoc(did) {
            v.push(("impl", J::s(path(tcx, imp))));
            v.push(("impl_self", ty_json(tcx, tcx.type_of(imp).instantiate_identity().skip_norm_wip())));
            if let Some(tr) = tcx.impl_opt_trait_ref(imp) {
                let tr = tr.instantiate_identity().skip_norm_wip();
                v.push(("impl_trait", J::s(path(tcx, tr.def_id))));
                v.push(("impl_trait_args", args_json(tcx, tr.args)));
            }
        } else if let Some(tr) = tcx.trait_of_assoc(did) {
            v.push(("in_trait", J::s(path(tcx, tr))));
        }
        if matches!(kind, DefKind::AssocFn | DefKind::AssocConst { .. }) {
            v.push(("name", J::s(tcx.item_name(did).to_string())));
        }
        v.push(("mir", body_j));
        if is_fn_like {
            // promoted constants (`&N::USIZE`, `&[..]` literals): tiny bodies the analyses evaluate when the parent reads through them
            let proms = tcx.promoted_mir(did);
            v.push(("promoted", J::Arr(proms.iter().map(|pb| body_json(tcx, did, pb)).collect())));
        }
        bodies.push(J::Obj(v.into_iter().map(|(k, x)| (k.to_string(), x)).collect()));
    }

    // items
    let mut adts = Vec::new();
    let mut impls = Vec::new();
    let mut traits = Vec::new();
    let mut aliases = Vec::new();
    for id in tcx.hir_free_items() {
        let ldid = id.owner_id.def_id;
        let did = ldid.to_def_id();
        match tcx.def_kind(did) {
            DefKind::Struct | DefKind::Union | DefKind::Enum => {
                let adt = tcx.adt_def(did);
                let r = adt.repr();
                let mut fields = Vec::new();
                if !adt.is_enum() {
                    for f in adt.non_enum_variant().fields.iter() {
                        let fty = tcx.type_of(f.did).instantiate_identity().skip_norm_wip();
                        fields.push(J::obj(vec![
                            ("name", J::s(f.name.to_string())),
                            ("ty", ty_json(tcx, fty)),
                            ("s", J::s(ty_str(fty))),
                            ("vis", J::s(format!("{:?}", f.vis))),
                        ]));
                    }
                }
                let (sp, _) = span_str(tcx, tcx.def_span(did));
                adts.push(J::obj(vec![
                    ("path", J::s(path(tcx, did))),
                    ("at", J::s(sp)),
                    ("kind", J::s(format!("{:?}", adt.adt_kind()))),
                    ("repr", J::obj(vec![
                        ("c", J::Bool(r.c())),
                        ("transparent", J::Bool(r.transparent())),
                        ("packed", J::Bool(r.packed())),
                        ("simd", J::Bool(r.simd())),
                        ("align", match r.align {
                            Some(a) => J::Int(a.bytes() as i128),
                            None => J::Null,
                        }),
                        ("pack", match r.pack {
                            Some(a) => J::Int(a.bytes() as i128),
                            None => J::Null,
                        }),
                        ("int", J::Bool(r.int.is_some())),
                        ("s", J::s(format!("{:?}", r))),
                    ])),
                    ("fields", J::Arr(fields)),
                    ("generics", generics_json(tcx, did)),
                    ("vis", vis_json(tcx, ldid)),
                    ("has_drop", J::Bool(adt.has_dtor(tcx))),
                ]));
            }
            DefKind::Impl { of_trait } => {
                let self_ty = tcx.type_of(did).instantiate_identity().skip_norm_wip();
                let (sp, _) = span_str(tcx, tcx.def_span(did));
                let mut v: Vec<(&str, J)> = vec![
                    ("path", J::s(path(tcx, did))),
                    ("at", J::s(sp)),
                    ("self", ty_json(tcx, self_ty)),
                    ("self_s", J::s(ty_str(self_ty))),
                    ("generics", generics_json(tcx, did)),
                    ("predicates", predicates_json(tcx, did)),
                ];
                if of_trait {
                    let hdr = tcx.impl_trait_header(did);
                    let tr = hdr.trait_ref.instantiate_identity().skip_norm_wip();
                    v.push(("trait", J::s(path(tcx, tr.def_id))));
                    v.push(("trait_args", args_json(tcx, tr.args)));
                    v.push(("unsafe", J::Bool(!hdr.safety.is_safe())));
                    v.push(("polarity", J::s(format!("{:?}", hdr.polarity))));
                }
                let mut items = Vec::new();
                for it in tcx.associated_items(did).in_definition_order() {
                    let mut iv: Vec<(&str, J)> = vec![
                        ("name", J::s(it.name().to_string())),
                        ("kind", J::s(format!("{:?}", it.kind))),
                        ("path", J::s(path(tcx, it.def_id))),
                    ];
                    if it.is_type() {
                        let t = tcx.type_of(it.def_id).instantiate_identity().skip_norm_wip();
                        iv.push(("ty", ty_json(tcx, t)));
                        iv.push(("s", J::s(ty_str(t))));
                    }
                    items.push(J::Obj(iv.into_iter().map(|(k, x)| (k.to_string(), x)).collect()));
                }
                v.push(("items", J::Arr(items)));
                impls.push(J::Obj(v.into_iter().map(|(k, x)| (k.to_string(), x)).collect()));
            }
            DefKind::Trait => {
                let (sp, _) = span_str(tcx, tcx.def_span(did));
                let td = tcx.trait_def(did);
                let mut items = Vec::new();
                for it in tcx.associated_items(did).in_definition_order() {
                    let mut iv: Vec<(&str, J)> = vec![
                        ("name", J::s(it.name().to_string())),
                        ("kind", J::s(format!("{:?}", it.kind))),
                        ("path", J::s(path(tcx, it.def_id))),
                        ("has_default", J::Bool(it.defaultness(tcx).has_value())),
                    ];
                    if it.is_type() {
                        // bounds on the associated type
                        let mut bs = Vec::new();
                        for u in tcx.explicit_item_bounds(it.def_id).iter_identity_copied() {
                            let (c, _) = u.skip_norm_wip();
                            bs.push(J::s(with_no_trimmed_paths!(format!("{}", c))));
                        }
                        iv.push(("bounds", J::Arr(bs)));
                    }
                    items.push(J::Obj(iv.into_iter().map(|(k, x)| (k.to_string(), x)).collect()));
                }
                let mut supers = Vec::new();
                for u in tcx.explicit_super_predicates_of(did).iter_identity_copied() {
                    let (c, _) = u.skip_norm_wip();
                    supers.push(J::s(with_no_trimmed_paths!(format!("{}", c))));
                }
                traits.push(J::obj(vec![
                    ("path", J::s(path(tcx, did))),
                    ("at", J::s(sp)),
                    ("unsafe", J::Bool(!td.safety.is_safe())),
                    ("supers", J::Arr(supers)),
                    ("items", J::Arr(items)),
                    ("vis", vis_json(tcx, ldid)),
                ]));
            }
            DefKind::TyAlias => {
                let t = tcx.type_of(did).instantiate_identity().skip_norm_wip();
                aliases.push(J::obj(vec![
                    ("path", J::s(path(tcx, did))),
                    ("name", J::s(tcx.item_name(did).to_string())),
                    ("ty", ty_json(tcx, t)),
                    ("s", J::s(ty_str(t))),
                ]));
            }
            _ => {}
        }
    }

    let layout = match std::env::var("GAV_LAYOUT") {
        Ok(req) => crate::layout::run(tcx, &req, &mut errors),
        Err(_) => J::Null,
    };

    J::obj(vec![
        ("nonce", J::s(std::env::var("GAV_NONCE").unwrap_or_default())),
        ("crate", J::s(tcx.crate_name(LOCAL_CRATE).to_string())),
        ("rustc", J::s(rustc_interface::util::rustc_version_str().unwrap_or("?"))),
        ("features", J::Arr(
            tcx.sess.config.iter()
                .filter(|(k, _)| k.as_str() == "feature")
                .filter_map(|(_, v)| v.map(|s| J::s(s.to_string())))
                .collect(),
        )),
        ("bodies", J::Arr(bodies)),
        ("adts", J::Arr(adts)),
        ("impls", J::Arr(impls)),
        ("traits", J::Arr(traits)),
        ("aliases", J::Arr(aliases)),
        ("layout", layout),
        ("errors", J::Arr(errors.into_iter().map(J::s).collect())),
    ])
}
