#!/usr/bin/env python3
"""Generate /verif/MANIFEST.json from the table below (single source of truth for claims)."""
import json
import os

VERIF = os.path.dirname(os.path.dirname(os.path.abspath(__file__)))

TRUST = ("Trusted base: rustc's type checker, borrow checker, trait resolution, layout computation and MIR construction; "
         "core/alloc semantics of the primitives the rules interpret (ptr::read/write/copy, slice::from_raw_parts, Zip/Enumerate/Map order, Box/Vec ownership); "
         "typenum operator semantics (Sum<N,M>::USIZE = N::USIZE + M::USIZE ...). usize arithmetic on element counts is read over mathematical integers where the build checks overflow "
         "(every judged configuration does; casts to narrower integer types are not the identity). Configurations: F0 (no features), F1 (alloc serde zeroize const-default internals), "
         "F1N (F1 without debug assertions: nothing may rest on a debug_assert!), F2 (F1 + faster-hex) and, in the thorough tier, F0N / F2N.")

CHECKS = {
    "C13": {
        "technique": "MIR abstract interpretation (pointer base/offset/extent) + delegation rule with recognised equivalent forms (slice impl, Iterator::cmp/partial_cmp/eq on the two full iterators, written-out Debug body, lexicographic loop)",
        "text": "Static analysis of the type-checked program: each of eq/partial_cmp/cmp/hash/Debug::fmt is shown to be a pure delegation to the same trait method of [T] on the full N-element views of its operands in parameter order, result returned unchanged; Borrow/BorrowMut/AsRef/AsMut<[T]> are shown to return that same view; the view constructors are shown to be (address of self, N). This holds for every T and N because the polymorphic MIR is analysed with N symbolic. It decides that the impls ARE the slice impls; what the slice impls compute is std's. Every other method the comparison impls override (lt / le / gt / ge, ne ..) is held to the same delegation rule with its own method name.",
        "design_ref": "DESIGN.md §3 C13",
        "note": TRUST + " Formatted strings / orderings themselves are those of core's [T] impls.",
    },
}

CHECKS["C02"] = {
    "technique": "MIR abstract interpretation on fully expanded, tree-shaped bodies: per-path postconditions (success exit = source address with source extent == target extent; rejecting exits only under len != N) + delegation, signature-region and aggregate-position rules",
    "text": "Static analysis of the polymorphic MIR (length N symbolic, so the verdict covers every N and T): the view constructors return (address of self, N elements); at each slice-to-array reborrow the dominating branch facts prove len == N exactly (a `<`/`>`/`>=` guard is reported, and so is a comparison of values cast to a narrower integer type or with typenum's narrow constants such as N::U32 - truncated quantities say nothing about the length), the rejecting exits are reached only under len != N, and the success value is the source pointer itself; [T; U] conversions have equal symbolic sizes under the Const<U>: IntoArrayLength<ArrayLength = N> clause; the trait forms delegate to those; the 24 tuple impls keep operand i at position i; every returned reference's region and mutability is tied to its source parameter. A sweep applies the exact-extent rule to any other slice-derived reborrow in the crate. C02.M: the same write-permission rule for the mutable views. The fallible forms have no panicking exit: no explicit panic or compiler-inserted check that can fail, no std call whose panic condition (split_at: mid <= len, unwrap: the right variant ..) is not excluded. The view constructors are total as well: no reachable panic in any of them (a view that asserts something about N * size_of::<T>() can fail).",
    "design_ref": "DESIGN.md §3 C02",
    "note": TRUST + " 'A write through one view is seen through all others' is entailed by same address + same extent and is not separately observed.",
}

CHECKS["C09"] = {
    "technique": "symbolic byte-provenance (segment lists with provably ordered symbolic boundaries) of the result of each owned operation vs the Vec-operation specification; tiling proof for the by-reference split; guard-dominance for the bounds assert",
    "text": "Static analysis of the polymorphic MIR (N, K, M and the index symbolic): for append/prepend/pop_back/pop_front/split (owned, &, &mut)/concat/remove(_unchecked)/swap_remove(_unchecked) every raw read, write, copy and swap is extracted with its symbolic byte offset and extent and compared with the specification of the corresponding Vec operation: which source range lands at which destination offset or result position, exact tiling of source/destination (nothing lost, duplicated or out of bounds), order of read / shift / truncating copy by dominance, idx < N proven at the call of the unchecked body with self not yet neutralised, unreachable_unchecked infeasible under that precondition, reference halves disjoint + adjacent + covering with no copy. Universally quantified over lengths and element types; nothing is executed.",
    "design_ref": "DESIGN.md §3 C09",
    "note": TRUST + " The panic message text is not checked.",
}
CHECKS["C10"] = {
    "technique": "MIR abstract interpretation with floor-division axioms: per return path, the returned views tile the source exactly (any construction idiom); symbolic size equality for the slice reinterpretations",
    "text": "Static analysis of the polymorphic MIR (slice length L and N symbolic): the two pieces built by chunks_from_slice(_mut) are proved to tile the source exactly (adjacent, no overlap, end at L), the remainder to be < N, the pieces to be reached only under N != 0, and the N = 0 branch to return empties only under L = 0 and to panic under L != 0; slice_from_chunks(_mut) covers exactly len*N elements from offset 0; from_chunks/into_chunks(_mut) transmute between slices of equal element size under the Const<U>: IntoArrayLength<ArrayLength = N> clause and return the source fat pointer; lifetimes/mutability tied to the source. PARTIAL: acceptance by the compiler's const evaluator is an execution and is not decided here. Extents are compared in bytes AND in elements (len * N resp. chunks * N + remainder == len), so zero-sized element types are covered.",
    "design_ref": "DESIGN.md §3 C10",
    "note": TRUST + " len*N overflow for zero-sized T with astronomically long slices is excluded by assumption.",
}
CHECKS["C11"] = {
    "technique": "symbolic byte-provenance for the owned forms (the result is exactly the bytes of self, moved once) and for const_transmute itself; address/extent/mutability postconditions for the reference forms",
    "text": "Static analysis of the six flatten/unflatten bodies (N, M, NM symbolic): owned forms are exactly one const_transmute whose source and target sizes are equal as polynomials (flatten) or target <= source with equality iff N | NM (unflatten; the guard inside const_transmute - union read dominated by size_of A == size_of B - is checked too); reference forms are exactly one transmute of the reference itself (same address), equal / in-bounds pointee extents, same mutability, lifetime tied to the receiver. Row-major order follows from contiguity (C01). A reference reinterpretation contains no reachable compiler-inserted check (division by zero, bounds, overflow) and no reachable panic: it returns its view for every shape on which it type-checks, zero-length rows included.",
    "design_ref": "DESIGN.md §3 C11",
    "note": TRUST + " typenum's Prod/Quot semantics are trusted.",
}

CHECKS["C01"] = {
    "technique": "item-fact rules on ADT reprs / ArrayLength impls (layout induction premises) + compiler layout_of oracle over a generated type lattice",
    "text": "Static: (S) the premises of the layout induction over N's binary digits are checked on the type-checked crate's item facts (transparent wrapper over N::ArrayType<T>; [T; 0] base; even/odd impls map to repr(C) nodes made of exactly two children, `parity` trailing T and PhantomData only; exactly three ArrayLength impls; sealed trait) - a universal argument in T and N; (L) rustc's layout_of query is evaluated inside the driver for GenericArray<E, N> over the property's lattice (quick: 8 element layouts x (0..=1024 + 2^k, 2^k-1, 10^k up to 2^62); thorough: every (size 0..=64, align 1..=64) pair plus padded/packed/nested/ZST types, ~174k probes, repeated with -Zrandomize-layout), checking size = N*size_of T, align = align_of T and, node by node, that element-bearing fields sit at exactly the cumulative element offsets (no padding/overlap); types >= 2^61 bytes cannot exist and are counted separately, never as a pass; (T) const_transmute's union read is dominated by its size-equality guard. No code of the crate is executed: layouts are a compiler query over types. The consequence clause (slice views stay inside the array) is covered by cross-reference: C02.V (views of one array have exactly N elements from its address) and C10.F (arrays viewed as one flat slice: exactly len * N elements).",
    "design_ref": "DESIGN.md §3 C01",
    "note": "Trusted: rustc's layout computation and the documented repr(C)/repr(transparent) algorithms; typenum's USIZE recursion. Element types outside the lattice are covered by rule S only.",
}

CHECKS["C03"] = {
    "technique": "per-operation ownership-linearity: byte provenance of the owned sequence operations, step protocol (closure or explicit loop: one read/write and one position advance per step), per-path partition of the iterator's claimed range, Drop-range extraction, finisher evidence (position == N or a full traversal), finish-to-hand-over window",
    "text": "Static analysis (MIR, lengths symbolic): 'exactly once over all histories' is reduced to ownership-linearity of each operation, which composes over any chain by induction. Checked: (T) in each by-value sequence operation the pieces read out of the drop-suppressed source / written into the uninitialised output tile it exactly once; (P) every element-moving closure reads (writes) its slot exactly once and advances each owner position exactly once per invocation on every path, untracked readers exist only under needs_drop == false; (R) each tracked owner's Drop releases exactly [0,position) / [position,N) / [index,index_back) of its own storage and the storage field has no drop glue; (F) every finish/forget/assume_init of a builder or iterator is reached only where position == N is implied by the dominating facts or after a full traversal of the owner's storage by a protocol closure; (S) every ManuallyDrop::new / mem::forget of a value with element drop glue belongs to an accounted pattern; (A) the assume_init family reinterprets whole storage of equal symbolic size. Nothing is executed; destructor calls are not observed. C03.U: no element out of nothing - assume_init that turns freshly made uninitialised storage (MaybeUninit::uninit, Box::new_uninit ..) into a type holding real elements is dominated by a builder's finish() (whose completeness is C03.F). C03.V: on every return path of the Vec / boxed-slice conversions that passes a Vec::set_len(k), the elements beyond k were copied out of the buffer first - a refusal path cannot forget them.",
    "design_ref": "DESIGN.md §3 C03",
    "note": TRUST + " Panic-free histories only (panics: C04, C05). Vec/Box interop is safe std code or C15's instances.",
}
CHECKS["C04"] = {
    "technique": "unwind-window typestate over MIR: ownership state at every call that can run caller code inside each element-moving step (closure or loop); owner liveness on unwind edges through drop flags; foreign-call classification from resolved callees",
    "text": "Static typestate analysis: every call terminator that can run caller-supplied code (closure calls, Clone/Default/Iterator::next/SeqAccess on generic types, generic drops, and crate functions that transitively contain one) is visited with the abstract ownership state at that point - in consumer closures every ptr::read-duplicated element has already been excluded from its owner, in builder closures/loops a written slot is already counted and never counted before written; each position is a field of a tracked owner whose storage the slots iterate, and drop elaboration drops that owner on the unwind path of the driving call (followed through drop flags); raw element writes outside closures are counted by a live owner before any later foreign call; helper-function models are verified against the helpers' bodies. This quantifies over every panic point because unwind edges are explicit in MIR; no panic is injected. It found the GenericArrayIter::clone leak (fixed, see known_findings.json). C04.Y: the same duplicate-window rule for raw reads outside protocol closures and pipeline loops (hand-written index loops in methods of an owner). C04.D: values that are not elements (an accumulator threaded through the caller's closure): a bitwise copy read out of a plain local - the function's own or the enclosing function's through a closure upvar - must be written back before any call that can run caller code unless drop elaboration does not release that local on the unwind path (no instance on the reviewed tree; positive fixture with a ManuallyDrop twin on every run). C04.O also requires that the end of a consumer's claimed range that moves fits the direction of travel (low position +1 going forward, high position -1 going backward), and C04.P that every step ends in balance (stored iff counted, read iff advanced).",
    "design_ref": "DESIGN.md §3 C04",
    "note": TRUST + " Overflow checks on positions are not treated as foreign code; a panic while dropping the caller's closure object itself is outside the property's quantifier.",
}
CHECKS["C05"] = {
    "technique": "range-owner typestate: symbolic disjointness of the destroyed range and the owner's claimed range at every drop_in_place in &mut self methods; Drop-range extraction",
    "text": "Static analysis: the owners' Drop ranges are extracted symbolically from their Drop impls (and shown to be [0,position) / [position,N) / [index,index_back) of storage without drop glue); in every &mut self method of such a type, at each drop_in_place call the field values stored so far make the owner's claimed range provably disjoint from the destroyed range (exclude-before-destroy), so a destructor that unwinds cannot cause the owner's Drop to release the range again; by-value methods (count, last) only call &mut-self primitives and drop self once. Universally quantified over n, positions and which element panics. It found the nth / nth_back double drop (fixed, see known_findings.json). C05.Y applies to every method of a tracked owner (by-reference and by-value receivers): an element read out of the owner's storage is excluded from the claimed range before any later call that can unwind while the owner is live. C05.P/O: at every call that can run an element destructor outside the crate's own drop_in_place sites (a foreign callable handed an element by value), each slot already moved out is excluded from its owner's claimed range and the positions move with the direction of travel (C04's per-call-site state rule, judged here too).",
    "design_ref": "DESIGN.md §3 C05",
    "note": TRUST + " core's slice drop_in_place itself never drops an element twice when one destructor unwinds (trusted). Leaks after an unwinding destructor are allowed by the property.",
}

CHECKS["C06"] = {
    "technique": "refinement obligations by abstract interpretation of each iterator method under the invariant index <= index_back <= N (private helpers expanded); nth/nth_back judged per return path against the deque specification; defaults of optional overrides accepted",
    "text": "Static refinement argument: with alpha(iter) = array[index..index_back] the queue behaviour over all interleavings follows by induction from per-method obligations, each decided on the polymorphic MIR with the invariant assumed at entry: invariant established by into_iter and preserved by every index store; next/next_back read exactly the slot their index update excludes, only under index < index_back, return Some of that slot and store nothing on the None path (fused); len/size_hint/count are index_back - index; nth/nth_back skip min(n, len) at the proper end then delegate; last = next_back; as_slice/as_mut_slice/Debug view exactly [index, index_back); fold/rfold traverse that range ascending/descending with one read + one index step before f(acc, value); clone copies [index, index_back) element-wise in order to the front of a fresh (0, count) iterator and never stores to the original; every get_unchecked index/range is in bounds under the invariant. Elements are opaque values of a type parameter, so which element = which index; nothing is executed. C06.N totality: under the invariant no method of the iterator has a reachable panic of its own - no explicit panic and no overflow / underflow check of the cursor arithmetic that can fail (usize quantities are bounded by usize::MAX; `index + n` with an unbounded n is reported).",
    "design_ref": "DESIGN.md §3 C06",
    "note": TRUST + " slice::Iter::fold/rfold direction and Zip pairing are trusted std; the formatted Debug string is not checked (the delegation is).",
}

CHECKS["C07"] = {
    "technique": "per-path guard facts at every Ok / Err construction and every poll of the source (tree-shaped bodies, helpers expanded) + fill rule on the body with the builder's extend expanded (Zip receiver order, take(N)) + owner liveness",
    "text": "Static analysis of try_from_iter / try_boxed_from_iter / extend / from_iter: the Ok value is constructed only under the facts `destination full (position == N, resp. vec.len() == N)` AND `the one extra poll returned None`; every early Err is reached only under size_hint lower > N or upper < N (so truthful hints never cause a spurious Err); the source is polled again only when the destination is full (never after it returned None; at most N + 1 polls given the fill shape); the fill is destination.zip(source).for_each(builder closure) with the destination as Zip's receiver over the whole array and the source handed over by &mut, the boxed form goes through take(N) into Vec::with_capacity(N); the builder is a live tracked owner on the unwind path of every foreign call; from_iter = try_* + from_iter_length_fail(N). Holds for every N and every source because the source is an opaque generic iterator in the analysed MIR. The fill counts each stored item in the builder's own position field (the one its Drop reads), so items pulled before a panic of the source are owned. C07.N: the fallible constructors answer a wrong count with Err and have no panicking exit of their own (explicit panics and std calls whose panic condition is not excluded, on the fully expanded tree-shaped body, in the configuration without debug assertions).",
    "design_ref": "DESIGN.md §3 C07",
    "note": TRUST + " Zip::next polling order and Take are std semantics; the panic message text is not checked.",
}
CHECKS["C08"] = {
    "technique": "iterator-pipeline term matching on abstractly interpreted MIR, in closure-driver or explicit-loop form + per-step call-count dataflow (exactly-once) + delegation/impl-shape facts",
    "text": "Static pipeline-shape analysis: each body's iterator pipeline is reconstructed as a term by the abstract interpreter and matched against its specification - generate (stack/boxed) = for_each(enumerate(iter_mut over the builder's whole array)) with a closure calling F exactly once on every path with the enumerate index and storing the result in the paired slot; map/fold = one forward full traversal of the consumer's array with f called exactly once on the value read (acc first); all six zip bodies pair two forward full traversals by one Zip and call f exactly once with (element of lhs, element of self), zip dispatches (rhs, self, f) to inverted_zip/inverted_zip2; reference receivers forward generate, &S/&mut S/Box use the un-overridden trait defaults whose pipelines are from_iter(map(into_iter(self), f)) / fold(into_iter(self), init, f) over the full forward slice iterators; Default/Clone are the element-wise instances. Any reordering/skipping adaptor is a violation. Parametricity (types) supplies the rest; nothing is executed. Completeness: on every return path of each body (tree-shaped, helpers expanded) the value returned is the result of a judged pipeline, and no body calls the caller's function itself - so an added fast path with its own loops is not overlooked. A boxed receiver's own `map` is accepted in the pull form Mapped::generate(|_| f(source.next().unwrap())) over its by-value iterator.",
    "design_ref": "DESIGN.md §3 C08",
    "note": TRUST + " Order semantics of slice::Iter, Enumerate, Zip, Map, for_each, fold are trusted std.",
}

CHECKS["C12"] = {
    "technique": "compile-fail witnesses in accept/reject twins (rustc as oracle) + universal item-fact rules on unsafe auto-trait impls, Copy/Clone bounds, sealedness and signature regions",
    "text": "The oracle is the compiler: a generated corpus of minimal programs in accept/reject twins differing in exactly one length, bound or lifetime (quick: ~140 twins on nightly; thorough: all tuple arities, nightly + stable) is type-checked against the working tree's library - zip in all nine stack receiver x argument forms + boxed, comparisons, split, pop/remove on empty, lengthen/concat/shorten annotations, native-array/tuple conversions, flatten/unflatten, chunk reinterpretation, arr!/box_arr!, ConstArrayLength, Send/Sync/Copy/Clone of arrays and iterators, sealedness, and for every reference-returning API: view of a local, & -> &mut upgrade, 'static upgrade, two live &mut views; every accept twin must compile (so a reject cannot pass for a wrong path) and every reject twin must fail with a code of its expected class. Universal rules on the type-checked crate: each unsafe impl Send/Sync bounds every element parameter by the same auto trait; Copy for the array implies T: Copy by induction over the storage impls; Clone requires T: Clone; the iterator has no hand-written auto-trait impl; ArrayLength is sealed; every function that manufactures a reference from a raw pointer / from_raw_parts / a reference transmute ties each returned region and &mut-ness to an input. C12.E: every impl of a comparison trait that relates two GenericArray types - however wrapped (references, Box) - uses one and the same length term on both sides (universal over the crate's impls).",
    "design_ref": "DESIGN.md §3 C12",
    "note": "Trusted: rustc's type checker, trait solver and borrow checker. Programs outside the corpus are covered only by the universal rules.",
}

CHECKS["C14"] = {
    "technique": "MIR abstract interpretation with interpreted atoms (min, >>k, &mask, chunk length) and relational merge facts, anchored on what reaches Formatter::write_str: budget / coverage / capacity obligations of every unchecked operation in hex.rs, per-index store rule for the table encoder, per-iteration accounting rule for the chunk loop",
    "text": "Decided statically, with N, the precision and the byte values symbolic, under F0/F1 (table encoder) and - capacity and case selection only - F2 = faster-hex (every run). WHAT IS PRINTED: H8 the table encoder stores, for every k < src.len(), dst[2k] = TABLE[src[k] >> 4] and dst[2k+1] = TABLE[src[k] & 15] (closure over zip(dst.chunks_exact_mut(2), src), or the loop forms over the same pairing), H6 TABLE is b\"0123456789abcdef\" for LowerHex / ..ABCDEF for UpperHex (UPPER forwarded unchanged); H10 on the stack-buffer path every path to the single print runs exactly one encoder call from arr[0..L), L >= ceil(d/2), into the printed buffer from its first byte; H9 on the chunked path the pieces are input.chunks(k) over arr[0..ceil(d/2)) in order, each iteration encodes its piece into the buffer's start once before printing, prints exactly min(2*piece, digits_left) and digits_left starts at d and is only ever decremented by what was printed; H1/H7 d = min(precision, 2N) exactly and the stack-buffer print has length d. Together: the output is the first min(p, 2N) characters of the concatenated two-digit forms in index order (a prefix-of-concatenation argument stated in DESIGN; odd p ends on a high nibble because the cut is a prefix). SAFETY of every unchecked operation: H2 ceil(d/2) <= N (both hint spellings), 2*bytes >= d; H3/H4 printed prefixes lie inside their buffers, entered under N <= 1024 resp. with 2*chunk <= 2048 and no budget underflow; H5 dst.len() >= 2*src.len() at every encoder call (the precondition of the encoder's hint and of unwrap_unchecked on faster_hex's result). PARTIAL in one respect only: equality of the SIMD encoder's digits with the table encoder's is faster_hex's contract (trusted, not analysed); a chunked path that is not a loop over an iterator pipeline is recorded as not decided (evidence: coverage.not_decided), not as a violation - the claim then falls back to the safety obligations. H11: the formatter is handed to nothing but precision() and the judged write_str sites (no second output channel such as write!/pad).",
    "design_ref": "DESIGN.md §3 C14, §8.6",
    "note": TRUST + " faster_hex's documented contract (lower/upper-case two-digit encoding; fails only on an undersized destination), slice::chunks / chunks_exact_mut / Zip pairing order, and that a str built from ASCII digit bytes prints those bytes are trusted.",
}

CHECKS["C15"] = {
    "technique": "guard-fact dominance at the Box pointer cast, raw hand-over provenance + symbolic layout equality, callee-set (no allocation/copy) rule, by-value-type inventory of every frame of the boxed constructors",
    "text": "Static analysis of the alloc feature: the Box<[T]> -> Box<GenericArray<T,N>> cast is reached only under len == N and LengthError only under len != N with the source still an ordinary owner; TryFrom<Vec> fills through extend only under len == N; the O(1) conversions are a raw round trip of the same pointer at offset 0 with length exactly N, equal symbolic layouts, and bodies free of allocating/copying callees and loops; into_vec/try_from_vec/TryFrom<Box<[T]>>/From for Vec and Box<[T]> are the documented delegation chains; in every boxed constructor (boxed generate + closure, default_boxed, try_boxed_from_iter, boxed from_iter, __from_vec_helper, try_from_vec, try_from_boxed_slice, into_boxed_slice, into_vec, Box IntoIterator) and their crate-local callees no local/temporary/argument/return place has a by-value type containing a GenericArray, so no stack frame of the crate ever holds the array. PARTIAL: allocator call counts, block addresses and actual stack consumption are run-time observations and are not claimed. C15.N: try_from_vec / try_from_boxed_slice have no panicking exit (same rule as C07.N).",
    "design_ref": "DESIGN.md §3 C15",
    "note": TRUST + " Vec::from(Box<[T]>) / Vec::into_boxed_slice allocation reuse is std's documented behaviour.",
}
CHECKS["C16"] = {
    "technique": "heap typestate on MIR: non-zero-size and null-check dominance at raw alloc sites, raw-owned window vs foreign calls, into_raw/from_raw provenance and symbolic layout equality; positive fixture keeps zero-instance rules non-vacuous",
    "text": "Static heap-ownership rules over the alloc-feature code: every raw alloc::alloc::* call site is checked for (Z) size != 0 implied by the dominating facts with size = N*size_of T symbolic, (N) every use of the returned pointer on the non-null edge of a test whose other edge diverges into handle_alloc_error, (U) no foreign-code call between the allocation and the Box::from_raw that gives the block an owner; every Box::from_raw is fed by the Box::into_raw (or alloc) of the same block at offset 0 with equal symbolic size under the dominating facts and the same element type (so the block is released with the layout it was requested with); raw element writes are owner-counted (C04.W). The rules found three defects in Box<GenericArray>::generate (zero-size request for N = 0, missing null check, block leaked on panic), all fixed (known_findings.json); as the repaired tree has no raw alloc site, the same rules are run on a positive fixture on which Z, N and U must fire. What a real allocator does on failure needs execution and is not claimed. C16.E: allocation APIs that report failure as a value (try_reserve*, Box::try_new*, Vec::try_with_capacity, Allocator::allocate ..) occur only where, on every path to a normal return, the request is known to have succeeded - failure diverges through handle_alloc_error (zero sites on the reviewed tree; a positive and a negative fixture keep the rule from passing vacuously). C16.F: every raw dealloc(ptr, layout) releases a block the function took over (Box::into_raw / leak / alloc) with exactly that layout, only where the layout's size is provably non-zero, and once (positive fixture). C16.R: every block a Box gives up (into_raw / leak) is adopted again (from_raw, Vec::from_raw_parts, dealloc) or returned on every return path of the body with its helpers expanded - a refusal (Err) path after into_raw leaks the block.",
    "design_ref": "DESIGN.md §3 C16",
    "note": TRUST + " Box/Vec allocate, free and report failure correctly; zero-size Boxes never touch the allocator.",
}

CHECKS["C17"] = {
    "technique": "MIR rules on the serde impls: serializer-call skeleton, per-path facts at every Ok(array) exit (builder full, after finish, no-surplus evidence), builder step protocol and owner liveness on ?/unwind paths",
    "text": "Static analysis of impl_serde.rs: serialize = serialize_tuple(N)?, one serialize_element per item of the full forward iteration of &self (passing that item), then end() - no other serializer entry point, hence no length prefix; deserialize = deserialize_tuple(N, visitor); visit_seq rejects up front only under size_hint = Some(n), n != N, reads one next_element()? per destination slot into that slot and counts it (builder protocol), constructs Ok only under position == N and, on every CFG edge into the success path, either the remaining-size hint equals the probe constant or the extra next_element::<Dummy>()? returned None, keeps the builder live (dropped) on every unwind and `?` path so the elements read so far are released exactly once, and reaches finish/array_assume_init only on the success path. PARTIAL: round-trip equality through a concrete format is a property of serializer/deserializer pairs executed on data and is not claimed. The up-front hint check is complete: every path from size_hint to the first element read carries `None` or `hint == N` (a source announcing more than N is rejected before anything is read). C17.I entry points: the Serialize / Deserialize impls override nothing but serialize / deserialize and the crate has exactly one serde Visitor impl, so the judged visit_seq is the only way in (deserialize_in_place with a visitor of its own is reported).",
    "design_ref": "DESIGN.md §3 C17",
    "note": TRUST + " serde implementations honour their trait contracts; the probe constant Some(0) sits in a promoted constant whose value is not inspected.",
}
CHECKS["C18"] = {
    "technique": "item facts (constness/visibility of the frozen const surface), const-qualification witnesses in const fn position (no evaluation), zero-count rule for const/run-time divergence intrinsics with a positive fixture, cross-referenced pointer/extent obligations",
    "text": "PARTIAL CLAIM. Not decided: that the const evaluator accepts each call on the lattice of lengths, and that compile-time and run-time values agree - both are executions of the crate's MIR by an interpreter. Decided statically: every function of the frozen const surface (27 + const_default) is still `const fn` (and exported), each is called from a const fn witness (rustc's const-qualification, nothing is evaluated) with a reject twin calling a non-const fn, arr! expands in const fn position in all its forms; no body of the crate calls const_eval_select-style intrinsics, so compile time and run time execute the same MIR (the matcher is exercised on a positive fixture); and the UB-freedom obligations of the raw operations inside those const fns - the instances of C02.V/G/T, C10.C/F/X, C01.T, C03.A, which hold for all N and all slice lengths - are re-checked here. C18.M write permission: no pointer derived from a shared borrow is written through, handed to from_raw_parts_mut / ptr::write / a copy destination, or reborrowed as &mut, whatever casts lie in between (the condition under which the const evaluator rejects a write; taint dataflow over every body, positive and negative fixture). C18.K bounded evaluation cost: the MIR of every const fn and of the crate functions it calls is loop-free and the call graph among them acyclic, so the evaluator's work does not grow with the length and its long-running-evaluation limit cannot be what rejects a large array.",
    "design_ref": "DESIGN.md §3 C18, §4",
    "note": TRUST + " The const evaluator's faithfulness to MIR semantics is trusted.",
}
CHECKS["C19"] = {
    "technique": "complete-traversal recogniser on MIR (zeroize: iterator impl, for_each closure or next() loop over the full view) + aggregate-operand rule on the DEFAULT constant bodies combined with the structural storage induction (const-default)",
    "text": "Static analysis: zeroize() is as_mut_slice(self) (proved to be the full N-element view) -> iter_mut() -> <IterMut as Zeroize>::zeroize on exactly that iterator, no adaptor or sub-slice; each DEFAULT constant body is a single all-fields struct aggregate whose child operands are <U as ConstDefault>::DEFAULT and whose trailing element is <T as ConstDefault>::DEFAULT, with no call/cast/unsafe in the body, the wrapper's storage is <N::ArrayType<T> as ConstDefault>::DEFAULT, and const_default() returns Self::DEFAULT; with the storage-shape premises of C01.S (re-checked here) every one of the N slots is T::DEFAULT for every binary digit pattern of N, by induction. Agreement with Default::default() and the zeroized value of an element are facts about the element type. C19.E: the `equals Default::default()` clause - Default is generate(|_| T::default()) (or the collecting equivalent) and generate stores f(i) in slot i (C08's rules, run here), so the run-time default is N copies of T::default() as the constant default is N copies of T::DEFAULT.",
    "design_ref": "DESIGN.md §3 C19",
    "note": TRUST + " zeroize's IterMut impl and const-default's [T; 0] impl are trusted.",
}
CHECKS["C20"] = {
    "technique": "analysis of macro EXPANSIONS: generated witness crate compiled by the driver; call-count and dominance-order rules on the witness MIR, aggregate operands, const-generic arguments; accept/reject length twins",
    "text": "Static analysis of expansions: for every element count k (quick: 0..=12, 31..=33, 64, 100, 256; thorough: 0..=64, 100, 128, 255, 256), with and without trailing comma and in const fn position, the expanded list form calls each element expression exactly once on every path, in index order (dominance), passes an array aggregate whose operand i is the result of ei to from_array::<k> with N = U{k}; the repeat forms evaluate x() exactly once, repeat it by a `[v; n]` rvalue with n = N::USIZE (or the literal) and hand it to the size-guarded local const fn / from_array::<n>; box_arr! calls each element once in order into the vec! aggregate, counts the same k units and instantiates __from_vec_helper::<k> with N = U{k}, its repeat forms are from_elem(x(), n) -> try_from_vec -> unwrap; declared lengths type-check and off-by-one declarations are rejected (twins). Values equal the native literal because operand i = result of ei and from_array is a reinterpretation at offset 0. C20.H: the hidden helper that adopts the boxed list form's Vec does so under nothing but len == N (try_from_vec unwrapped, or a guarded into_boxed_slice -> from_raw hand-over).",
    "design_ref": "DESIGN.md §3 C20",
    "note": TRUST + " Language semantics of repeat expressions and vec! are trusted.",
}

NOT_APPLICABLE = {}

PENDING = "check under construction in this round; see DESIGN.md"


def main():
    props = [json.loads(l)["id"] for l in open(os.path.join(VERIF, "properties.jsonl"))]
    checks = []
    na = []
    for p in props:
        if p in CHECKS:
            c = CHECKS[p]
            checks.append({
                "property_id": p,
                "quick_cmd": "bin/check %s --tier quick" % p,
                "thorough_cmd": "bin/check %s --tier thorough" % p,
                "evidence_file": "evidence/%s.json" % p,
                "replay_cmd_template": "bin/check %s --replay {path}" % p,
                "engine": "gav (rustc_private MIR driver + python rule engines)",
                "level_claimed": {"category": c.get("category", "other"), "text": c["text"], "design_ref": c["design_ref"]},
                "level_note": c["note"],
                "technique": c["technique"],
            })
        else:
            na.append({"property_id": p, "reason": NOT_APPLICABLE.get(p, PENDING)})
    m = {
        "version": 1,
        "setup_cmd": "cd tools/driver && CARGO_NET_OFFLINE=true cargo +nightly build --release --offline",
        "hooks": {
            "guard": "generic_array_verif",
            "enable": "none needed: the rustc_private driver reads private items of the crate directly; no source hooks exist",
            "baseline_off_cmd": "cd /repo && cargo test --workspace --no-fail-fast --offline",
            "source_commits": [],
            "add_only": True,
        },
        "engines": [
            {"name": "gav-driver", "path": "tools/driver", "serves_properties": sorted(CHECKS),
             "kind_free_text": "rustc_private driver injected as RUSTC_WORKSPACE_WRAPPER under cargo +nightly check: exports drop-elaborated MIR, item facts (ADT reprs, impl headers, predicates, signatures, constness, visibility) and layouts as JSON; nothing of the crate is executed"},
            {"name": "gav rule engines", "path": "lib/gav", "serves_properties": sorted(CHECKS),
             "kind_free_text": "forward dataflow over MIR with a symbolic-term domain (type-level lengths as symbols, pointers as base+byte offset+extent), guard facts with a small inequality prover, unwind-window typestate, delegation/pipeline shape rules, item-fact rules, witness compilation"},
        ],
        "checks": checks,
        "not_applicable": na,
        "notes": "Technique family: static analysis only. Every check rebuilds /repo's working tree under the driver (fresh target dir) and decides from the compiler's IR; see DESIGN.md. selftest/run.py exercises every rule with mutants (must fire) and benign edits (must stay silent).",
    }
    with open(os.path.join(VERIF, "MANIFEST.json"), "w") as f:
        json.dump(m, f, indent=1)
    print("checks:", len(checks), "not_applicable:", len(na))


if __name__ == "__main__":
    main()
