#!/bin/bash
# usage: drv.sh <out.json> "<features>"   (scratch helper; the orchestrator has its own runner)
set -e
OUT=$1; FEATS=$2
T=$(mktemp -d)
cd ${GAV_REPO:-/repo}
LD_LIBRARY_PATH=$(rustc +nightly --print sysroot)/lib RUSTFLAGS="-Zmir-opt-level=0 -Awarnings" \
 RUSTC_WORKSPACE_WRAPPER=/verif/tools/driver/target/release/gav-driver GAV_OUT=$OUT GAV_NONCE=manual \
 CARGO_TARGET_DIR=$T CARGO_NET_OFFLINE=true cargo +nightly check --offline --lib --features "$FEATS" 2>&1 | tail -30
rm -rf $T
