use generic_array::{GenericArray, sequence::GenericSequence, typenum::{U0, U8}};
use std::alloc::{GlobalAlloc, Layout, System};
use std::sync::atomic::{AtomicBool, AtomicIsize, AtomicUsize, Ordering::SeqCst};
static ZERO_REQ: AtomicUsize = AtomicUsize::new(0);
static LIVE: AtomicIsize = AtomicIsize::new(0);
static TRACK: AtomicBool = AtomicBool::new(false);
struct Rec;
unsafe impl GlobalAlloc for Rec {
    unsafe fn alloc(&self, l: Layout) -> *mut u8 {
        if TRACK.load(SeqCst) { if l.size() == 0 { ZERO_REQ.fetch_add(1, SeqCst); } LIVE.fetch_add(1, SeqCst); }
        System.alloc(if l.size() == 0 { Layout::from_size_align(1, l.align()).unwrap() } else { l })
    }
    unsafe fn dealloc(&self, p: *mut u8, l: Layout) {
        if TRACK.load(SeqCst) { LIVE.fetch_sub(1, SeqCst); }
        System.dealloc(p, if l.size() == 0 { Layout::from_size_align(1, l.align()).unwrap() } else { l })
    }
}
#[global_allocator]
static A: Rec = Rec;
fn main() {
    std::panic::set_hook(Box::new(|_| {}));
    // (Z) N = 0 with a non-zero-sized element: zero-size request, never freed
    TRACK.store(true, SeqCst);
    { let b = Box::<GenericArray<u32, U0>>::generate(|i| i as u32); drop(b); }
    TRACK.store(false, SeqCst);
    let (z, live_z) = (ZERO_REQ.load(SeqCst), LIVE.load(SeqCst));
    // (U) generator panics half-way: the heap block must be freed
    LIVE.store(0, SeqCst);
    TRACK.store(true, SeqCst);
    let r = std::panic::catch_unwind(|| { let _ = Box::<GenericArray<u64, U8>>::generate(|i| if i == 3 { panic!("boom") } else { i as u64 }); });
    assert!(r.is_err());
    drop(r); // the panic payload
    TRACK.store(false, SeqCst);
    let live_u = LIVE.load(SeqCst);
    println!("zero-size requests = {z}, live blocks after N=0 generate = {live_z}, live blocks after panicking generate = {live_u}");
    assert_eq!(z, 0, "zero-size allocation requested");
    assert_eq!(live_z, 0, "block of the empty array never freed");
    assert_eq!(live_u, 0, "array block leaked when the generator panicked");
}
