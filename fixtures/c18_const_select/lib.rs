//! Positive fixture for C18.D: a function whose compile-time and run-time behaviour may diverge.
#![no_std]
#![feature(core_intrinsics, const_eval_select)]
#![allow(internal_features, dead_code)]
const fn at_compile_time(x: u8) -> u8 { x }
fn at_run_time(x: u8) -> u8 { x.wrapping_add(1) }
pub const fn diverging(x: u8) -> u8 {
    core::intrinsics::const_eval_select((x,), at_compile_time, at_run_time)
}
