//! Positive / negative fixture for the write-permission rule (C18.M / C02.M). Never executed; analysed by the driver only.
#![no_std]
#![allow(dead_code)]

/// POSITIVE: the mutable halves are rebuilt from a pointer that went through a shared reborrow (`as_ptr(&self)`), then `cast_mut()`.
/// Writing through the result is undefined behaviour; the compile-time evaluator rejects it.
pub fn halves_through_shared(slice: &mut [u8], mid: usize) -> (&mut [u8], &mut [u8]) {
    let len = slice.len();
    let p = slice.as_ptr();
    unsafe {
        (
            core::slice::from_raw_parts_mut(p.cast_mut(), mid),
            core::slice::from_raw_parts_mut(p.add(mid).cast_mut(), len - mid),
        )
    }
}

/// NEGATIVE twin: the same halves from `as_mut_ptr(&mut self)` - must not be reported.
pub fn halves_through_mut(slice: &mut [u8], mid: usize) -> (&mut [u8], &mut [u8]) {
    let len = slice.len();
    let p = slice.as_mut_ptr();
    unsafe { (core::slice::from_raw_parts_mut(p, mid), core::slice::from_raw_parts_mut(p.add(mid), len - mid)) }
}
