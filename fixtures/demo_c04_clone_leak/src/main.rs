use generic_array::{GenericArray, typenum::U4};
use std::sync::atomic::{AtomicUsize, Ordering::SeqCst};
static LIVE: AtomicUsize = AtomicUsize::new(0);
static CLONES: AtomicUsize = AtomicUsize::new(0);
struct D(u8);
impl D { fn new(x: u8) -> D { LIVE.fetch_add(1, SeqCst); D(x) } }
impl Clone for D { fn clone(&self) -> D { if CLONES.fetch_add(1, SeqCst) == 2 { panic!("clone #2") } D::new(self.0) } }
impl Drop for D { fn drop(&mut self) { LIVE.fetch_sub(1, SeqCst); } }
fn main() {
    let r = std::panic::catch_unwind(|| {
        let a: GenericArray<D, U4> = GenericArray::from([D::new(0), D::new(1), D::new(2), D::new(3)]);
        let it = a.into_iter();
        let _c = it.clone(); // T::clone panics at the 3rd element
    });
    assert!(r.is_err());
    println!("live after unwind = {}", LIVE.load(SeqCst));
    assert_eq!(LIVE.load(SeqCst), 0, "clones made before the panic were never dropped");
}
