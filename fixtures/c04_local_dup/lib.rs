//! Positive / negative fixture for C04.D (a value other than an element duplicated out of a plain local while caller code can unwind).
//! Never executed; analysed by the driver only.
#![no_std]
#![allow(dead_code)]

use core::mem::ManuallyDrop;

/// POSITIVE: the accumulator lives in a local of the enclosing function; the closure takes a bitwise copy through a raw pointer, hands it to the
/// caller's `f` and writes the result back afterwards. If `f` panics, its frame drops the copy and this function's unwind path drops `acc`.
pub fn fold_in_place<T, U, F: FnMut(U, &T) -> U>(items: &[T], init: U, mut f: F) -> U {
    let mut acc = init;
    let slot: *mut U = &mut acc;
    items.iter().for_each(|x| unsafe {
        slot.write(f(slot.read(), x));
    });
    acc
}

/// NEGATIVE twin: the same, but the local is a `ManuallyDrop`, so nothing is released on the unwind path (the copy is the only owner while
/// `f` runs) - must not be reported.
pub fn fold_in_place_guarded<T, U, F: FnMut(U, &T) -> U>(items: &[T], init: U, mut f: F) -> U {
    let mut acc = ManuallyDrop::new(init);
    let slot: *mut U = &mut *acc;
    items.iter().for_each(|x| unsafe {
        slot.write(f(slot.read(), x));
    });
    ManuallyDrop::into_inner(acc)
}

/// POSITIVE, same frame: a loop in the function itself.
pub fn fold_loop<T, U, F: FnMut(U, &T) -> U>(items: &[T], init: U, mut f: F) -> U {
    let mut acc = init;
    for x in items {
        unsafe {
            let cur = core::ptr::read(&acc);
            let next = f(cur, x);
            core::ptr::write(&mut acc, next);
        }
    }
    acc
}
