//! Positive fixture for the C16 raw-allocation rules: the three defects must be reported here on every run,
//! so that "zero raw alloc sites in the crate" is never a vacuous pass. (Never executed; analysed by the driver only.)
#![no_std]
#![allow(dead_code)]
extern crate alloc;
extern crate generic_array;
use alloc::boxed::Box;
use core::alloc::Layout;
use core::mem::{size_of, MaybeUninit};
use generic_array::{ArrayLength, GenericArray};

pub unsafe fn raw_generate<T, N: ArrayLength, F: FnMut(usize) -> T>(mut f: F) -> Box<GenericArray<T, N>> {
    let ptr: *mut GenericArray<MaybeUninit<T>, N> = if size_of::<T>() == 0 {
        core::ptr::NonNull::dangling().as_ptr()
    } else {
        alloc::alloc::alloc(Layout::new::<GenericArray<MaybeUninit<T>, N>>()).cast()
    };
    let arr = &mut *ptr;
    for (i, dst) in arr.iter_mut().enumerate() {
        dst.write(f(i));
    }
    Box::from_raw(ptr.cast())
}
