//! Positive fixture for the C16 raw-allocation rules: the three defects must be reported here on every run,
//! so that "zero raw alloc sites in the crate" is never a vacuous pass. (Never executed; analysed by the driver only.)
#![no_std]
#![allow(dead_code)]
extern crate alloc;
extern crate generic_array;
use alloc::boxed::Box;
use core::alloc::Layout;
use core::mem::{size_of, MaybeUninit};
use generic_array::{ArrayLength, GenericArray};

pub unsafe fn raw_generate<T, N: ArrayLength, F: FnMut(usize) -> T>(mut f: F) -> Box<GenericArray<T, N>> {
    let ptr: *mut GenericArray<MaybeUninit<T>, N> = if size_of::<T>() == 0 {
        core::ptr::NonNull::dangling().as_ptr()
    } else {
        alloc::alloc::alloc(Layout::new::<GenericArray<MaybeUninit<T>, N>>()).cast()
    };
    let arr = &mut *ptr;
    for (i, dst) in arr.iter_mut().enumerate() {
        dst.write(f(i));
    }
    Box::from_raw(ptr.cast())
}

/// Positive fixture for C16.E: a fallible reservation whose failure is turned into an ordinary error value instead of
/// ending through `handle_alloc_error` - must be reported on every run.
pub fn swallowed_reservation<T>(n: usize) -> Result<alloc::vec::Vec<T>, ()> {
    let mut v = alloc::vec::Vec::new();
    if v.try_reserve_exact(n).is_err() {
        return Err(());
    }
    Ok(v)
}

/// Negative twin: the failure diverges through the standard path - must NOT be reported.
pub fn diverging_reservation<T>(n: usize) -> alloc::vec::Vec<T> {
    let mut v = alloc::vec::Vec::new();
    if v.try_reserve_exact(n).is_err() {
        alloc::alloc::handle_alloc_error(Layout::new::<T>());
    }
    v
}

/// Positive fixture for C16.F: the manual release is guarded against zero-sized ELEMENTS only, so for N = 0 a zero-size layout (and a block that was
/// never requested) reaches the allocator - must be reported on every run.
pub unsafe fn unbox_by_hand<T, N: ArrayLength>(value: Box<GenericArray<T, N>>) -> GenericArray<T, N> {
    let block = Box::into_raw(value);
    let array = block.read();
    if size_of::<T>() != 0 {
        alloc::alloc::dealloc(block.cast(), Layout::new::<GenericArray<T, N>>());
    }
    array
}

/// Positive fixture for C16.M: the box is suppressed (`ManuallyDrop<Box<..>>`) and released by hand AFTER the element destructors ran; if one of
/// them panics the release is skipped - must be reported on every run.
pub struct LeakyGuard<T> {
    pub block: core::mem::ManuallyDrop<Box<[MaybeUninit<T>; 4]>>,
    pub len: usize,
}

impl<T> Drop for LeakyGuard<T> {
    fn drop(&mut self) {
        unsafe {
            core::ptr::drop_in_place(core::ptr::slice_from_raw_parts_mut(self.block.as_mut_ptr() as *mut T, self.len));
            core::mem::ManuallyDrop::drop(&mut self.block);
        }
    }
}

/// Negative twin: the release sits in the destructor of a local guard, which runs on the unwind path of the element destructors too - must NOT be reported.
pub struct NestedGuard<T> {
    pub block: core::mem::ManuallyDrop<Box<[MaybeUninit<T>; 4]>>,
    pub len: usize,
}

struct Release<'a, T>(&'a mut core::mem::ManuallyDrop<Box<[MaybeUninit<T>; 4]>>);

impl<T> Drop for Release<'_, T> {
    fn drop(&mut self) {
        unsafe { core::mem::ManuallyDrop::drop(self.0) }
    }
}

impl<T> Drop for NestedGuard<T> {
    fn drop(&mut self) {
        unsafe {
            let len = self.len;
            let release = Release(&mut self.block);
            core::ptr::drop_in_place(core::ptr::slice_from_raw_parts_mut(release.0.as_mut_ptr() as *mut T, len));
        }
    }
}
