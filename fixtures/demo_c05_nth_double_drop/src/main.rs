use generic_array::{GenericArray, typenum::U4};
use std::sync::atomic::{AtomicUsize, Ordering::SeqCst};
static DROPS: [AtomicUsize; 4] = [AtomicUsize::new(0), AtomicUsize::new(0), AtomicUsize::new(0), AtomicUsize::new(0)];
struct D(usize);
impl Drop for D {
    fn drop(&mut self) {
        let n = DROPS[self.0].fetch_add(1, SeqCst);
        if self.0 == 0 && n == 0 { panic!("destructor of element 0 panics") }
    }
}
fn run(back: bool) -> Vec<usize> {
    for d in DROPS.iter() { d.store(0, SeqCst); }
    let r = std::panic::catch_unwind(move || {
        let a: GenericArray<D, U4> = GenericArray::from(if back { [D(3), D(2), D(1), D(0)] } else { [D(0), D(1), D(2), D(3)] });
        let mut it = a.into_iter();
        if back { let _ = it.nth_back(2); } else { let _ = it.nth(2); }
    });
    assert!(r.is_err());
    DROPS.iter().map(|d| d.load(SeqCst)).collect()
}
fn main() {
    let f = run(false);
    let b = run(true);
    println!("drop counts after nth(2): {:?}; after nth_back(2): {:?}", f, b);
    assert!(f.iter().all(|&c| c <= 1), "nth: an element was dropped twice");
    assert!(b.iter().all(|&c| c <= 1), "nth_back: an element was dropped twice");
}
