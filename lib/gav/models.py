"""Specifications of crate-local helper functions used at their call sites (assume), each verified
against the helper's own body by a rule (guarantee).  Keys are body keys (parameter-name independent)."""

from .poly import Poly


def m_len(an, st, cs):
    # GenericArray::<T, N>::len() == N      (guarantee: rules.check_views)
    if len(cs.targs) >= 2:
        return ("I", an.tenv.length(cs.targs[1]))
    return None


MODELS = {
    "GenericArray<$0,$1>::len": m_len,
}

# local callees without memory effects
PURE_KEYS = {
    "GenericArray<$0,$1>::len", "GenericArray<$0,$1>::as_slice", "GenericArray<$0,$1>::as_mut_slice",
    "<GenericArray<$0,$1> as core::ops::Deref>::deref", "<GenericArray<$0,$1> as core::ops::DerefMut>::deref_mut",
}
