"""Specifications of crate-local helper functions used at their call sites (assume), each verified
against the helper's own body (guarantee) by `verify_models`: the model applied to the helper's own symbolic
parameters must equal the value the abstract interpreter computes for the helper's body.
Keys are body keys (independent of generic-parameter names and of the module an item lives in)."""

from .poly import Poly


def _adt(an, tail):
    for p, a in an.db.adts.items():
        if p.split("::")[-1] == tail:
            return p, a
    return None, None


def _field(adt, name):
    for i, f in enumerate(adt["fields"]):
        if f["name"] == name:
            return i
    return None


def _self_base(v):
    """Base object of a `&self` / `&mut self` argument."""
    if v[0] == "P" and not v[2].t:
        if v[1][0] == "field":
            return v[1][1], v[1][2]
        return v[1], ()
    return None, None


def m_len(an, st, cs):
    # GenericArray::<T, N>::len() == N
    if len(cs.targs) >= 2:
        return ("I", an.tenv.length(cs.targs[1]))
    return None


def _mk_owner(an, tail, vals_by_name):
    path, adt = _adt(an, tail)
    if adt is None:
        return None
    ops = []
    for f in adt["fields"]:
        if f["name"] not in vals_by_name:
            return None
        ops.append(vals_by_name[f["name"]])
    return ("A", ("adt", path, 0), tuple(ops))


def m_consumer_new(an, st, cs):
    return _mk_owner(an, "ArrayConsumer", {"array": cs.args[0], "position": ("I", Poly.const(0))})


def m_intrusive_new(an, st, cs):
    return _mk_owner(an, "IntrusiveArrayBuilder", {"array": cs.args[0], "position": ("I", Poly.const(0))})


def _n_of(cs):
    # <Owner<T, N>>::method : generic args are (['a,] T, N)
    return cs.targs[-1] if cs.targs else None


def _iter_position(an, st, cs, tail, array_is_ref, mutable):
    path, adt = _adt(an, tail)
    base, pre = _self_base(cs.args[0])
    if adt is None or base is None:
        return None
    ia, ip = _field(adt, "array"), _field(adt, "position")
    if ia is None or ip is None:
        return None
    n = an.tenv.length(_n_of(cs))
    if array_is_ref:
        av = an.read_cell(st, base, pre + (ia,), adt["fields"][ia]["ty"])
        if av[0] != "P":
            return None
        arr = ("P", av[1], av[2], n)
    else:
        arr = ("P", ("field", base, pre + (ia,)), Poly.const(0), n)
    it = ("V", "iter", "slice", arr, mutable)
    pos = ("P", ("field", base, pre + (ip,)), Poly.const(0), None)
    return ("A", "tuple", (it, pos))


def m_consumer_iter_position(an, st, cs):
    return _iter_position(an, st, cs, "ArrayConsumer", False, False)


def m_intrusive_iter_position(an, st, cs):
    return _iter_position(an, st, cs, "IntrusiveArrayBuilder", True, True)


def m_builder_iter_position(an, st, cs):
    return _iter_position(an, st, cs, "ArrayBuilder", False, True)


def _is_full(an, st, cs, tail):
    path, adt = _adt(an, tail)
    base, pre = _self_base(cs.args[0])
    if adt is None or base is None:
        return None
    ip = _field(adt, "position")
    pos = an.read_cell(st, base, pre + (ip,), adt["fields"][ip]["ty"])
    if pos[0] != "I":
        return None
    return ("B", ("cmp", "Eq", pos[1], an.tenv.length(_n_of(cs))))


def m_intrusive_is_full(an, st, cs):
    return _is_full(an, st, cs, "IntrusiveArrayBuilder")


def m_builder_is_full(an, st, cs):
    return _is_full(an, st, cs, "ArrayBuilder")


def _iter_fields(an, st, cs):
    path, adt = _adt(an, "GenericArrayIter")
    base, pre = _self_base(cs.args[0])
    if adt is None or base is None:
        return None
    ia, i0, i1 = _field(adt, "array"), _field(adt, "index"), _field(adt, "index_back")
    if None in (ia, i0, i1):
        return None
    lo = an.read_cell(st, base, pre + (i0,), adt["fields"][i0]["ty"])
    hi = an.read_cell(st, base, pre + (i1,), adt["fields"][i1]["ty"])
    if lo[0] != "I" or hi[0] != "I":
        return None
    return base, pre, ia, lo[1], hi[1]


def m_iter_len(an, st, cs):
    r = _iter_fields(an, st, cs)
    if r is None:
        return None
    return ("I", r[4] - r[3])


def m_iter_len_fwd(an, st, cs):
    # <&mut I as ExactSizeIterator>::len(&&mut I) forwards to I::len; only modelled for I = GenericArrayIter
    t = cs.targs[0] if cs.targs else None
    if t is None or t.get("k") != "ref" or t["t"].get("k") != "adt" or not t["t"]["def"].endswith("GenericArrayIter"):
        return None
    v = cs.args[0]
    if v[0] != "P" or v[2].t:
        return None
    inner = an.read_cell(st, v[1], (), t)
    if inner[0] != "P":
        return None

    class _C:
        pass
    c2 = _C()
    c2.args = [inner]
    c2.targs = [x for x in t["t"]["args"] if x.get("k") != "region"]
    return m_iter_len(an, st, c2)


def m_iter_as_slice(an, st, cs):
    r = _iter_fields(an, st, cs)
    if r is None:
        return None
    base, pre, ia, lo, hi = r
    esz = an.tenv.size(cs.targs[0])
    return ("P", ("field", base, pre + (ia,)), lo * esz, hi - lo)


def m_slice_from_chunks(an, st, cs):
    # GenericArray::<T, N>::slice_from_chunks(_mut)(chunks) : the same address, len(chunks) * N elements of T
    p = cs.args[0]
    if p[0] != "P" or p[3] is None or len(cs.targs) < 2:
        return None
    return ("P", p[1], p[2], p[3] * an.tenv.length(cs.targs[1]))


MODELS = {
    "GenericArray<$0,$1>::slice_from_chunks": m_slice_from_chunks,
    "GenericArray<$0,$1>::slice_from_chunks_mut": m_slice_from_chunks,
    "GenericArray<$0,$1>::len": m_len,
    "ArrayConsumer<$0,$1>::new": m_consumer_new,
    "IntrusiveArrayBuilder<$0,$1>::new": m_intrusive_new,
    "ArrayConsumer<$0,$1>::iter_position": m_consumer_iter_position,
    "IntrusiveArrayBuilder<$0,$1>::iter_position": m_intrusive_iter_position,
    "ArrayBuilder<$0,$1>::iter_position": m_builder_iter_position,
    "IntrusiveArrayBuilder<$0,$1>::is_full": m_intrusive_is_full,
    "ArrayBuilder<$0,$1>::is_full": m_builder_is_full,
    "<GenericArrayIter<$0,$1> as core::iter::ExactSizeIterator>::len": m_iter_len,
    "GenericArrayIter<$0,$1>::as_slice": m_iter_as_slice,
    "GenericArrayIter<$0,$1>::as_mut_slice": m_iter_as_slice,
}

# std forwarding impls that are modelled (matched on the resolved def path)
RES_MODELS = {
    "<&mut I as core::iter::ExactSizeIterator>::len": m_iter_len_fwd,
}

# local callees without memory effects
PURE_KEYS = set(MODELS) | {
    "GenericArray<$0,$1>::as_slice", "GenericArray<$0,$1>::as_mut_slice",
    "<GenericArray<$0,$1> as core::ops::Deref>::deref", "<GenericArray<$0,$1> as core::ops::DerefMut>::deref_mut",
    "<GenericArray<$0,$1> as core::convert::AsRef<[$0]>>::as_ref", "<GenericArray<$0,$1> as core::convert::AsMut<[$0]>>::as_mut",
    "<GenericArray<$0,$1> as core::borrow::Borrow<[$0]>>::borrow", "<GenericArray<$0,$1> as core::borrow::BorrowMut<[$0]>>::borrow_mut",
}


def verify_models(ctx, cfg, keys=None, rule="MODEL"):
    """Guarantee side: for each modelled helper present in this config, the model applied to the helper's own
    parameters equals the abstractly interpreted return value of its body (analysed with models disabled for itself)."""
    from .absint import Analysis, CallSite
    from .core import PROVED, REFUTED, MISSING
    from .rules import vstr
    db = ctx.db(cfg)
    ok_all = True
    for key in (keys or MODELS):
        b = db.get(key)
        if b is None:
            continue  # helper not compiled in this configuration (or removed: its callers then fall back to opaque values)
        models = {k: v for k, v in MODELS.items() if k != key}
        # the helper's own private helpers are expanded, as in every other analysis (a model is a statement about the code the helper runs)
        an = Analysis(db, ctx.inlined(db, b), models).run()
        st = an.entry_state()
        # build a pseudo call site: arguments are the helper's own parameters
        args = [st.mem[(("local", i), ())] for i in range(1, an.mir["arg_count"] + 1)]

        class _C:
            pass
        cs = _C()
        cs.args = args
        cs.targs = [{"k": "param" if g["kind"] == "type" else ("cparam" if g["kind"] == "const" else "region"), "n": g["n"], "s": g["n"]} for g in b["generics"]]
        cs.targs = [t for t in cs.targs if t["k"] != "region"]
        cs.key = key
        want = MODELS[key](an, st, cs)
        got = [r["val"] for r in an.returns]
        ok = want is not None and bool(got) and all(g == want for g in got)
        ok_all = ok_all and ok
        ctx.ob(rule, key, PROVED if ok else REFUTED, "helper body returns %s; model used at its call sites: %s" % (", ".join(vstr(g) for g in got), vstr(want)), at=b["at"], cfg=cfg)
    return ok_all
