"""Use of a pointer to a local whose storage has ended (StorageDead): a raw read / write / copy / reborrow through it is a dangling access -
undefined behaviour, and rejected outright by the const evaluator.  References cannot do this (borrow checker); raw pointers can."""


def dead_sets(a):
    """may-dead locals at the entry of each reachable block (forward, union at joins) and just before each block's terminator."""
    blocks = a.blocks
    entry = {0: frozenset()}
    work = [0]
    term = {}
    while work:
        bb = work.pop()
        cur = set(entry[bb])
        for s in blocks[bb]["stmts"]:
            if s["k"] == "sdead":
                cur.add(s["sl"])
            elif s["k"] == "slive":
                cur.discard(s["sl"])
        term[bb] = frozenset(cur)
        for s2 in a.edges.get(bb, []):
            new = entry.get(s2, frozenset()) | cur
            if s2 not in entry or new != entry[s2]:
                entry[s2] = frozenset(new)
                work.append(s2)
    return entry, term


def base_local(v):
    """Local a pointer value points into, or None."""
    if not (isinstance(v, tuple) and v and v[0] == "P"):
        return None
    b = v[1]
    while isinstance(b, tuple) and b and b[0] == "field":
        b = b[1]
    if isinstance(b, tuple) and len(b) == 2 and b[0] == "local" and isinstance(b[1], int):
        return b[1]
    return None


RAW_USES = ("core::ptr::read", "core::ptr::read_unaligned", "core::ptr::read_volatile", "core::ptr::write", "core::ptr::copy", "core::ptr::copy_nonoverlapping",
            "core::mem::transmute_copy", "core::ptr::drop_in_place", "core::slice::from_raw_parts", "core::slice::from_raw_parts_mut")


def dangling_uses(a):
    """[(call or deref site, local, description)] for raw accesses through pointers into locals that may be storage-dead at that point."""
    _, term = dead_sets(a)
    out = []
    for c in a.calls:
        if c.fn not in RAW_USES or a.blocks[c.bb]["cleanup"]:
            continue
        dead = term.get(c.bb, frozenset())
        for v in c.args:
            n = base_local(v)
            if n is not None and n in dead and n > a.mir["arg_count"]:
                out.append((c.at, n, "%s through a pointer into local _%d after its storage ended" % (c.fn.split("::")[-1], n)))
    # raw-pointer dereferences / reborrows recorded by the interpreter
    dead_in, _ = dead_sets(a)
    for d in a.derefs:
        bb, idx = d["site"]
        if a.blocks[bb]["cleanup"]:
            continue
        cur = set(dead_in.get(bb, frozenset()))
        for i, s in enumerate(a.blocks[bb]["stmts"]):
            if isinstance(idx, int) and i >= idx:
                break
            if s["k"] == "sdead":
                cur.add(s["sl"])
            elif s["k"] == "slive":
                cur.discard(s["sl"])
        n = base_local(d["ptr"])
        if n is not None and n in cur and n > a.mir["arg_count"]:
            out.append((a.blocks[bb]["stmts"][idx].get("at") if isinstance(idx, int) and idx < len(a.blocks[bb]["stmts"]) else None, n,
                        "dereference of a raw pointer into local _%d after its storage ended" % n))
    return out
