"""Explicit loops over iterator pipelines (`for x in pipe { .. }`, `while let Some(x) = it.next() { .. }`): the loop form of what
`for_each` / `fold` closures do.  A Loop describes one iteration ("step") the way typestate.check_closure_protocol sees a closure body."""

from .poly import Poly
from .ownership import find_in, owner_adts, local_adt, unwind_drops
from .absint import State


def _is_pipe(v):
    return isinstance(v, tuple) and len(v) >= 3 and v[0] == "V" and v[1] == "iter"


class Loop:
    def __init__(self, a, nxt, pipe):
        self.a = a
        self.nxt = nxt
        self.pipe = pipe
        # the yielded item: the modelled payload of a std pipeline, or the Some-field of an opaque Option returned by a crate-local next()
        self.payload = nxt.ret[1] if nxt.ret[0] == "O" else ("V", "proj", ("proj", nxt.ret, (("v", 1), 0)))
        self.backward = nxt.fn.endswith("::next_back")
        # edges of the switch on next()'s result
        none_src = {x for (x, s2), fs in a.edge_facts.items() if any(("variant", nxt.ret, 0) in f for f in fs)}
        some_src = {x for (x, s2), fs in a.edge_facts.items() if any(("variant", nxt.ret, 1) in f for f in fs)}
        sw = none_src & some_src  # the block(s) that branch on next()'s result
        self.entries = sorted({s2 for (x, s2), fs in a.edge_facts.items() if x in sw and any(("variant", nxt.ret, 1) in f for f in fs)})
        self.none_targets = sorted({s2 for (x, s2), fs in a.edge_facts.items() if x in sw and any(("variant", nxt.ret, 0) in f for f in fs)})
        # blocks of one step: from the Some edge until control is back at next()
        blocks, work = set(), list(self.entries)
        while work:
            x = work.pop()
            if x in blocks or x == nxt.bb or a.blocks[x]["cleanup"]:
                continue
            if not a.reaches(x, nxt.bb):
                continue  # left the loop
            blocks.add(x)
            work.extend(a.edges.get(x, []))
        self.blocks = blocks
        self.breaks = sorted({(x, s2) for x in blocks for s2 in a.edges.get(x, []) if not a.blocks[s2]["cleanup"] and s2 != nxt.bb and s2 not in blocks})
        self.key = "loop@%s#%d" % (nxt.fn.split("::")[-1], 0)

    # ---- the pieces of the yielded item -------------------------------------------------------------
    def slot_ptrs(self):
        """Pointers into iterated storage yielded by this loop's next(): P terms carrying this loop's elemoff tag."""
        tag0 = self.nxt.bb

        def is_slot(t):
            if not (isinstance(t, tuple) and len(t) == 4 and t[0] == "P"):
                return False
            return any(isinstance(x, tuple) and x and x[0] == "elemoff" and x[1] and x[1][0] == tag0 for x in t[2].atoms())
        return find_in(self.payload, is_slot)

    def index_val(self):
        r = find_in(self.payload, lambda t: isinstance(t, tuple) and len(t) == 2 and t[0] == "I" and any(isinstance(x, tuple) and x and x[0] == "enum_idx" for x in t[1].atoms()))
        return r[0] if r else None

    def calls(self):
        return [c for c in self.a.calls if c.bb in self.blocks]

    def count_on_paths(self, pred):
        """Set of possible numbers of calls satisfying pred during one step (entry to back edge); None if the step has an inner cycle through one."""
        a = self.a
        by = {}
        for c in self.calls():
            if pred(c):
                by[c.bb] = by.get(c.bb, 0) + 1
        memo = {}

        def go(bb, stack):
            if bb in stack:
                return None
            if bb in memo:
                return memo[bb]
            here = by.get(bb, 0)
            out = set()
            for s in a.edges.get(bb, []):
                if a.blocks[s]["cleanup"]:
                    continue
                if s == self.nxt.bb:
                    out.add(here)
                elif s in self.blocks:
                    r = go(s, stack | {bb})
                    if r is None:
                        return None
                    out |= {here + x for x in r}
            memo[bb] = out
            return out
        res = set()
        for e in self.entries:
            r = go(e, frozenset())
            if r is None:
                return None
            res |= r
        return res

    # ---- events for the ownership protocol -----------------------------------------------------------
    def events(self, cl):
        from .typestate import has_generic
        a = self.a
        slots = [repr(p[1:3]) for p in self.slot_ptrs()]
        slot_of = {}
        for p in self.slot_ptrs():
            slot_of[(p[1], p[2])] = repr((p[1], p[2]))
        head = State(self.nxt.mem, self.nxt.facts)
        ev = []
        owners_ = owner_adts(a.db)

        offs_seen = []
        self.cursor_offsets = offs_seen

        def cursor_slot(c):
            """`owner.storage.add(owner.cursor + d)` for a tracked owner LOCAL, cursor = its value when the step begins (d is recorded)."""
            p = c.args[0]
            if p[0] != "P" or not c.targs:
                return None
            S_ = a.tenv.size(c.targs[0])
            if isinstance(p[1], tuple) and len(p[1]) == 3 and p[1][0] == "field" and p[1][1][0] == "local" and len(p[1][2]) == 1:
                adt = local_adt(a, p[1][1][1])
                o = owners_.get(adt)
                if o is None or o["array_is_ref"] or p[1][2][0] != o["array"]:
                    return None
                for fpos in o["pos"]:
                    # (the cursor's value when the step begins: reading `storage[cursor]` after the cursor was raised is a different slot)
                    v = a.read_cell(head, p[1][1], (fpos,), {"k": "prim", "n": "usize"})
                    d_ = _elem_delta(p[2], v, S_)
                    if d_ is not None:
                        if ((p[1][1], fpos), d_) not in offs_seen:
                            offs_seen.append(((p[1][1], fpos), d_))
                        return repr(("cur", p[1][1], fpos))
                return None
            # an owner that refers to its storage (`array: &mut GenericArray<..>`): the storage is the pointee of that field
            for L in range(len(a.locals)):
                o = owners_.get(local_adt(a, L))
                if o is None or not o["array_is_ref"]:
                    continue
                st_ = State(c.mem, c.facts)
                arrp = a.read_cell(st_, ("local", L), (o["array"],), None)
                if not (arrp is not None and arrp[0] == "P" and arrp[1] == p[1] and not arrp[2].t):
                    continue
                for fpos in o["pos"]:
                    v = a.read_cell(head, ("local", L), (fpos,), {"k": "prim", "n": "usize"})
                    d_ = _elem_delta(p[2], v, S_)
                    if d_ is not None:
                        if ((("local", L), fpos), d_) not in offs_seen:
                            offs_seen.append(((("local", L), fpos), d_))
                        return repr(("cur", ("local", L), fpos))
            return None
        for c in self.calls():
            kind = None
            if c.fn in ("core::ptr::read", "core::ptr::read_unaligned", "core::ptr::write", "core::mem::MaybeUninit::<T>::write") and c.args[0][0] == "P" and cursor_slot(c) is not None:
                kind, data = ("read" if "read" in c.fn else "write"), cursor_slot(c)
            elif c.fn in ("core::ptr::read", "core::ptr::read_unaligned") and c.args[0][0] == "P" and (c.args[0][1], c.args[0][2]) in slot_of:
                kind, data = "read", slot_of[(c.args[0][1], c.args[0][2])]
            elif c.fn in ("core::ptr::write", "core::mem::MaybeUninit::<T>::write") and c.args[0][0] == "P" and (c.args[0][1], c.args[0][2]) in slot_of:
                kind, data = "write", slot_of[(c.args[0][1], c.args[0][2])]
            else:
                k = cl.classify(c, a.body)
                if k in ("foreign", "panic"):
                    kind, data = k, c.fn
            if kind:
                ev.append((c.bb, 10 ** 6, kind, data, c))
        for s in a.stores + [x for x in a.assigns if x["cell"][0][0] == "local" and x["cell"][1]]:
            if s["site"][0] not in self.blocks or s["val"][0] != "I":
                continue
            cell = s["cell"]
            pid = self.position_id(cell)
            if pid is None:
                continue
            old = a.read_cell(head, cell[0], cell[1], {"k": "prim", "n": "usize"})
            d = s["val"][1] - old[1] if old[0] == "I" else None
            if d is not None and d.is_const():
                ev.append((s["site"][0], s["site"][1], "inc", (pid, d.const_value(), None), s))
            else:
                ev.append((s["site"][0], s["site"][1], "inc", (pid, None, None), s))
        for d in a.drops:
            if d["bb"] in self.blocks and has_generic(d["ty"]) and not d["cleanup"]:
                ev.append((d["bb"], 10 ** 6, "dropgen", d["tys"], d))
        seen = set()
        ev2 = []
        for e in ev:
            k = (e[0], e[1], e[2], repr(e[3]))
            if k not in seen:
                seen.add(k)
                ev2.append(e)
        ev2.sort(key=lambda e: (e[0], e[1] if isinstance(e[1], int) else 10 ** 6))
        by_bb = {}
        for e in ev2:
            by_bb.setdefault(e[0], []).append(e)
        return by_bb

    def position_id(self, cell):
        """(owner base, field index) if the cell is a usize position field of a tracked owner, else None."""
        a = self.a
        owners = owner_adts(a.db)
        base, path = cell
        if base[0] == "field" and not path:
            obase, opath = base[1], base[2]
        else:
            obase, opath = base, path
        if len(opath) != 1:
            return None
        adt = None
        if obase[0] == "local":
            adt = local_adt(a, obase[1])
        elif obase[0] == "arg":
            from .tys import pointee
            pt = pointee(a.local_ty(obase[1]))
            adt = pt["def"] if pt is not None and pt.get("k") == "adt" else None
        if adt in owners and opath[0] in owners[adt]["pos"]:
            return (obase, opath[0])
        return None


def _elem_delta(off, v, S_):
    """d such that the byte offset `off` is (v + d) elements of size S_ (d a small integer), else None."""
    if v is None or v[0] != "I" or S_ is None:
        return None
    dd = off - v[1] * S_
    for d in (0, 1, -1, 2, -2):
        if dd == S_ * Poly.const(d):
            return d
    return None


def find_loops(a):
    out = []
    n = 0
    for c in a.calls:
        if c.fn in ("core::slice::<impl [T]>::get", "core::slice::<impl [T]>::get_mut") and c.ret is not None and c.ret[0] == "O" and a.reaches(c.bb, c.bb):
            # `while let Some(slot) = slice.get_mut(cursor) { .. }`: a loop driven by a bounds-checked access; the slot is whatever the index
            # designates (a cursor-addressed slot if the index is an owner's cursor), the loop ends when the index reaches the length
            lp = Loop(a, c, None)
            if lp.entries:
                lp.key = "loop@%s#%d" % (c.fn.split("::")[-1], n)
                n += 1
                out.append(lp)
            continue
        if c.fn not in ("core::iter::Iterator::next", "core::iter::DoubleEndedIterator::next_back"):
            continue
        if c.ret is None or c.ret[0] != "O" or not a.reaches(c.bb, c.bb):
            continue
        recv = c.args[0]
        held = c.mem.get((recv[1], ())) if recv[0] == "P" else None
        if held is None and recv[0] == "P":
            held = a.read_cell(State(c.mem, c.facts), recv[1], (), None)
        is_range = isinstance(held, tuple) and len(held) == 3 and held[0] == "A" and isinstance(held[1], tuple) and held[1][:2] == ("adt", "core::ops::Range")
        if not (_is_pipe(held) or is_range or (isinstance(held, tuple) and held and held[0] == "P" and held[3] is not None)):
            continue
        lp = Loop(a, c, held)
        if not lp.entries:
            continue
        lp.key = "loop@%s#%d" % (c.fn.split("::")[-1], n)
        n += 1
        out.append(lp)
    return out


def method_loops(a, keys):
    """Loops driven by a crate-local next()/next_back() (given by body key) on some receiver: `while let Some(x) = self.next() { .. }`."""
    out = []
    for n, c in enumerate([c for c in a.calls if c.key in keys and a.reaches(c.bb, c.bb)]):
        lp = Loop(a, c, None)
        if lp.entries:
            lp.key = "loop@%s#%d" % (c.fn.split("::")[-1], n)
            out.append(lp)
    return out


def initial_cell_value(a, lp, obase, path):
    """The value a cell holds whenever the loop is entered from outside: the one value every store / whole-aggregate assignment to it
    outside the loop that dominates the loop head gives it (Poly), or None when that is not a single value."""
    cands = [x["val"] for x in a.assigns + a.stores if x["cell"] == (obase, path) and x["site"][0] not in lp.blocks and a.dominates(x["site"][0], lp.nxt.bb)]
    whole = [x["val"] for x in a.assigns if x["cell"] == (obase, ()) and x["val"][0] == "A" and x["site"][0] not in lp.blocks and a.dominates(x["site"][0], lp.nxt.bb)] if path else []
    if path and obase[0] == "local":
        for c_ in a.calls:
            if c_.term.get("dest") and c_.term["dest"]["l"] == obase[1] and not c_.term["dest"]["p"] and c_.ret is not None and c_.ret[0] == "A" and a.dominates(c_.bb, lp.nxt.bb):
                whole.append(c_.ret)
    vals = [v[1] for v in cands if v[0] == "I"]
    if path and len(path) == 1 and isinstance(path[0], int):
        vals += [w[2][path[0]][1] for w in whole if path[0] < len(w[2]) and w[2][path[0]][0] == "I"]
    if vals and all(v == vals[0] for v in vals) and len(vals) == len([v for v in cands]) + len(whole):
        return vals[0]
    return None


def slices_of(pipe):
    return find_in(pipe, lambda t: isinstance(t, tuple) and len(t) == 5 and t[0] == "V" and t[1] == "iter" and t[2] == "slice")


def link_loop(ctx, cfg, body, lp, info, role, rule):
    """Loop form of ownership.link_closure: each position advanced by the step is a field of a tracked owner, the slots iterate that
    owner's storage, and the owner is dropped on the unwind path of every foreign call inside the step."""
    from .rules import vstr
    a = lp.a
    owners = owner_adts(a.db)
    slice_bases = [s[3][1] for s in slices_of(lp.pipe)]
    key0 = "%s#%s" % (body["key"], lp.key)
    if role in ("consumer", "builder"):
        for pid in info["positions"]:
            obase, fidx = pid
            adt = local_adt(a, obase[1]) if obase[0] == "local" else None
            if obase[0] == "arg":
                from .tys import pointee
                pt = pointee(a.local_ty(obase[1]))
                adt = pt["def"] if pt is not None and pt.get("k") == "adt" else None
            o = owners.get(adt)
            ok, det = False, "position %s" % (pid,)
            if o is not None:
                if o["array_is_ref"]:
                    arrp = lp.nxt.mem.get((obase, (o["array"],)))
                    if arrp is None:
                        whole = lp.nxt.mem.get((obase, ()))
                        if whole is not None and whole[0] == "A":
                            arrp = whole[2][o["array"]]
                    src_ok = arrp is not None and arrp[0] == "P" and arrp[1] in slice_bases
                else:
                    src_ok = ("field", obase, (o["array"],)) in slice_bases
                if not src_ok and repr(("cur", obase, fidx)) in info["slots"]:
                    # slots designated by this owner's own cursor: they are its storage by construction; what remains is that the cursor cannot run
                    # past the storage - the loop is driven by a range lo..hi, cursor and index advance together by one per step, so the cursor
                    # stays below N when  cursor_at_entry - lo + hi <= N
                    from .rules import pipe_max
                    from .poly import prove
                    steps = pipe_max(a, lp.pipe)
                    v0 = None
                    cands = [x["val"] for x in a.assigns + a.stores if x["cell"] == (obase, (fidx,)) and x["site"][0] not in lp.blocks and a.dominates(x["site"][0], lp.nxt.bb)]
                    whole = [x["val"] for x in a.assigns if x["cell"] == (obase, ()) and x["val"][0] == "A" and x["site"][0] not in lp.blocks and a.dominates(x["site"][0], lp.nxt.bb)]
                    for c_ in a.calls:
                        if c_.term.get("dest") and c_.term["dest"]["l"] == obase[1] and not c_.term["dest"]["p"] and c_.ret is not None and c_.ret[0] == "A" and a.dominates(c_.bb, lp.nxt.bb):
                            whole.append(c_.ret)
                    vals = [v[1] for v in cands if v[0] == "I"] + [w[2][fidx][1] for w in whole if fidx < len(w[2]) and w[2][fidx][0] == "I"]
                    if vals and all(v == vals[0] for v in vals):
                        v0 = vals[0]
                    lt = a.local_ty(obase[1]) if obase[0] == "local" else None
                    N_ = a.tenv.length([x for x in lt["args"] if x.get("k") != "region"][-1]) if lt else None
                    # the by-value iterator's invariant index <= index_back <= N (established and preserved: C06.I) may bound the step count
                    inv = []
                    for ai in range(1, a.mir["arg_count"] + 1):
                        from .tys import pointee as _pt
                        t_ = a.local_ty(ai)
                        t_ = _pt(t_) if t_ is not None and t_.get("k") == "ref" else t_
                        if t_ is not None and t_.get("k") == "adt" and t_["def"] in owners and "index" in owners[t_["def"]]["names"]:
                            oo = owners[t_["def"]]
                            lo_ = Poly.atom(("cell", (("arg", ai), (oo["names"].index("index"),))))
                            hi_ = Poly.atom(("cell", (("arg", ai), (oo["names"].index("index_back"),))))
                            Nn = a.tenv.length([x for x in t_["args"] if x.get("k") != "region"][-1])
                            inv += [(">=", hi_ - lo_), (">=", Nn - hi_), (">=", lo_)]
                    room = steps is not None and v0 is not None and N_ is not None and prove((">=", N_ - v0 - steps), a.poly_facts(lp.nxt.facts) + inv)
                    det = "cursor field '%s' of owner %s, whose own storage the slots are; at most %r steps from cursor %r with %r slots: %s" % (o["names"][fidx], adt.split("::")[-1], steps, v0, N_, bool(room))
                    if not room and lp.nxt.fn in ("core::slice::<impl [T]>::get", "core::slice::<impl [T]>::get_mut") and lp.nxt.ret[0] == "O" and N_ is not None:
                        # a loop driven by `storage.get_mut(cursor)`: every step is entered only with cursor < len (the access is bounds-checked), so
                        # the cursor cannot run past the storage if the slice is the owner's whole storage and the index is its cursor
                        tag = lp.nxt.ret[2]
                        cur = a.read_cell(State(lp.nxt.mem, lp.nxt.facts), obase, (fidx,), {"k": "prim", "n": "usize"})
                        sl = lp.nxt.args[0]
                        if o["array_is_ref"]:
                            arrp = a.read_cell(State(lp.nxt.mem, lp.nxt.facts), obase, (o["array"],), None)
                            st_ok = arrp is not None and arrp[0] == "P" and sl[0] == "P" and sl[1] == arrp[1] and not sl[2].t and not arrp[2].t
                        else:
                            st_ok = sl[0] == "P" and sl[1] == ("field", obase, (o["array"],)) and not sl[2].t
                        room = bool(st_ok and cur[0] == "I" and tag[2] == cur[1] and sl[3] is not None and prove(("==", sl[3] - N_), a.poly_facts(lp.nxt.facts)))
                        det = "cursor field '%s' of owner %s, whose own storage the slots are; the loop is driven by a bounds-checked access storage.get(cursor) over the owner's whole storage (%r slots): %s" % (
                            o["names"][fidx], adt.split("::")[-1], N_, room)
                    src_ok = bool(room)
                else:
                    det = "position field '%s' of owner %s; slots iterate that owner's storage: %s" % (o["names"][fidx], adt.split("::")[-1], src_ok)
                    if src_ok and lp.pipe is not None:
                        from .ownership import lockstep, HIGH_POS as _HP
                        if o["array_is_ref"]:
                            mine = [s_ for s_ in slices_of(lp.pipe) if arrp is not None and s_[3][1] == arrp[1]]
                        else:
                            mine = [s_ for s_ in slices_of(lp.pipe) if s_[3][1] == ("field", obase, (o["array"],))]
                        v0_ = initial_cell_value(a, lp, obase, (fidx,))
                        pv = ("I", v0_) if v0_ is not None else None
                        lt_ = a.local_ty(obase[1]) if obase[0] == "local" else None
                        ta_ = [x for x in lt_["args"] if x.get("k") != "region"] if lt_ is not None and lt_.get("k") == "adt" else []
                        ls_ok, ls_det = lockstep(a, [lp.pipe], mine, pv, role, role == "consumer" and (bool(lp.backward) != bool(find_in(lp.pipe, lambda t: isinstance(t, tuple) and len(t) >= 3 and t[0] == "V" and t[1] == "iter" and t[2] == "rev"))), lp.nxt.facts, obase[0] == "local", a.tenv.size(ta_[0]) if ta_ else None)
                        det += "; " + ls_det
                        src_ok = src_ok and ls_ok
                # which end of the claimed range moves, and which way (see ownership.link_closure)
                from .ownership import LOW_POS, HIGH_POS
                pname = o["names"][fidx]
                back = bool(lp.backward)
                if find_in(lp.pipe, lambda t: isinstance(t, tuple) and len(t) >= 3 and t[0] == "V" and t[1] == "iter" and t[2] == "rev"):
                    back = not back
                ds = info.get("deltas", {}).get(pid, set())
                if role == "consumer" and ds and lp.pipe is not None and (pname in LOW_POS or pname in HIGH_POS):
                    want = -1 if back else 1
                    fits = ds == {want} and ((pname in HIGH_POS) if back else (pname in LOW_POS))
                    det += "; travelling %s, position '%s' moves by %s: %s" % ("backward" if back else "forward", pname, sorted(ds), "fits" if fits else "DOES NOT FIT")
                    src_ok = src_ok and fits
                if obase[0] == "local":
                    live = True
                    for e, st in info["at_foreign"]:
                        c = e[4]
                        dropped, has_unwind = unwind_drops(a, c)
                        if has_unwind and obase[1] not in dropped:
                            live = False
                            det += "; owner local _%d is NOT dropped on the unwind path of %s" % (obase[1], c.fn)
                    if live:
                        det += "; owner local _%d dropped on the unwind path of each of the %d foreign call(s) in the step" % (obase[1], len(info["at_foreign"]))
                    ok = src_ok and live
                else:
                    det += "; owner is *self of a &mut self method (liveness is checked at its callers)"
                    ok = src_ok
            ctx.ob(rule, "%s#position_%s" % (key0, fidx), ok, det, at=lp.nxt.at, cfg=cfg, frozen=False)
    elif role == "untracked-consumer":
        from .tys import tstr
        from .ownership import elem_of_storage
        needs = [f for f in lp.nxt.facts if f[0] == "b" and f[1][0] == "needs_drop"]
        md_ok = all(b[0] == "local" and tstr(a.local_ty(b[1])).startswith("core::mem::ManuallyDrop<") for b in slice_bases) and bool(slice_bases)
        elems = [elem_of_storage(a.local_ty(b[1])) for b in slice_bases if b[0] == "local"]
        ok = bool(elems) and all(e is not None and any(f[2] is False and f[1][1] == tstr(e) for f in needs) for e in elems)
        ctx.ob(rule, key0 + "#nodrop", ok and md_ok and len(elems) >= len(info["slots"]),
               "loop reads elements without position tracking; entered under needs_drop == false for each of the %d element types read: %s; sources are ManuallyDrop locals: %s" % (len(info["slots"]), ok, md_ok),
               at=lp.nxt.at, cfg=cfg, frozen=False)
