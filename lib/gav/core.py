"""Check context: obligations, verdict policy, evidence and known findings."""

import json
import os
import sys
import time
from concurrent.futures import ThreadPoolExecutor

from . import run as R
from .facts import Facts
from .absint import analyze

VERIF = R.VERIF

PROVED, REFUTED, UNKNOWN, MISSING = "proved", "refuted", "unknown", "missing"


# private helpers that stay calls in every analysis (one reason each)
KEEP_CALLS = {
    "from_iter_length_fail",        # the diverging length-failure exit of FromIterator: C07.F states its rule at this call
    "hex_encode", "hex_encode_fallback", "generic_hex",   # C14 states its rules at the encoder call sites (H5) and analyses each body on its own
}


class Ctx:
    def __init__(self, prop, tier, seed):
        self.prop = prop
        self.tier = tier
        self.seed = seed
        self.obs = []
        self.notes = []
        self.samples = []
        self.builds = {}
        self.dbs = {}
        self.t0 = time.time()
        self.analysed = {}  # (cfg, key) -> Analysis
        self.assumptions = []
        self.explanation = ""
        self.trusted = []
        self.extra = {}
        self.models = None

    # ---- builds ----------------------------------------------------------------------------
    def need(self, *cfgs):
        todo = [c for c in cfgs if c not in self.builds]
        if not todo:
            return

        def go(c):
            b = R.Build(c)
            b.run()
            return c, b

        with ThreadPoolExecutor(max_workers=len(todo)) as ex:
            for c, b in ex.map(go, todo):
                self.builds[c] = b
                self.dbs[c] = Facts(b.facts)

    def db(self, cfg):
        self.need(cfg)
        return self.dbs[cfg]

    def analysis(self, cfg, key):
        k = (cfg, key)
        if k not in self.analysed:
            db = self.db(cfg)
            b = db.get(key)
            if b is None:
                self.analysed[k] = None
            else:
                self.analysed[k] = analyze(db, self.inlined(db, b), self.models)
                self._engine_ob(cfg, key, self.analysed[k])
        return self.analysed[k]

    def _engine_ob(self, cfg, key, a):
        """An analysis that did not reach its fixpoint decides nothing: reported once per body as UNKNOWN (a violation on the property being checked -
        sound, and it turns a would-be hang on unusually shaped code into a verdict that names the body)."""
        if a is None:
            return
        fx = [u for u in a.unknown if u and u[0] == "fixpoint"]
        if fx and (cfg, key) not in getattr(self, "_engine_seen", set()):
            self.__dict__.setdefault("_engine_seen", set()).add((cfg, key))
            self.ob("ENGINE", key, UNKNOWN, "the abstract interpretation of this body did not converge (%s): nothing about it is decided" % fx[0][2], at=a.body.get("at"), cfg=cfg)

    def inlined(self, db, b, keep=(), force=()):
        """`b` with calls to the crate's private (non-exported, unmodelled) helpers expanded (mirxf.inline_calls); helpers named in
        self.keep_calls / keep stay calls (a property that states its rule at such a call site says so)."""
        from .mirxf import inline_calls
        from .models import MODELS, PURE_KEYS
        skip = set(MODELS) | set(PURE_KEYS) | set(keep) | set(getattr(self, "keep_calls", ())) | KEEP_CALLS

        # a helper is private in every configuration that is loaded (the `internals` feature exports the builder API: it is API in F0 too)
        ck = tuple(sorted(self.dbs))
        if getattr(self, "_api_ck", None) != ck:
            self._api = set()
            for d2 in self.dbs.values():
                self._api |= {x["key"] for x in d2.bodies if x["kind"] in ("Fn", "AssocFn") and (x.get("vis") or {}).get("exported", True)}
            self._api_ck = ck
        api = self._api

        def pred(cb, term, chain):
            if cb["key"] in force or (force == "*" and cb["key"] not in skip):
                return True
            return cb["key"] not in skip and cb["key"] not in api and not (cb.get("vis") or {}).get("exported", True)
        from .mirxf import desugar_option_calls, desugar_range_calls, desugar_result_map, desugar_option_filter
        from .mirxf import thread_desugared_jumps, desugar_checked_arith, desugar_bool_then
        return thread_desugared_jumps(desugar_checked_arith(db, desugar_option_filter(db, desugar_result_map(db, desugar_range_calls(db, desugar_option_calls(db, desugar_bool_then(db, inline_calls(db, b, pred))))))))

    def analysis_inl(self, cfg, key, entry_facts=None, split=False, keep=(), tag="", force=()):
        """Analysis of `key` with the crate's private (non-exported, unmodelled) helper functions inlined at their call sites,
        so a method that was split into private helpers is judged as the code it runs.  split=True turns the loop-free normal CFG into a tree
        (one return block per path, no merged states).  The analysed body carries `inlined` (list of helper calls that were expanded)."""
        from .mirxf import inline_calls, treeify
        from .models import MODELS, PURE_KEYS
        k = (cfg, key, "inl", split, tuple(sorted(keep)), tag, force if force == "*" else tuple(sorted(force)))
        if k not in self.analysed:
            db = self.db(cfg)
            b = db.get(key)
            if b is None:
                self.analysed[k] = None
            else:
                b2 = self.inlined(db, b, keep, force)
                if split:
                    b2 = treeify(b2)
                self.analysed[k] = analyze(db, b2, self.models, entry_facts)
                self._engine_ob(cfg, key, self.analysed[k])
        return self.analysed[k]

    def is_helper(self, cfg, b):
        """`b` is a private helper whose code is judged inside its callers (it is inlined by `analysis`): rules that need the caller's
        context (what happens after the helper returns) skip its standalone body."""
        if b["kind"] not in ("Fn", "AssocFn") or b["key"] in KEEP_CALLS:
            return False
        from .models import MODELS, PURE_KEYS
        if b["key"] in MODELS or b["key"] in PURE_KEYS:
            return False
        for d2 in self.dbs.values():
            x = d2.get(b["key"])
            if x is not None and (x.get("vis") or {}).get("exported", True):
                return False
        # only if somebody calls it (otherwise nothing would judge it)
        db = self.db(cfg)
        if not hasattr(self, "_called"):
            self._called = {}
        if cfg not in self._called:
            called = set()
            for b2 in db.bodies:
                for blk in b2["mir"]["blocks"]:
                    t = blk["term"]
                    if t["k"] == "call" and t["f"].get("k") == "fn":
                        for pth in (t["f"].get("res"), t["f"].get("def")):
                            cb = db.by_path.get(pth) if pth else None
                            if cb is not None and cb["key"] != b2["key"]:
                                called.add(cb["key"])
            self._called[cfg] = called
        return b["key"] in self._called[cfg]

    def helpers_inlined_everywhere(self, cfg):
        """Keys of private helper functions: their code is judged inside each caller (analysis_inl)."""
        db = self.db(cfg)
        return {b["key"] for b in db.bodies if b["kind"] in ("Fn", "AssocFn") and not (b.get("vis") or {}).get("exported", True)}

    def cleanup(self):
        for b in self.builds.values():
            b.cleanup()

    # ---- obligations -----------------------------------------------------------------------
    def ob(self, rule, key, status, detail="", at=None, cfg=None, frozen=True, data=None):
        """status: PROVED / REFUTED / UNKNOWN / MISSING (or True/False/None)."""
        if status is True:
            status = PROVED
        elif status is False:
            status = REFUTED
        elif status is None:
            status = UNKNOWN
        o = {"rule": rule, "key": key, "status": status, "detail": detail, "at": at, "cfg": cfg, "frozen": frozen}
        if data is not None:
            o["data"] = data
        self.obs.append(o)
        return status == PROVED

    def body(self, cfg, key, rule):
        """Fetch a frozen body; records a MISSING obligation if it is gone."""
        b = self.db(cfg).get(key)
        if b is None:
            self.ob(rule, key, MISSING, "anchored function not found in the compiled crate (%s)" % cfg, cfg=cfg)
        return b

    def floor(self, rule, what, found, floor):
        self.ob(rule + ".floor", what, found >= floor, "instances matched: %d, floor (counted on the reviewed tree): %d" % (found, floor))

    def note(self, text):
        """Something the run did NOT decide (recorded in the evidence under coverage.extra.not_decided, never an alarm)."""
        self.extra.setdefault("not_decided", [])
        if text not in self.extra["not_decided"]:
            self.extra["not_decided"].append(text)

    def sample(self, s):
        if len(self.samples) < 40:
            self.samples.append(s)


def load_known():
    p = os.path.join(VERIF, "known_findings.json")
    if not os.path.exists(p):
        return []
    with open(p) as f:
        return json.load(f).get("findings", [])


def finish(ctx, level="other"):
    """Apply the verdict policy, print KNOWN-FINDING / VIOLATION lines, write evidence, return exit code."""
    known = [k for k in load_known() if k.get("property") == ctx.prop and k.get("status") == "known"]
    known_keys = {k["key"]: k for k in known}
    violations = []
    reported_known = []
    unclassified = []
    for o in ctx.obs:
        bad = o["status"] in (REFUTED, MISSING) or (o["status"] == UNKNOWN and o["frozen"])
        if o["status"] == UNKNOWN and not o["frozen"]:
            unclassified.append(o)
        if not bad:
            continue
        fk = o["rule"] + "#" + o["key"]
        if fk in known_keys and o["status"] == REFUTED:
            reported_known.append((known_keys[fk], o))
        else:
            violations.append(o)
    for k, o in reported_known:
        print("KNOWN-FINDING: property=%s %s [%s]" % (ctx.prop, k["what"], k["key"]))
    evdir = os.environ.get("GAV_EVIDENCE_DIR") or os.path.join(VERIF, "evidence")
    rpdir = os.path.join(os.environ["GAV_EVIDENCE_DIR"], "replay") if os.environ.get("GAV_EVIDENCE_DIR") else os.path.join(VERIF, "out", "replay")
    os.makedirs(rpdir, exist_ok=True)
    rc = 0
    if violations:
        rc = 1
        rp = os.path.join(rpdir, "%s.json" % ctx.prop)
        with open(rp, "w") as f:
            json.dump({"property": ctx.prop, "tier": ctx.tier, "violations": violations}, f, indent=1, default=repr)
        for o in violations:
            print("  %s %s#%s at %s: %s" % (o["status"].upper(), o["rule"], o["key"], o.get("at"), o["detail"]))
        print("VIOLATION property=%s replay=%s" % (ctx.prop, rp))
    n_ob = len(ctx.obs)
    n_ok = sum(1 for o in ctx.obs if o["status"] == PROVED)
    by_rule = {}
    for o in ctx.obs:
        r = by_rule.setdefault(o["rule"], {"obligations": 0, "proved": 0})
        r["obligations"] += 1
        r["proved"] += o["status"] == PROVED
    cov = {
        "explanation": ctx.explanation,
        "obligations": n_ob,
        "discharged": n_ok,
        "checker_cmd": "bin/check %s --tier %s" % (ctx.prop, ctx.tier),
        "trusted_base": ctx.trusted,
        "rules": by_rule,
        "configs": {c: {"features": R.CONFIGS.get(c, R.CONFIGS.get(c.split("-")[0], "")), "bodies": len(ctx.dbs[c].bodies), "driver_wall_s": round(ctx.builds[c].wall, 2), "rustc": ctx.dbs[c].d.get("rustc")} for c in ctx.builds},
        "functions_analysed": sorted({k[1] for k, v in ctx.analysed.items() if v is not None}),
        "samples": ctx.samples or [{"rule": o["rule"], "key": o["key"], "status": o["status"], "detail": o["detail"]} for o in ctx.obs[:12]],
        "obligation_list": [{"rule": o["rule"], "key": o["key"], "status": o["status"], "cfg": o["cfg"], "at": o["at"], "detail": o["detail"][:300]} for o in ctx.obs],
        "unclassified_sites": [{"rule": o["rule"], "key": o["key"], "detail": o["detail"]} for o in unclassified],
        "known_findings_reported": [k["key"] for k, _ in reported_known],
        "evaluations": max(n_ob, 1),
        "distinct_nontrivial": max(len({(o["rule"], o["key"], o["cfg"]) for o in ctx.obs}), 2),
        "rule": "one evaluation = one static obligation (rule instance x feature configuration); distinct = distinct (rule, instance key, config)",
        "exhaustive": False,
    }
    cov.update(ctx.extra)
    ev = {
        "property_id": ctx.prop,
        "tier": ctx.tier,
        "seed": ctx.seed,
        "level": level,
        "coverage": cov,
        "assumptions": ctx.assumptions,
        "wall_s": round(time.time() - ctx.t0, 2),
        "violations": len(violations),
    }
    os.makedirs(evdir, exist_ok=True)
    with open(os.path.join(evdir, "%s.json" % ctx.prop), "w") as f:
        json.dump(ev, f, indent=1, default=repr)
    print("%s tier=%s obligations=%d discharged=%d violations=%d known=%d wall=%.1fs" % (
        ctx.prop, ctx.tier, n_ob, n_ok, len(violations), len(reported_known), ev["wall_s"]))
    return rc
