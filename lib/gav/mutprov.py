"""Write permission of pointers (a taint dataflow over MIR locals, flow-insensitive, field-insensitive).

A pointer obtained through a SHARED borrow - `&x`, `&*p`, `&raw const`, `<[T]>::as_ptr(&self)`, `ptr::from_ref`, a shared `Deref` / `Index` /
`get_unchecked`, `as_slice` .. - only carries read permission, whatever it is cast to afterwards (`as *mut T`, `cast_mut()`): writing through it, or
turning it back into a `&mut`, is undefined behaviour (and is exactly what the compile-time evaluator rejects: "writing through a pointer that
was derived from a shared reference"). The analysis marks locals that hold such pointers and reports the places that claim write permission for them:
`&mut *p`, `&raw mut *p`, `from_raw_parts_mut(p, ..)`, `ptr::write*(p, ..)`, `copy*(.., p, ..)` destinations, `drop_in_place(p)`.

Sound for what it tracks (over-approximate: a local that ever held a shared-derived pointer stays marked; aggregates are marked as a whole);
interior mutability (`UnsafeCell::get`, `Cell::as_ptr`) legitimately yields write permission from a shared reference and cleans the mark."""

SHARED_SOURCES = (
    "core::slice::<impl [T]>::as_ptr", "core::slice::<impl [T]>::as_ptr_range", "core::ptr::from_ref", "core::ops::Deref::deref", "core::ops::Index::index",
    "core::slice::<impl [T]>::get_unchecked", "core::slice::<impl [T]>::get", "core::slice::<impl [T]>::iter", "core::slice::<impl [T]>::split_at",
    "core::slice::<impl [T]>::split_at_unchecked", "core::slice::<impl [T]>::first", "core::slice::<impl [T]>::last", "core::slice::<impl [T]>::chunks",
    "core::slice::<impl [T]>::chunks_exact", "core::array::<impl [T; N]>::as_slice", "core::mem::MaybeUninit::<T>::as_ptr", "core::convert::AsRef::as_ref",
    "core::borrow::Borrow::borrow", "core::slice::from_raw_parts", "core::ptr::slice_from_raw_parts", "core::slice::from_ref", "core::array::from_ref",
    "core::mem::ManuallyDrop::<T>::deref",
)
CLEANERS = ("core::cell::UnsafeCell::<T>::get", "core::cell::UnsafeCell::<T>::raw_get", "core::cell::Cell::<T>::as_ptr", "core::cell::RefCell::<T>::as_ptr",
            "core::sync::atomic::", "core::cell::UnsafeCell::<T>::get_mut")
PLUMBING = ("core::ptr::const_ptr::", "core::ptr::mut_ptr::", "core::ptr::NonNull::<T>::", "core::ptr::non_null::", "core::intrinsics::", "core::mem::transmute",
            "core::ptr::from_mut", "core::ptr::slice_from_raw_parts_mut", "core::ptr::metadata::", "core::convert::Into::into", "core::convert::From::from")
WRITE_SINKS = {  # callee -> indices of pointer arguments that need write permission
    "core::slice::from_raw_parts_mut": (0,), "core::ptr::slice_from_raw_parts_mut": (), "core::ptr::write": (0,), "core::ptr::write_unaligned": (0,),
    "core::ptr::write_volatile": (0,), "core::ptr::write_bytes": (0,), "core::ptr::copy": (1,), "core::ptr::copy_nonoverlapping": (1,),
    "core::ptr::swap": (0, 1), "core::ptr::swap_nonoverlapping": (0, 1), "core::ptr::replace": (0,), "core::ptr::drop_in_place": (0,),
    "core::ptr::mut_ptr::<impl *mut T>::write": (0,), "core::ptr::mut_ptr::<impl *mut T>::write_bytes": (0,), "core::ptr::mut_ptr::<impl *mut T>::drop_in_place": (0,),
    "core::ptr::mut_ptr::<impl *mut T>::as_mut": (0,), "core::ptr::mut_ptr::<impl *mut T>::as_uninit_mut": (0,), "core::ptr::NonNull::<T>::as_mut": (0,),
    "core::mem::MaybeUninit::<T>::write": (),
}


def _is_ptr_ty(t):
    return t is not None and t.get("k") in ("ref", "ptr")


def _holds_ptr(t, depth=0):
    if t is None or depth > 4:
        return False
    k = t.get("k")
    if k in ("ref", "ptr"):
        return True
    if k == "tuple":
        return any(_holds_ptr(x, depth + 1) for x in t["ts"])
    if k == "adt":
        return t["def"] in ("core::ptr::NonNull", "core::ops::Range", "core::option::Option") and any(_holds_ptr(x, depth + 1) for x in t.get("args", []) if x.get("k") != "region")
    return False


def _op_local(o):
    return o["p"]["l"] if o.get("k") in ("copy", "move") else None


def analyse(body):
    """Returns (tainted locals, findings[(at, description)])."""
    mir = body["mir"]
    locs = mir["locals"]
    # a shared-reference PARAMETER is a shared-derived pointer from the start
    tainted = set()
    why = {}
    for i in range(1, mir["arg_count"] + 1):
        t = locs[i]["ty"]
        if t.get("k") == "ref" and not t.get("mut"):
            tainted.add(i)
            why[i] = "parameter _%d is a shared reference" % i
        elif t.get("k") == "ptr" and not t.get("mut"):
            pass  # a *const parameter: permission unknown (the caller's business)
    changed = True

    def mark(l, reason):
        nonlocal changed
        if l is not None and l not in tainted and _holds_ptr(locs[l]["ty"]):
            tainted.add(l)
            why[l] = reason
            changed = True

    def place_root_ptr(p):
        """The local whose pointer value a place dereferences first (None if the place is not behind a deref)."""
        return p["l"] if "*" in p["p"] else None
    rounds = 0
    while changed and rounds < 50:
        changed = False
        rounds += 1
        for blk in mir["blocks"]:
            for s in blk["stmts"]:
                if s["k"] != "assign":
                    continue
                lhs, rv = s["lhs"], s["rv"]
                k = rv["k"]
                dst = lhs["l"]
                if k in ("ref", "rawptr"):
                    root = place_root_ptr(rv["p"])
                    if not rv.get("mut"):
                        mark(dst, "shared borrow at %s" % s.get("at"))
                    elif root is not None and root in tainted:
                        mark(dst, "reborrow of shared-derived _%d" % root)   # also a finding (sink) - reported below
                elif k in ("use", "cast"):
                    l = _op_local(rv["op"])
                    if l in tainted:
                        mark(dst, why.get(l, ""))
                elif k == "bin":
                    for o in (rv["a"], rv["b"]):
                        if _op_local(o) in tainted:
                            mark(dst, why.get(_op_local(o), ""))
                elif k == "agg":
                    for o in rv["ops"]:
                        if _op_local(o) in tainted:
                            mark(dst, why.get(_op_local(o), ""))
                elif k == "un":
                    pass
            t = blk["term"]
            if t["k"] == "call" and t["f"].get("k") == "fn":
                fn = t["f"]["def"]
                dst = t["dest"]["l"]
                args = [_op_local(a) for a in t["args"]]
                if any(fn.startswith(c) for c in CLEANERS):
                    continue
                if fn in SHARED_SOURCES or (fn.endswith("::as_ptr") and not fn.endswith("as_mut_ptr")) or fn.endswith("::as_slice") or fn.endswith("::as_ref"):
                    mark(dst, "%s at %s" % (fn.split("::")[-1], t.get("at")))
                elif any(a in tainted for a in args if a is not None) and (fn.startswith(PLUMBING) or t["f"].get("local") or t["f"].get("res_local")):
                    # pointer plumbing (add, cast, cast_mut, offset, NonNull::new ..) and the crate's own functions: the result may be the same pointer.
                    # Safe std functions cannot turn a shared argument into a mutable result, so they do not propagate.
                    mark(dst, why.get(next(a for a in args if a in tainted), ""))
    findings = []
    for blk in mir["blocks"]:
        if blk["cleanup"]:
            continue
        for s in blk["stmts"]:
            if s["k"] == "assign" and s["rv"]["k"] in ("ref", "rawptr") and s["rv"].get("mut"):
                root = place_root_ptr(s["rv"]["p"])
                if root is not None and root in tainted:
                    findings.append((s.get("at"), "a mutable borrow `&mut *_%d` is taken through a pointer derived from a shared borrow (%s)" % (root, why.get(root, "?"))))
            if s["k"] == "assign" and "*" in s["lhs"]["p"] and s["lhs"]["l"] in tainted:
                findings.append((s.get("at"), "a store through `*_%d`, a pointer derived from a shared borrow (%s)" % (s["lhs"]["l"], why.get(s["lhs"]["l"], "?"))))
        t = blk["term"]
        if t["k"] == "call" and t["f"].get("k") == "fn":
            fn = t["f"]["def"]
            for i in WRITE_SINKS.get(fn, ()):
                if i < len(t["args"]) and _op_local(t["args"][i]) in tainted:
                    l = _op_local(t["args"][i])
                    findings.append((t.get("at"), "%s receives _%d, a pointer derived from a shared borrow (%s): the result claims write permission the pointer does not have" % (fn.split("::")[-1], l, why.get(l, "?"))))
    return tainted, findings
