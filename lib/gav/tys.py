"""Helpers over the exported type JSON: canonical strings, type-level lengths, symbolic sizes."""

from .poly import Poly

GA = "GenericArray"
TYPENUM_UINT = "typenum::UInt"
TYPENUM_UTERM = "typenum::UTerm"
TYPENUM_B0 = "typenum::B0"
TYPENUM_B1 = "typenum::B1"

PRIM_SIZE = {
    "u8": 1, "i8": 1, "bool": 1, "u16": 2, "i16": 2, "u32": 4, "i32": 4, "char": 4, "f32": 4,
    "u64": 8, "i64": 8, "f64": 8, "usize": 8, "isize": 8, "u128": 16, "i128": 16,
}


def tstr(t):
    """Canonical string of a type JSON (regions erased)."""
    k = t.get("k")
    if k in ("prim", "param", "cparam"):
        return t["n"]
    if k == "adt":
        a = [tstr(x) for x in t["args"] if x.get("k") != "region"]
        return t["def"] + ("<" + ", ".join(a) + ">" if a else "")
    if k == "alias":
        a = [tstr(x) for x in t["args"] if x.get("k") != "region"]
        return "<" + ", ".join(a) + ">::" + t["def"]
    if k == "ref":
        return "&" + ("mut " if t["mut"] else "") + tstr(t["t"])
    if k == "ptr":
        return "*" + ("mut " if t["mut"] else "const ") + tstr(t["t"])
    if k == "slice":
        return "[" + tstr(t["t"]) + "]"
    if k == "array":
        return "[" + tstr(t["t"]) + "; " + tstr(t["n"]) + "]"
    if k == "tuple":
        return "(" + ", ".join(tstr(x) for x in t["ts"]) + ")"
    if k == "int":
        return str(t["v"])
    if k == "uneval":
        return t["def"] + "<" + ", ".join(tstr(x) for x in t["args"]) + ">"
    if k == "region":
        return "'_"
    if k in ("fndef", "closure"):
        return k + " " + t["def"]
    return t.get("s", "?")


def is_adt(t, name):
    return t.get("k") == "adt" and (t["def"] == name or t["def"].endswith("::" + name))


def adt_args(t):
    return [x for x in t["args"] if x.get("k") != "region"]


def is_ga(t):
    return t.get("k") == "adt" and t["def"] == GA


def strip_wrappers(t):
    """ManuallyDrop<X> / MaybeUninit<X> -> X (same layout as X)."""
    while t.get("k") == "adt" and t["def"] in ("core::mem::ManuallyDrop", "core::mem::MaybeUninit"):
        t = adt_args(t)[0]
    return t


def pointee(t):
    if t.get("k") in ("ref", "ptr"):
        return t["t"]
    if t.get("k") == "adt" and t["def"] == "alloc::boxed::Box":
        return adt_args(t)[0]
    return None


def unify(pat, ty, sub):
    """Match a type pattern with type/const parameters against a type; extends sub (param name -> type). Regions ignored."""
    k = pat.get("k")
    if k in ("param", "cparam"):
        if pat["n"] in sub:
            return tstr(sub[pat["n"]]) == tstr(ty)
        sub[pat["n"]] = ty
        return True
    if k != ty.get("k"):
        return False
    if k == "adt":
        if pat["def"] != ty["def"]:
            return False
        pa, ta = adt_args(pat), adt_args(ty)
        return len(pa) == len(ta) and all(unify(x, y, sub) for x, y in zip(pa, ta))
    if k in ("ref", "ptr"):
        return pat["mut"] == ty["mut"] and unify(pat["t"], ty["t"], sub)
    if k == "slice":
        return unify(pat["t"], ty["t"], sub)
    if k == "array":
        return unify(pat["t"], ty["t"], sub) and unify(pat["n"], ty["n"], sub)
    if k == "tuple":
        return len(pat["ts"]) == len(ty["ts"]) and all(unify(x, y, sub) for x, y in zip(pat["ts"], ty["ts"]))
    return tstr(pat) == tstr(ty)


def subst(ty, sub):
    k = ty.get("k")
    if k in ("param", "cparam"):
        return sub.get(ty["n"], ty)
    out = dict(ty)
    if "args" in ty:
        out["args"] = [subst(x, sub) if x.get("k") != "region" else x for x in ty["args"]]
    if "t" in ty and isinstance(ty["t"], dict):
        out["t"] = subst(ty["t"], sub)
    if "ts" in ty:
        out["ts"] = [subst(x, sub) for x in ty["ts"]]
    if k == "array":
        out["n"] = subst(ty["n"], sub)
    return out


class TyEnv:
    """Per-function environment: equalities between type-level lengths from the where-clauses."""

    db = None  # set by the analysis: crate facts, used to resolve associated types of crate-local impls

    def resolve_local_assoc(self, alias):
        """<Self as LocalTrait<..>>::Name  ->  the type the matching crate-local impl assigns (None if not unique)."""
        if self.db is None:
            return None
        trait = "::".join(alias["def"].split("::")[:-1])
        name = alias["def"].split("::")[-1]
        args = [x for x in alias["args"] if x.get("k") != "region"]
        hits = []
        for imp in self.db.impls:
            if imp.get("trait") != trait:
                continue
            targs = [x for x in imp["trait_args"] if x.get("k") != "region"]
            if len(targs) != len(args):
                continue
            sub = {}
            if all(unify(p, a, sub) for p, a in zip(targs, args)):
                for it in imp["items"]:
                    if it["name"] == name and "ty" in it:
                        hits.append(subst(it["ty"], sub))
        if len(hits) == 1:
            return hits[0]
        return None

    def __init__(self, predicates=None):
        # map canonical alias string -> type json it equals
        self.eq = {}
        self.param_eq = {}  # type parameter name -> alias type it is required to equal
        self.side = []  # side facts (rel, Poly)
        for p in predicates or []:
            if p.get("k") == "proj":
                alias = {"k": "alias", "kind": "Projection", "def": p["def"], "args": p["args"]}
                if p["term"].get("k") == "param":
                    self.param_eq[p["term"]["n"]] = alias
                else:
                    self.eq[tstr(alias)] = p["term"]

    # ---- type-level lengths ----------------------------------------------------------------
    def length(self, t, _depth=0):
        """Poly for <t as Unsigned>::USIZE."""
        k = t.get("k")
        if k == "param":
            if t["n"] in self.param_eq and _depth < 4:
                al = self.param_eq[t["n"]]
                # only length-defining projections are followed (Const<U>: IntoArrayLength<ArrayLength = N>)
                if al["def"] in ("IntoArrayLength::ArrayLength", "typenum::ToUInt::Output"):
                    return self.length(al, _depth + 1)
            return Poly.atom(("L", t["n"]))
        if k == "cparam":
            return Poly.atom(("C", t["n"]))
        if k == "int":
            return Poly.const(t["v"])
        if k == "adt":
            d = t["def"]
            if d.startswith("generic_array::typenum::"):
                d = d[len("generic_array::"):]  # typenum seen through the crate's re-export (witness crates)
            if d == TYPENUM_UTERM:
                return Poly.const(0)
            if d == TYPENUM_UINT:
                a = adt_args(t)
                return self.length(a[0]) * Poly.const(2) + self.length(a[1])
            if d == TYPENUM_B0:
                return Poly.const(0)
            if d == TYPENUM_B1:
                return Poly.const(1)
            if d == "typenum::Const":
                return self.length(adt_args(t)[0])
        if k == "alias":
            s = tstr(t)
            if s in self.eq and _depth < 4:
                return self.length(self.eq[s], _depth + 1)
            d = t["def"]
            a = adt_args(t) if "args" in t else []
            a = [x for x in t["args"] if x.get("k") != "region"]
            if d == "core::ops::Add::Output":
                return self.length(a[0]) + self.length(a[1])
            if d == "core::ops::Sub::Output":
                la, lb = self.length(a[0]), self.length(a[1])
                # typenum implements Sub only when the result is non-negative
                self.side.append((">=", la - lb))
                return la - lb
            if d == "core::ops::Mul::Output":
                return self.length(a[0]) * self.length(a[1])
            if d == "core::ops::Div::Output":
                la, lb = self.length(a[0]), self.length(a[1])
                return Poly.atom(("div", la, lb))
            if d == "IntoArrayLength::ArrayLength":
                return self.length(a[0])
            if d == "typenum::ToUInt::Output":
                return self.length(a[0])
            r = self.resolve_local_assoc(t) if _depth < 4 else None
            if r is not None:
                return self.length(r, _depth + 1)
        return Poly.atom(("L", tstr(t)))

    # ---- symbolic sizes in bytes -----------------------------------------------------------
    def size(self, t):
        k = t.get("k")
        if k == "prim":
            if t["n"] in PRIM_SIZE:
                return Poly.const(PRIM_SIZE[t["n"]])
            return Poly.atom(("S", t["n"]))
        if k == "param":
            return Poly.atom(("S", t["n"]))
        if k == "tuple" and not t["ts"]:
            return Poly.const(0)
        if k == "array":
            return self.length(t["n"]) * self.size(t["t"])
        if k == "adt":
            d = t["def"]
            if d == GA:
                a = adt_args(t)
                return self.length(a[1]) * self.size(a[0])
            if d in ("core::mem::ManuallyDrop", "core::mem::MaybeUninit"):
                return self.size(adt_args(t)[0])
        if k in ("ref", "ptr"):
            inner = t["t"]
            if inner.get("k") in ("slice",) or tstr(inner) == "str":
                return Poly.const(16)
            return Poly.const(8)
        return Poly.atom(("S", tstr(t)))

    def elem_count(self, t, elem):
        """Number of `elem`-typed elements in t as a Poly (None if t is not an array of elem)."""
        t = strip_wrappers(t)
        e = strip_wrappers(elem)
        if tstr(t) == tstr(e):
            return Poly.const(1)
        if t.get("k") == "array":
            c = self.elem_count(t["t"], elem)
            return None if c is None else self.length(t["n"]) * c
        if is_ga(t):
            a = adt_args(t)
            c = self.elem_count(a[0], elem)
            return None if c is None else self.length(a[1]) * c
        return None


def skeleton(ts, names=None):
    """Canonical string of a list of types with type/const parameters renamed positionally."""
    names = {} if names is None else names

    def go(t):
        k = t.get("k")
        if k in ("param", "cparam"):
            if t["n"] not in names:
                names[t["n"]] = "$%d" % len(names)
            return names[t["n"]]
        if k == "adt":
            a = [go(x) for x in t["args"] if x.get("k") != "region"]
            return t["def"] + ("<" + ",".join(a) + ">" if a else "")
        if k == "alias":
            a = [go(x) for x in t["args"] if x.get("k") != "region"]
            return "<" + ",".join(a) + ">::" + t["def"]
        if k == "ref":
            return "&" + ("mut " if t["mut"] else "") + go(t["t"])
        if k == "ptr":
            return "*" + ("mut " if t["mut"] else "const ") + go(t["t"])
        if k == "slice":
            return "[" + go(t["t"]) + "]"
        if k == "array":
            return "[" + go(t["t"]) + ";" + go(t["n"]) + "]"
        if k == "tuple":
            return "(" + ",".join(go(x) for x in t["ts"]) + ")"
        if k == "region":
            return "'_"
        return tstr(t)

    return [go(t) for t in ts], names
