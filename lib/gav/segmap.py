"""Symbolic byte-provenance of values built by raw moves (ptr::read / write / copy, transmute_copy, const_transmute, slice::swap,
repr(C) pairs): for the result of a straight-line unsafe body, which bytes of which *input* does each byte come from.

A provenance is a list of segments (start, end, origin object, origin offset) with symbolic (Poly) boundaries that are provably ordered
under the path's facts; origin None = uninitialised.  The engine replays the raw operations of one path in order and keeps, per storage
object, such a list.  Everything is decided with the inequality prover; whatever it cannot order makes the engine give up (None), which the
caller reports as "not decided", never as success."""

from .poly import Poly, prove
from .tys import tstr, adt_args, is_ga, strip_wrappers

ZERO = Poly.const(0)


class Segs:
    """Immutable list of (start, end, org, ooff), contiguous from 0 to total."""

    def __init__(self, items, total):
        self.items = list(items)
        self.total = total

    def __repr__(self):
        return "; ".join("[%r,%r)<-%s" % (s, e, "uninit" if o is None else "%s+%r" % (oname(o), f)) for s, e, o, f in self.items)


def oname(o):
    if isinstance(o, tuple) and o and o[0] == "arg":
        return "arg%d" % o[1]
    return repr(o)


class Engine:
    def __init__(self, a, facts):
        self.a = a
        self.pf = a.poly_facts(frozenset(facts))
        self.content = {}   # base -> Segs
        self.valprov = {}   # repr(value) -> (Segs, type json or None)
        self.log = []
        self.fail = None

    # ---- prover shorthands ---------------------------------------------------------------------
    def le(self, x, y):
        return prove((">=", y - x), self.pf)

    def eq(self, x, y):
        return prove(("==", x - y), self.pf)

    def giveup(self, why):
        if self.fail is None:
            self.fail = why
        return None

    # ---- segment algebra ------------------------------------------------------------------------
    def norm(self, segs):
        out = []
        for s, e, o, f in segs.items:
            if self.eq(s, e):
                continue
            if out and out[-1][2] == o and (o is None or self.eq(out[-1][3] + (out[-1][1] - out[-1][0]), f)):
                ps, pe, po, pf_ = out[-1]
                out[-1] = (ps, e, po, pf_)
            else:
                out.append((s, e, o, f))
        return Segs(out, segs.total)

    def locate(self, segs, x):
        """index i with start_i <= x <= end_i (first such), or None."""
        for i, (s, e, o, f) in enumerate(segs.items):
            if self.le(s, x) and self.le(x, e):
                return i
        if not segs.items and self.eq(x, ZERO):
            return -1
        return None

    def slice(self, segs, a, b):
        """Segments of [a, b) rebased to start at 0 (None if a / b cannot be placed)."""
        if not self.le(a, b):
            return self.giveup("cannot order %r <= %r" % (a, b))
        if not (self.le(ZERO, a) and self.le(b, segs.total)):
            return self.giveup("range [%r, %r) not provably inside an object of %r bytes" % (a, b, segs.total))
        i, j = self.locate(segs, a), self.locate(segs, b)
        if i is None or j is None:
            return self.giveup("cannot place byte %r or %r among the segment boundaries of %r" % (a, b, segs))
        if i == -1:
            return Segs([], ZERO)
        if j < i:
            # b lies in an earlier-or-equal segment although a <= b: both at a shared boundary -> empty range
            return Segs([], ZERO) if self.eq(a, b) else self.giveup("boundaries of %r not ordered around [%r, %r)" % (segs, a, b))
        out = []
        for k in range(i, j + 1):
            s, e, o, f = segs.items[k]
            s2 = a if k == i else s
            e2 = b if k == j else e
            f2 = None if o is None else f + (s2 - s)
            out.append((s2 - a, e2 - a, o, f2 if o is not None else ZERO))
        return self.norm(Segs(out, b - a))

    def overwrite(self, segs, a, new):
        """segs with [a, a + new.total) replaced by `new`."""
        b = a + new.total
        left = self.slice(segs, ZERO, a)
        right = self.slice(segs, b, segs.total)
        if left is None or right is None:
            return None
        items = list(left.items)
        items += [(s + a, e + a, o, f) for s, e, o, f in new.items]
        items += [(s + b, e + b, o, f) for s, e, o, f in right.items]
        return self.norm(Segs(items, segs.total))

    def concat(self, parts):
        items, off = [], ZERO
        for p in parts:
            items += [(s + off, e + off, o, f) for s, e, o, f in p.items]
            off = off + p.total
        return self.norm(Segs(items, off))

    # ---- objects and values -------------------------------------------------------------------------
    def whole(self, org, size):
        return Segs([(ZERO, size, org, ZERO)], size)

    def uninit(self, size):
        return Segs([(ZERO, size, None, ZERO)], size)

    def size_of(self, ty, depth=0):
        if ty is None:
            return None
        while ty.get("k") == "adt" and ty["def"] in ("core::mem::ManuallyDrop", "core::mem::MaybeUninit") and ty.get("args") and depth < 6:
            ty = adt_args(ty)[0]   # transparent wrappers: the size of what they wrap
            depth += 1
        if ty.get("k") == "adt" and ty["def"] in self.a.db.adts and ty["def"] != "GenericArray" and depth < 4:
            # a crate-local struct: a transparent single-field wrapper, or a repr(C) run of same-element fields (no padding)
            lay = self.field_layout(ty["def"], ty, depth + 1)
            if lay is not None:
                tot = ZERO
                for off, ft, i in lay:
                    sz = self.size_of(ft, depth + 1)
                    if sz is None:
                        return None
                    tot = tot + sz
                return tot
        try:
            return self.a.tenv.size(ty)
        except Exception:
            return None

    def content_of(self, base, at_mem):
        """Current provenance of a storage object; initialised on first use from what the abstract state says the object holds."""
        if base in self.content:
            return self.content[base]
        a = self.a
        if base[0] == "local":
            ty = a.local_ty(base[1])
            size = self.size_of(ty)
            if size is None:
                return self.giveup("size of local _%d unknown" % base[1])
            held = at_mem.get((base, ()))
            pv = self.prov(held, ty) if held is not None else None
            if pv is not None and pv[0].total is not None and self.eq(pv[0].total, size):
                self.content[base] = pv[0]
            elif held is not None and isinstance(held, tuple) and held[0] == "V" and held[1] in ("ret",) and "uninit" in repr(held):
                self.content[base] = self.uninit(size)
            elif held is None or (isinstance(held, tuple) and held[0] == "V" and held[1] in ("uninit",)):
                self.content[base] = self.uninit(size)
            else:
                # a MaybeUninit::uninit() result or any other opaque value: treat as uninitialised storage only for MaybeUninit-typed locals
                if tstr(ty).startswith("core::mem::MaybeUninit<"):
                    self.content[base] = self.uninit(size)
                else:
                    return self.giveup("contents of local _%d (%s) not understood: %r" % (base[1], tstr(ty), held))
            return self.content[base]
        if base[0] == "arg":
            from .tys import pointee
            pt = pointee(a.local_ty(base[1]))
            size = self.size_of(pt)
            if size is None:
                return self.giveup("size of *arg%d unknown" % base[1])
            self.content[base] = self.whole(("argref", base[1]), size)
            return self.content[base]
        if base[0] == "field" and isinstance(base[1], tuple) and base[1][0] == "local" and len(base[2]) == 1 and isinstance(base[2][0], int):
            # a field of a local that holds a whole by-value parameter (directly or inside ManuallyDrop - a transparent wrapper): the bytes of that
            # parameter's field, wherever the (unspecified) struct layout puts it
            held = at_mem.get((base[1], ()))
            lt = a.local_ty(base[1][1])
            while lt is not None and lt.get("k") == "adt" and lt["def"] in ("core::mem::ManuallyDrop", "core::mem::MaybeUninit"):
                lt = adt_args(lt)[0]
            adt = a.db.adts.get(lt["def"]) if lt is not None and lt.get("k") == "adt" else None
            if isinstance(held, tuple) and len(held) == 3 and held[0] == "V" and held[1] == "arg" and isinstance(held[2], int) and adt is not None \
                    and adt.get("kind") == "Struct" and base[2][0] < len(adt["fields"]):
                from .mirxf import subst_types
                gen = [g["n"] for g in adt.get("generics", []) if g.get("kind") in ("type", "const")]
                targs = [x for x in (lt.get("args") or []) if x.get("k") != "region"]
                if len(gen) == len(targs):
                    fty = subst_types(adt["fields"][base[2][0]]["ty"], dict(zip(gen, targs)))
                    size = self.size_of(fty)
                    if size is not None:
                        self.content[base] = self.whole(("field", ("arg", held[2]), base[2]), size)
                        return self.content[base]
        return self.giveup("storage object %r not understood" % (base,))

    def field_layout(self, adt_path, ty, depth=0):
        """[(offset, field type)] for a crate-local repr(C) struct / transparent wrapper instantiated as `ty`, or None."""
        a = self.a
        adt = a.db.adts.get(adt_path)
        if adt is None or adt.get("kind") not in ("Struct", "struct", None) and adt.get("kind") != "Struct":
            pass
        if adt is None:
            return None
        gen = [g["n"] for g in adt.get("generics", []) if g.get("kind") in ("type", "const")]
        targs = [x for x in (ty.get("args") or []) if x.get("k") != "region"] if ty is not None else []
        if len(gen) != len(targs):
            return None
        from .mirxf import subst_types
        m = dict(zip(gen, targs))
        ftys = [subst_types(f["ty"], m) for f in adt["fields"]]
        nz = [(i, t) for i, t in enumerate(ftys) if not tstr(t).startswith("core::marker::PhantomData")]
        if len(nz) == 1:
            return [(ZERO, nz[0][1], nz[0][0])]
        if not (adt.get("repr") or {}).get("c"):
            return None
        # repr(C): fields in order; no padding between fields whose sizes are multiples of one element type's size
        elems = {tstr(elem_type(t)) for _, t in nz}
        if len(elems) != 1:
            return None
        out, off = [], ZERO
        for i, t in nz:
            out.append((off, t, i))
            sz = self.size_of(t, depth + 1)
            if sz is None:
                return None
            off = off + sz
        return out

    def prov(self, v, ty=None):
        """(Segs, type) of a by-value term, or None."""
        a = self.a
        if v is None:
            return None
        k = repr(v)
        if k in self.valprov:
            return self.valprov[k]
        if isinstance(v, tuple) and len(v) == 3 and v[0] == "V" and v[1] == "arg" and isinstance(v[2], int):
            t = a.local_ty(v[2])
            sz = self.size_of(t)
            if sz is None:
                return None
            return (self.whole(("arg", v[2]), sz), t)
        if isinstance(v, tuple) and len(v) == 3 and v[0] == "V" and v[1] == "cell@" and isinstance(v[2], tuple) and len(v[2]) == 2 and isinstance(v[2][0], tuple) and v[2][0][1] == () \
                and v[2][0][0] in self.content:
            # a whole local read after calls that wrote into it through a pointer: what the replay says it holds now
            b_ = v[2][0][0]
            return (self.content[b_], ty if ty is not None else (a.local_ty(b_[1]) if b_[0] == "local" else None))
        if isinstance(v, tuple) and v[0] == "A" and isinstance(v[1], tuple) and v[1][0] == "adt":
            path = v[1][1]
            if ty is not None and ty.get("k") == "adt" and ty["def"] in ("core::mem::ManuallyDrop", "core::mem::MaybeUninit") and path != ty["def"] and ty.get("args"):
                return self.prov(v, adt_args(ty)[0])   # the wrapper is transparent: the value of the inner type, seen through it
            if path in ("core::mem::ManuallyDrop", "core::mem::MaybeUninit") and len(v[2]) >= 1:
                inner = adt_args(ty)[0] if ty is not None and ty.get("k") == "adt" and ty.get("args") else None
                return self.prov(v[2][0], inner)
            if ty is not None and ty.get("k") == "adt" and ty["def"] == path:
                lay = self.field_layout(path, ty)
                if lay is None:
                    return None
                parts = []
                for off, ft, i in lay:
                    p = self.prov(v[2][i], ft)
                    if p is None or not self.eq(p[0].total, self.size_of(ft)):
                        return None
                    parts.append(p[0])
                return (self.concat(parts), ty)
            return None
        if isinstance(v, tuple) and len(v) == 3 and v[0] == "V" and v[1] == "proj" and isinstance(v[2], tuple) and v[2][0] == "proj":
            parent, path = v[2][1], v[2][2]
            if isinstance(parent, tuple) and parent[0] == "A" and isinstance(parent[1], tuple) and parent[1][0] == "adt" and (a.db.adts.get(parent[1][1]) or {}).get("kind") == "Union":
                # reading a union through another field: all fields live at offset 0 - the bytes of the field that was written, cut to the size read
                act = self.prov(parent[2][0], None) if parent[2] else None
                sz = self.size_of(ty) if ty is not None else None
                if act is None or sz is None:
                    return None
                sl = self.slice(act[0], ZERO, sz)
                return None if sl is None else (sl, ty)
            pp = self.prov(parent)
            if pp is None or pp[1] is None:
                return None
            segs, pty = pp
            for f in path:
                if not isinstance(f, int) or pty is None or pty.get("k") != "adt":
                    return None
                if pty["def"] in ("core::mem::ManuallyDrop", "core::mem::MaybeUninit"):
                    pty = adt_args(pty)[0]
                    continue
                lay = self.field_layout(pty["def"], pty)
                if lay is None:
                    return None
                hit = [(off, ft) for off, ft, i in lay if i == f]
                if not hit:
                    return None
                off, ft = hit[0]
                segs = self.slice(segs, off, off + self.size_of(ft))
                if segs is None:
                    return None
                pty = ft
            return (segs, pty)
        return None

    # ---- replay ------------------------------------------------------------------------------------
    def replay(self, calls, stores=()):
        """calls: CallSites of one path in execution order."""
        a = self.a
        te = a.tenv
        for c in calls:
            if self.fail:
                return False
            fn = c.fn
            if fn in ("core::ptr::read", "core::ptr::read_unaligned") and c.args[0][0] == "P":
                p = c.args[0]
                ty = c.targs[0]
                cont = self.content_of(p[1], c.mem)
                if cont is None:
                    return False
                sl = self.slice(cont, p[2], p[2] + te.size(ty))
                if sl is None:
                    return False
                self.valprov[repr(c.ret)] = (sl, ty)
                self.log.append("read %s @%r+%r -> %r" % (tstr(ty), p[1], p[2], sl))
            elif fn == "core::mem::transmute_copy" and c.args[0][0] == "P":
                p = c.args[0]
                ty = c.targs[1]
                cont = self.content_of(p[1], c.mem)
                if cont is None:
                    return False
                sl = self.slice(cont, p[2], p[2] + te.size(ty))
                if sl is None:
                    return False
                self.valprov[repr(c.ret)] = (sl, ty)
                self.log.append("transmute_copy -> %r" % (sl,))
            elif fn in ("core::ptr::write", "core::mem::MaybeUninit::<T>::write") and c.args[0][0] == "P":
                p = c.args[0]
                ty = c.targs[0]
                pv = self.prov(c.args[1], ty)
                if pv is None:
                    return bool(self.giveup("provenance of the value written at %s unknown: %r" % (c.at, c.args[1])))
                cont = self.content_of(p[1], c.mem)
                if cont is None:
                    return False
                nc = self.overwrite(cont, p[2], pv[0])
                if nc is None:
                    return False
                self.content[p[1]] = nc
                self.log.append("write @%r+%r <- %r" % (p[1], p[2], pv[0]))
            elif fn in ("core::ptr::replace", "core::mem::replace") and c.args[0][0] == "P" and c.targs:
                # `replace(dst, v)`: what dst held is the result, v takes its place (a read followed by a write of the same extent)
                p = c.args[0]
                ty = c.targs[0]
                cont = self.content_of(p[1], c.mem)
                if cont is None:
                    return False
                sl = self.slice(cont, p[2], p[2] + te.size(ty))
                pv = self.prov(c.args[1], ty)
                if sl is None or pv is None:
                    return bool(self.giveup("replace at %s: provenance of the old or the new value unknown" % (c.at,)))
                nc = self.overwrite(cont, p[2], pv[0])
                if nc is None:
                    return False
                self.content[p[1]] = nc
                self.valprov[repr(c.ret)] = (sl, ty)
                self.log.append("replace @%r+%r: out %r, in %r" % (p[1], p[2], sl, pv[0]))
            elif fn in ("core::ptr::copy", "core::ptr::copy_nonoverlapping") and c.args[0][0] == "P" and c.args[1][0] == "P":
                n = a.as_poly(c.args[2])
                if n is None:
                    return bool(self.giveup("copy count unknown"))
                nbytes = n * te.size(c.targs[0])
                src, dst = c.args[0], c.args[1]
                sc = self.content_of(src[1], c.mem)
                if sc is None:
                    return False
                sl = self.slice(sc, src[2], src[2] + nbytes)
                if sl is None:
                    return False
                dc = self.content_of(dst[1], c.mem)
                if dc is None:
                    return False
                nc = self.overwrite(dc, dst[2], sl)
                if nc is None:
                    return False
                self.content[dst[1]] = nc
                self.log.append("copy %r bytes @%r+%r -> @%r+%r" % (nbytes, src[1], src[2], dst[1], dst[2]))
            elif fn == "core::slice::<impl [T]>::swap" and c.args[0][0] == "P":
                p = c.args[0]
                S = te.size(c.targs[0])
                i, j = a.as_poly(c.args[1]), a.as_poly(c.args[2])
                cont = self.content_of(p[1], c.mem)
                if cont is None or i is None or j is None:
                    return bool(self.giveup("swap operands unknown"))
                si = self.slice(cont, p[2] + i * S, p[2] + i * S + S)
                sj = self.slice(cont, p[2] + j * S, p[2] + j * S + S)
                if si is None or sj is None:
                    return False
                nc = self.overwrite(cont, p[2] + i * S, sj)
                nc = self.overwrite(nc, p[2] + j * S, si) if nc is not None else None
                if nc is None:
                    return False
                self.content[p[1]] = nc
                self.log.append("swap(%r, %r)" % (i, j))
            elif fn == "core::mem::swap" and c.args[0][0] == "P" and c.args[1][0] == "P" and c.targs:
                # the two objects exchange their contents (same type, so same extent)
                p, q = c.args[0], c.args[1]
                S = te.size(c.targs[0])
                cp, cq = self.content_of(p[1], c.mem), self.content_of(q[1], c.mem)
                if cp is None or cq is None:
                    return False
                sp, sq = self.slice(cp, p[2], p[2] + S), self.slice(cq, q[2], q[2] + S)
                if sp is None or sq is None:
                    return False
                if p[1] == q[1]:
                    nc = self.overwrite(cp, p[2], sq)
                    nc = self.overwrite(nc, q[2], sp) if nc is not None else None
                    if nc is None:
                        return False
                    self.content[p[1]] = nc
                else:
                    np_, nq_ = self.overwrite(cp, p[2], sq), self.overwrite(cq, q[2], sp)
                    if np_ is None or nq_ is None:
                        return False
                    self.content[p[1]], self.content[q[1]] = np_, nq_
                self.log.append("mem::swap @%r+%r <-> @%r+%r" % (p[1], p[2], q[1], q[2]))
            elif c.key == "const_transmute" and c.targs:
                pv = self.prov(c.args[0], c.targs[0])
                if pv is None:
                    return bool(self.giveup("provenance of the const_transmute operand unknown: %r" % (c.args[0],)))
                if not self.eq(pv[0].total, self.size_of(c.targs[1])):
                    return bool(self.giveup("const_transmute between different sizes"))
                self.valprov[repr(c.ret)] = (pv[0], c.targs[1])
                self.log.append("const_transmute -> %s" % tstr(c.targs[1]))
            elif fn == "core::mem::MaybeUninit::<T>::assume_init" and c.targs:
                v = c.args[0]
                # the MaybeUninit storage that was filled through raw pointers: the tracked local of type MaybeUninit<that type>
                want = "core::mem::MaybeUninit<%s>" % tstr(c.targs[0])
                cands = [b_ for b_ in self.content if b_[0] == "local" and tstr(a.local_ty(b_[1])) == want]
                pv = (self.content[cands[0]], None) if len(cands) == 1 else self.prov(v, None)
                if pv is None:
                    return bool(self.giveup("assume_init of an untracked value"))
                self.valprov[repr(c.ret)] = (pv[0], c.targs[0])
                self.log.append("assume_init -> %r" % (pv[0],))
            elif fn == "core::mem::ManuallyDrop::<T>::new" and c.targs:
                pv = self.prov(c.args[0], c.targs[0])
                if pv is not None:
                    self.valprov[repr(c.ret)] = (pv[0], {"k": "adt", "def": "core::mem::ManuallyDrop", "args": [c.targs[0]]})
            # everything else (views, casts, size_of, hints) moves no bytes
        return self.fail is None


def elem_type(t, depth=0):
    """The element type a storage type is made of: T for T, GenericArray<T, _>, [T; n], wrappers of those."""
    if t is None or depth > 6:
        return t
    if t.get("k") == "adt":
        if t["def"] in ("core::mem::ManuallyDrop", "core::mem::MaybeUninit"):
            return elem_type(adt_args(t)[0], depth + 1)
        if t["def"] == "GenericArray":
            return elem_type(adt_args(t)[0], depth + 1)
    if t.get("k") == "array":
        return elem_type(t["t"], depth + 1)
    return t


def same_map(eng, got, want):
    """got: Segs; want: list of (size Poly, origin, origin offset) in order.  Both normalised, compared piecewise with the prover."""
    items, off = [], ZERO
    for size, org, ooff in want:
        items.append((off, off + size, org, ooff))
        off = off + size
    w = eng.norm(Segs(items, off))
    g = eng.norm(got)
    if not eng.eq(g.total, w.total) or len(g.items) != len(w.items):
        return False
    for (s1, e1, o1, f1), (s2, e2, o2, f2) in zip(g.items, w.items):
        if o1 != o2 or not (eng.eq(s1, s2) and eng.eq(e1, e2) and (o1 is None or eng.eq(f1, f2))):
            return False
    return True


def path_calls(a, ret):
    """CallSites on the (unique, in a tree-shaped body) path from entry to return `ret`, in execution order; None if not unique."""
    target = ret["bb"]
    paths = []
    stack = [(0, (0,))]
    while stack:
        bb, path = stack.pop()
        if bb == target:
            paths.append(path)
            if len(paths) > 1:
                return None
            continue
        for s2 in a.edges.get(bb, []):
            if a.blocks[s2]["cleanup"] or s2 in path:
                continue
            stack.append((s2, path + (s2,)))
    if len(paths) != 1:
        return None
    by_bb = {}
    for c in a.calls:
        by_bb.setdefault(c.bb, []).append(c)
    out = []
    for bb in paths[0]:
        out += by_bb.get(bb, [])
    return out
