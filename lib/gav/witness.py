"""Witness programs: accept/reject twins compiled against the working tree's library (type check only)."""

import os
import tempfile
from concurrent.futures import ThreadPoolExecutor

PRELUDE = """#![allow(unused, non_camel_case_types)]
extern crate generic_array;
use generic_array::{GenericArray, GenericArrayIter, ArrayLength, ConstArrayLength, IntoArrayLength, LengthError, arr};
use generic_array::typenum::*;
use generic_array::sequence::*;
use generic_array::functional::*;
use core::cell::Cell;
use std::rc::Rc;
fn need_send<X: Send>() {}
fn need_sync<X: Sync>() {}
fn need_copy<X: Copy>() {}
fn need_clone<X: Clone>() {}
pub struct NoClone;
type A3 = GenericArray<u8, U3>;
type A4 = GenericArray<u8, U4>;
"""


class Twin:
    def __init__(self, name, accept, reject, codes, cfg="F0", items=""):
        self.name = name
        self.accept = accept
        self.reject = reject  # the offending line carries the marker //~
        self.codes = set(codes)
        self.cfg = cfg
        self.items = items


def source(body, items=""):
    return PRELUDE + items + "\n" + body + "\n"


def marker_line(src):
    for i, l in enumerate(src.splitlines(), 1):
        if "//~" in l:
            return i
    return None


def errors_of(diags):
    out = []
    for d in diags:
        if d.get("level") == "error":
            code = (d.get("code") or {}).get("code")
            if code is None and "lifetime may not live long enough" in d.get("message", ""):
                code = "LIFETIME"  # region errors carry no error code
            lines = set()
            for sp in d.get("spans", []):
                for ln in range(sp.get("line_start", 0), sp.get("line_end", 0) + 1):
                    lines.add(ln)
            out.append((code, lines, d.get("message", "")))
    return out


def run_twins(twins, builds, stable_builds=None, max_workers=16):
    """builds: {cfg: Build}. Returns list of result dicts."""
    jobs = []
    tmp = tempfile.mkdtemp(prefix="twins-", dir=next(iter(builds.values())).dir)
    for t in twins:
        for kind, body in (("accept", t.accept), ("reject", t.reject)):
            src = source(body, t.items)
            p = os.path.join(tmp, "%s_%s.rs" % (t.name, kind))
            with open(p, "w") as f:
                f.write(src)
            jobs.append((t, kind, p, src))

    def go(job):
        t, kind, p, src = job
        b = builds[t.cfg]
        rc, diags, _, stderr = b.compile_witness(p, crate_name="w_" + kind)
        res = {"twin": t.name, "kind": kind, "cfg": t.cfg, "toolchain": "nightly", "rc": rc, "errors": errors_of(diags), "src": src}
        out = [res]
        if stable_builds is not None and t.cfg in stable_builds:
            rc2, diags2, _ = stable_builds[t.cfg].compile(p, crate_name="w_" + kind)
            out.append({"twin": t.name, "kind": kind, "cfg": t.cfg, "toolchain": "stable", "rc": rc2, "errors": errors_of(diags2), "src": src})
        return out

    results = []
    with ThreadPoolExecutor(max_workers=max_workers) as ex:
        for r in ex.map(go, jobs):
            results.extend(r)
    return results


def judge(t, res_accept, res_reject):
    """(ok, detail) for one twin on one toolchain."""
    if res_accept["rc"] != 0:
        msgs = "; ".join("%s %s" % (c, m[:120]) for c, _, m in res_accept["errors"][:2])
        return False, "accept twin does not compile (%s) - the witness or the API changed" % msgs
    if res_reject["rc"] == 0:
        return False, "reject twin COMPILES: the ill-formed program is accepted"
    codes = {c for c, _, _ in res_reject["errors"]}
    ml = marker_line(res_reject["src"])
    hit = [c for c, lines, _ in res_reject["errors"] if c in t.codes]
    online = [c for c, lines, _ in res_reject["errors"] if c in t.codes and (ml is None or ml in lines)]
    if not hit:
        return False, "reject twin fails with %s, expected one of %s" % (sorted(x for x in codes if x), sorted(t.codes))
    return True, "rejected with %s%s" % (sorted(set(hit)), "" if online else " (reported off the marked line)")
