"""Coverage calculus: does a body hand EVERY element of a slice view to a sink call (e.g. Zeroize::zeroize), however the view is cut up?

Events that cover a sub-range of the view's base object (byte offsets are symbolic polynomials):
  * the sink on the unadapted slice iterator over a sub-slice (the element-wise impl for IterMut) or on a sub-slice itself (the element-wise slice impl);
  * the sink on ONE element `&mut view[i]`;
  * `for_each` over the unadapted iterator of a sub-slice with the sink itself, or with a closure that hands its argument to the sink on every path;
  * `chunks_mut(k)` / `chunks_exact_mut`-free chunking: `for_each` over `sub.chunks_mut(k)`, k >= 1, with a function (or closure) that covers ITS slice parameter;
  * a call of a crate-local function with a sub-slice for which the same property holds (decided recursively; a recursive call is assumed to cover
    its argument provided it is provably SHORTER than the caller's parameter - induction on the length).
The view is covered when, on every return path of the tree-shaped body, the events on that path tile the view exactly (rules.tiling: adjacent,
from offset 0 to the view's end). `split_at_mut` is pure pointer arithmetic to the abstract interpreter, so halves are ordinary sub-slices.
Loops are not handled here (rules.visits_all has the loop forms); any other call that receives a pointer into the view makes the answer `unknown`."""

from .poly import Poly, prove
from .rules import tiling, payload_calls, vstr
from .core import PROVED

SINK_PLUMBING = ("core::slice::<impl [T]>::iter_mut", "core::slice::<impl [T]>::iter", "core::iter::IntoIterator::into_iter", "core::slice::<impl [T]>::split_at_mut",
                 "core::slice::<impl [T]>::split_at_mut_unchecked", "core::slice::<impl [T]>::len", "core::slice::<impl [T]>::chunks_mut", "core::slice::<impl [T]>::is_empty",
                 "core::slice::<impl [T]>::split_first_mut", "core::slice::<impl [T]>::split_last_mut")


def _slice_param(b):
    """Index (1-based) of the single `&mut [T]` / `&[T]` parameter of a function, or None."""
    sig = b.get("sig")
    if not sig:
        return None
    idx = [i + 1 for i, t in enumerate(sig["inputs"]) if t.get("k") == "ref" and t["t"].get("k") == "slice"]
    return idx[0] if len(idx) == 1 and len(sig["inputs"]) == 1 else None


class Coverage:
    def __init__(self, ctx, cfg, sink, sink_iter_res, sink_slice_res):
        self.ctx, self.cfg, self.sink = ctx, cfg, sink
        self.iter_res, self.slice_res = sink_iter_res, sink_slice_res
        self.memo = {}
        self.notes = []

    # ---- functions that cover their slice parameter ---------------------------------------------------------
    def fn_covers(self, key, stack=()):
        if key in self.memo:
            return self.memo[key]
        if key in stack:
            return True  # inductive hypothesis; the caller checks that the argument is shorter
        db = self.ctx.db(self.cfg)
        b = db.get(key)
        if b is None or _slice_param(b) is None:
            self.memo[key] = False
            return False
        a = self.ctx.analysis_inl(self.cfg, key, split=True, keep=(key,), tag="cover")
        base = ("arg", 1)
        length = Poly.atom(("len", ("arg", 1)))
        ok, det = self.view_covered(a, base, Poly.const(0), length, self._elem_size(a, b), stack + (key,), rec_key=key, rec_len=length)
        self.notes.append("%s covers its slice parameter: %s (%s)" % (key.split("::")[-1], ok, det[:200]))
        self.memo[key] = ok
        return ok

    def _elem_size(self, a, b):
        t = b["sig"]["inputs"][0]["t"]["t"]
        return a.tenv.size(t)

    def closure_covers(self, cv):
        """A closure (or fn item) applied to each chunk: covers its slice argument."""
        db = self.ctx.db(self.cfg)
        if cv[0] == "V" and len(cv) == 3 and cv[1] == "fn":
            cb = db.by_path.get(cv[2])
            return cb is not None and self.fn_covers(cb["key"])
        if cv[0] == "A" and isinstance(cv[1], tuple) and cv[1][0] == "closure":
            cb = db.by_path.get(cv[1][1])
            if cb is None:
                return False
            ca = self.ctx.analysis_inl(self.cfg, cb["key"], split=True, tag="cover")
            # the closure's item parameter is `&mut [T]`: P(("arg", 2)) with its own length
            lt = ca.local_ty(2)
            if not (lt and lt.get("k") == "ref" and lt["t"].get("k") == "slice"):
                return False
            S = ca.tenv.size(lt["t"]["t"])
            ok, _ = self.view_covered(ca, ("arg", 2), Poly.const(0), Poly.atom(("len", ("arg", 2))), S, ())
            return ok
        return False

    # ---- events in one body -----------------------------------------------------------------------------------
    def view_covered(self, a, base, off0, length, S, stack, rec_key=None, rec_len=None):
        """Every return path of `a` (tree-shaped) covers bytes [off0, off0 + length * S) of `base` exactly once."""
        if S is None:
            return False, "element size unknown"
        db = self.ctx.db(self.cfg)
        events, unknown = [], []   # (call, offset bytes, size bytes)

        def sub(p):
            """(offset, size) of a slice pointer into the view's base, else None."""
            if p[0] == "P" and p[1] == base and p[3] is not None:
                return p[2], p[3] * S
            return None

        def held(c, v):
            if v[0] == "P" and v[3] is None and not v[2].t:
                from .absint import State
                return a.read_cell(State(c.mem, c.facts), v[1], (), None)
            return v
        for c in payload_calls(a):
            if c.fn in SINK_PLUMBING or getattr(c, "no_effects", False) and not any(isinstance(x, tuple) and x and x[0] == "P" and x[1] == base for x in c.args):
                continue
            touches = any(isinstance(x, tuple) and x and x[0] == "P" and x[1] == base for x in c.args) or \
                any(isinstance(x, tuple) and x and x[0] == "V" and len(x) > 3 and x[1] == "iter" and "'arg'" in repr(x) for x in c.args)
            if c.fn == self.sink:
                recv = c.args[0]
                h = held(c, recv)
                if isinstance(h, tuple) and len(h) == 5 and h[:3] == ("V", "iter", "slice") and sub(h[3]) and (c.res or "").startswith(self.iter_res):
                    events.append((c,) + sub(h[3]))
                elif recv[0] == "P" and recv[1] == base and recv[3] is not None and (c.res or "").startswith(self.slice_res):
                    events.append((c,) + sub(recv))
                elif recv[0] == "P" and recv[1] == base and recv[3] is None:
                    events.append((c, recv[2], S))   # one element
                else:
                    unknown.append("%s on %s (resolved to %s)" % (c.fn.split("::")[-1], vstr(recv)[:80], c.res))
                continue
            if c.fn == "core::iter::Iterator::for_each":
                it, cl = held(c, c.args[0]), c.args[1]
                if isinstance(it, tuple) and len(it) == 5 and it[:3] == ("V", "iter", "slice") and sub(it[3]):
                    if cl == ("V", "fn", self.sink) or self._closure_sinks_arg(cl):
                        events.append((c,) + sub(it[3]))
                        continue
                if isinstance(it, tuple) and len(it) == 5 and it[:3] == ("V", "iter", "chunks") and sub(it[3]) and it[4].is_const() and it[4].const_value() >= 1:
                    if self.closure_covers(cl):
                        events.append((c,) + sub(it[3]))
                        continue
                unknown.append("for_each over %s" % vstr(it)[:100])
                continue
            cb = db.by_path.get(c.res) or db.by_path.get(c.fn) if c.key else None
            if c.key and db.get(c.key) is not None and c.args and sub(c.args[0]) and _slice_param(db.get(c.key)) == 1:
                arg = c.args[0]
                if c.key == rec_key or c.key in stack:
                    shorter = prove((">=", rec_len - arg[3] - Poly.const(1)), a.poly_facts(c.facts)) if rec_len is not None and c.key == rec_key else False
                    if not shorter:
                        unknown.append("recursive call of %s on an argument not provably shorter than the parameter (%r)" % (c.key.split("::")[-1], arg[3]))
                        continue
                    events.append((c,) + sub(arg))
                elif self.fn_covers(c.key, stack):
                    events.append((c,) + sub(arg))
                else:
                    unknown.append("%s does not cover its slice parameter" % c.key.split("::")[-1])
                continue
            if touches:
                unknown.append("%s receives part of the view" % c.fn)
        if unknown:
            return False, "; ".join(sorted(set(unknown)))[:400]
        if _has_cycle(a):
            return False, "the body contains a loop (loop forms are rules.visits_all's)"
        if not a.returns:
            return False, "no return path"
        total = length * S
        dets = []
        for r in a.returns:
            on_path = [(o - off0, sz) for (c, o, sz) in events if a.dominates(c.bb, r["bb"]) or c.bb == r["bb"]]
            st, det = tiling(a, on_path, total, r["facts"])
            if st != PROVED:
                return False, "on the return path at bb%d: %s" % (r["bb"], det)
            dets.append(det)
        return True, "%d return path(s); on each the sink events tile the view exactly (%s)" % (len(a.returns), dets[0][:160])

    def _closure_sinks_arg(self, cl):
        if not (cl[0] == "A" and isinstance(cl[1], tuple) and cl[1][0] == "closure"):
            return False
        cb = self.ctx.db(self.cfg).by_path.get(cl[1][1])
        if cb is None:
            return False
        ca = self.ctx.analysis(self.cfg, cb["key"])
        cs = [c for c in ca.calls if c.fn == self.sink and c.args and c.args[0][0] == "P" and c.args[0][1] == ("arg", 2) and not c.args[0][2].t]
        return bool(cs) and bool(ca.returns) and all(any(ca.dominates(c.bb, r["bb"]) for c in cs) for r in ca.returns)


def _has_cycle(a):
    color = {}

    def visit(b):
        color[b] = 1
        for s in a.edges.get(b, []):
            if a.blocks[s]["cleanup"]:
                continue
            if color.get(s) == 1:
                return True
            if s not in color and visit(s):
                return True
        color[b] = 2
        return False
    return visit(0)
