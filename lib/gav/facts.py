"""Loading the driver's fact files and giving every body a stable key.

Keys never contain line numbers, local names or generic-parameter names: type and const
parameters are renamed positionally ($0, $1, ...) in order of first occurrence.
"""

import json
import re

from .tys import skeleton, tstr


class Facts:
    def __init__(self, path_or_obj):
        if isinstance(path_or_obj, str):
            with open(path_or_obj) as f:
                self.d = json.load(f)
        else:
            self.d = path_or_obj
        self.bodies = self.d["bodies"]
        self.adts = {a["path"]: a for a in self.d["adts"]}
        self.impls = self.d["impls"]
        self.traits = {t["path"]: t for t in self.d["traits"]}
        self.by_path = {b["path"]: b for b in self.bodies}
        self.by_key = {}
        self.dups = []
        # crate-local ADT / trait paths are reduced to their last segment so that moving an item
        # between modules does not change any key
        loc = sorted(list(self.adts) + list(self.traits), key=len, reverse=True)
        self._local = [(p, p.split("::")[-1]) for p in loc if "::" in p]
        for b in self.bodies:
            b["key"] = self.norm(self._key(b))
        for b in self.bodies:
            if b["kind"] == "Closure":
                root = self.by_path.get(b["root"])
                suffix = b["path"][len(b["root"]):] if b["path"].startswith(b["root"]) else "::" + b["path"].split("::")[-1]
                b["key"] = (root["key"] if root else b["root"]) + suffix
        for b in self.bodies:
            if b["key"] in self.by_key:
                self.dups.append(b["key"])
            self.by_key[b["key"]] = b

    def _key(self, b):
        kind = b["kind"]
        if kind in ("AssocFn", "AssocConst"):
            name = b.get("name") or b["path"].split("::")[-1]
            if "impl_trait" in b:
                targs = [a for a in b["impl_trait_args"] if a.get("k") != "region"]
                sk, _ = skeleton([b["impl_self"]] + targs[1:])
                extra = "<" + ",".join(sk[1:]) + ">" if len(sk) > 1 else ""
                return "<%s as %s%s>::%s" % (sk[0], b["impl_trait"], extra, name)
            if "impl_self" in b:
                sk, _ = skeleton([b["impl_self"]])
                return "%s::%s" % (sk[0], name)
            if "in_trait" in b:
                return "trait %s::%s" % (b["in_trait"], name)
        if kind == "Fn":
            return b["path"].split("::")[-1]
        return re.sub(r"src/[^ ]*:\d+:\d+: \d+:\d+", "", b["path"])

    def norm(self, s):
        for full, tail in self._local:
            s = re.sub(r"(?<![A-Za-z0-9_:])" + re.escape(full) + r"(?![A-Za-z0-9_])", tail, s)
        return s

    def get(self, key):
        return self.by_key.get(key)

    def find(self, pred):
        return [b for b in self.bodies if pred(b)]

    def closures_of(self, key):
        return sorted((b for b in self.bodies if b["kind"] == "Closure" and b["key"].startswith(key + "::{closure#")), key=lambda b: b["key"])

    def impls_of(self, trait):
        return [i for i in self.impls if i.get("trait") == trait]

    def impl_key(self, imp):
        if "trait" in imp:
            targs = [a for a in imp["trait_args"] if a.get("k") != "region"]
            sk, _ = skeleton([imp["self"]] + targs[1:])
            extra = "<" + ",".join(sk[1:]) + ">" if len(sk) > 1 else ""
            return self.norm("<%s as %s%s>" % (sk[0], imp["trait"], extra))
        sk, _ = skeleton([imp["self"]])
        return self.norm("impl " + sk[0])


def callee(term):
    """(def, resolved-or-def) of a call terminator; ('', '') for indirect calls."""
    f = term["f"]
    if f["k"] != "fn":
        return ("", "")
    return (f["def"], f.get("res") or f["def"])


def callee_self(term):
    """Self type (first generic arg) of a trait-method call."""
    f = term["f"]
    if f["k"] != "fn":
        return None
    a = [x for x in f["args"] if x.get("k") != "region"]
    return a[0] if a else None
