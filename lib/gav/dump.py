"""Debug: run the abstract interpreter on bodies matching a pattern and print call sites."""
import sys, json
from .facts import Facts
from .absint import analyze
from .poly import Poly

def vs(v, d=0):
    if v is None: return "None"
    if isinstance(v, Poly): return repr(v)
    if not isinstance(v, tuple): return repr(v)
    if d > 4: return "..."
    if v and v[0] == "I": return "I(%r)" % (v[1],)
    if v and v[0] == "P": return "P(%s, off=%r, len=%r)" % (vs(v[1], d+1), v[2], v[3])
    return "(" + ", ".join(vs(x, d+1) for x in v) + ")"

def fs(facts):
    out=[]
    for f in sorted(facts, key=repr):
        if f[0]=="poly": out.append("%r %s 0" % (f[2], f[1]))
        else: out.append(vs(f))
    return "{" + "; ".join(out) + "}"

if __name__ == "__main__":
    db = Facts(sys.argv[1])
    pat = sys.argv[2]
    for b in db.bodies:
        if pat in b["key"]:
            a = analyze(db, b)
            print("==", b["key"], "reachable blocks", sorted(a.block_in))
            for c in a.calls:
                print("  bb%d %s(%s) -> %s" % (c.bb, c.fn, ", ".join(vs(x) for x in c.args), vs(c.ret)))
                print("      facts", fs(c.facts))
            for r in a.returns:
                print("  return bb%d %s facts %s" % (r["bb"], vs(r["val"]), fs(r["facts"])))
            for s in a.stores:
                print("  store", s["site"], vs(s["cell"]), ":=", vs(s["val"]))
            if a.unknown: print("  UNKNOWN", a.unknown)
