"""Unwind-window typestate (engine D): classification of calls that can run foreign code, event extraction,
and the reader/writer position protocol of element-moving closures and loops."""

from .poly import Poly
from .tys import tstr

NONFOREIGN_PREFIXES = (
    "core::ptr::", "core::mem::", "core::slice::<impl [T]>::", "core::slice::from_raw_parts", "core::slice::from_ref", "core::slice::from_mut", "core::hint::", "core::alloc::",
    "alloc::alloc::", "alloc::boxed::Box::<T>::from_raw", "alloc::boxed::Box::<T>::into_raw", "alloc::boxed::Box::<T>::new",
    "alloc::boxed::Box::<T, A>::from_raw", "alloc::boxed::Box::<T, A>::into_raw",
    "core::option::Option::<T>::is_", "core::result::Result::<T, E>::is_", "core::fmt::Arguments", "core::fmt::rt::",
    "alloc::vec::Vec::<T, A>::len", "alloc::vec::Vec::<T>::with_capacity", "alloc::vec::Vec::<T, A>::into_boxed_slice", "alloc::vec::Vec::<T, A>::capacity",
    "alloc::vec::Vec::<T, A>::as_ptr", "alloc::vec::Vec::<T, A>::as_mut_ptr", "alloc::vec::Vec::<T, A>::set_len", "alloc::vec::Vec::<T, A>::is_empty",
    "alloc::slice::<impl [T]>::into_vec", "core::num::<impl usize>::",
    "core::str::from_utf8_unchecked", "core::cmp::min", "core::cmp::max", "core::ptr::NonNull",
    "core::result::Result::<T, E>::unwrap_unchecked", "core::option::Option::<T>::unwrap_unchecked",
)
# adaptor constructors only build an iterator value; they call nothing
LAZY_ITER = {"enumerate", "zip", "map", "rev", "skip", "take", "step_by", "chain", "filter", "peekable", "skip_while", "take_while",
             "cloned", "copied", "by_ref", "inspect", "fuse", "cycle", "scan", "flat_map", "flatten", "filter_map"}
PURE_RESOLVED = (
    "<core::mem::ManuallyDrop<T> as core::ops::Deref>::deref", "<core::mem::ManuallyDrop<T> as core::ops::DerefMut>::deref_mut",
    "<core::result::Result<T, E> as core::ops::Try>::branch", "<core::option::Option<T> as core::ops::Try>::branch",
    "<alloc::vec::Vec<T, A> as core::convert::From<alloc::boxed::Box<[T], A>>>::from",
    "<alloc::vec::Vec<T, A> as core::iter::IntoIterator>::into_iter",
    "<I as core::iter::IntoIterator>::into_iter", "<T as core::convert::Into<U>>::into", "<T as core::convert::From<T>>::from",
)


def has_generic(t, depth=0):
    """Type mentions a type parameter, closure or projection (so its drop glue / trait impls are caller-supplied)."""
    if t is None or depth > 10:
        return True
    k = t.get("k")
    if k in ("param", "closure", "alias", "other"):
        return True
    if k == "prim":
        return False
    if k in ("ref", "ptr"):
        return False  # dropping a reference/pointer runs nothing
    if k in ("slice", "array"):
        return has_generic(t["t"], depth + 1)
    if k == "tuple":
        return any(has_generic(x, depth + 1) for x in t["ts"])
    if k == "adt":
        if t["def"] in ("core::mem::ManuallyDrop", "core::mem::MaybeUninit", "core::marker::PhantomData"):
            return False
        return any(has_generic(x, depth + 1) for x in t["args"] if x.get("k") != "region")
    return False


def may_run_drop_code(t, depth=0):
    """Dropping a value of this type may run caller-supplied code: like has_generic, but a GenericArray's drop glue is that of its elements only
    (the length parameter contributes none), so `GenericArray<MaybeUninit<T>, N>` is glue-free for every T and N."""
    if t is not None and t.get("k") == "adt" and t["def"].split("::")[-1] == "GenericArray":
        a = [x for x in t["args"] if x.get("k") != "region"]
        return may_run_drop_code(a[0], depth + 1) if a else True
    if t is not None and t.get("k") in ("slice", "array"):
        return may_run_drop_code(t["t"], depth + 1)
    if t is not None and t.get("k") == "tuple":
        return any(may_run_drop_code(x, depth + 1) for x in t["ts"])
    return has_generic(t, depth)


def code_free_iter(t, depth=0):
    """Iterator type whose `next` runs only std code: slice iterators and std adaptors over them."""
    if t is None or depth > 8:
        return False
    k = t.get("k")
    if k == "ref":
        return code_free_iter(t["t"], depth + 1)
    if k != "adt":
        return False
    d = t["def"]
    if d.startswith("core::slice::"):
        return True
    if d.startswith("core::iter::") or d.startswith("core::iter::adapters::"):
        return all(code_free_iter(x, depth + 1) for x in t["args"] if x.get("k") != "region")
    if d.startswith("alloc::vec::IntoIter") or d.startswith("alloc::vec::into_iter::IntoIter"):
        return True
    return False


class Classifier:
    """Decides, per call site, whether the callee can run caller-supplied code (and hence unwind at will)."""

    def __init__(self, db):
        self.db = db
        self._summ = {}

    def body_foreign(self, key, stack=()):
        """Does the crate-local body (transitively) contain a foreign call?"""
        if key in self._summ:
            return self._summ[key]
        if key in stack:
            return False
        b = self.db.get(key)
        if b is None:
            return True
        res = False
        for blk in b["mir"]["blocks"]:
            t = blk["term"]
            if t["k"] == "call":
                if self.classify_raw(t, b, stack + (key,)) in ("foreign",):
                    res = True
                    break
            elif t["k"] == "drop" and not blk["cleanup"] and has_generic(t["ty"]):
                res = True
                break
        if not res:
            # closures defined in the body are invoked by whatever they are handed to
            for c in self.db.closures_of(key):
                if self.body_foreign(c["key"], stack + (key,)):
                    res = True
                    break
        self._summ[key] = res
        return res

    def classify_raw(self, term, body, stack=()):
        f = term["f"]
        if f["k"] != "fn":
            return "foreign"
        fn = f["def"]
        res = f.get("res") or fn
        if fn.startswith("core::panicking::") or fn.endswith("from_iter_length_fail"):
            return "panic"
        if fn in ("core::ops::FnMut::call_mut", "core::ops::FnOnce::call_once", "core::ops::Fn::call"):
            return "foreign"
        targs = [a for a in f.get("args", []) if a.get("k") != "region"]
        if fn == "core::ptr::drop_in_place":
            return "foreign" if (not targs or has_generic(targs[0])) else "pure"
        # crate-local callee: summarised
        for p in (res, fn):
            lb = self.db.by_path.get(p)
            if lb is not None:
                return "foreign" if self.body_foreign(lb["key"], stack) else "pure"
        if any(fn.startswith(p) for p in NONFOREIGN_PREFIXES):
            return "pure"
        if fn.startswith("core::iter::Iterator::") and fn.split("::")[-1] in LAZY_ITER:
            return "pure"
        if fn == "core::iter::zip":
            return "pure"  # `a.into_iter().zip(b)`: an adaptor constructor like Iterator::zip
        if res in PURE_RESOLVED:
            return "pure"
        if fn in ("core::ops::Deref::deref", "core::ops::DerefMut::deref_mut") and res != fn:
            return "pure" if res.startswith("<core::mem::ManuallyDrop") else "foreign"
        if "trait" in f and res == fn and not (targs and all(x.get("k") == "prim" for x in targs)):
            return "foreign"  # dispatch on a generic type: caller-supplied impl (a provided method at primitive types, e.g. `usize::min`, is std code)
        if f.get("trait") in ("core::iter::Iterator", "core::iter::DoubleEndedIterator", "core::iter::ExactSizeIterator") \
                and f.get("method") in ("next", "next_back", "size_hint", "len") and targs and code_free_iter(targs[0]):
            return "pure"  # polling a std slice iterator (or std adaptors over them) runs no caller code
        if any(x.get("k") in ("closure", "param", "alias") for x in targs):
            return "foreign"  # std code instantiated with caller-supplied types / closures
        if any(has_generic(x) for x in targs):
            return "foreign"
        return "pure"

    def classify(self, cs, body):
        return self.classify_raw(cs.term, body)


def param_derived(x, first=2, depth=0):
    """Term mentions a closure/function parameter with index >= first."""
    if depth > 8:
        return False
    if isinstance(x, tuple):
        if len(x) == 3 and x[0] == "V" and x[1] == "arg" and isinstance(x[2], int) and x[2] >= first:
            return True
        if len(x) == 2 and x[0] == "arg" and isinstance(x[1], int) and x[1] >= first:
            return True
        return any(param_derived(y, first, depth + 1) for y in x)
    return False


def upvar_of(base):
    """k if base is the pointee of by-reference closure upvar k, else None."""
    if isinstance(base, tuple) and len(base) == 2 and base[0] == "obj":
        c = base[1]
        if isinstance(c, tuple) and len(c) == 2 and c[0] == "cell" and isinstance(c[1], tuple) and c[1][0] == ("arg", 1) and len(c[1][1]) == 1:
            return c[1][1][0]
    return None


def upvar_ptr(base):
    """(k, depth) if base is the pointee of a pointer held in closure upvar k: depth 1 = the upvar is the pointer (captured by value, or a
    by-reference upvar's own pointee), depth 2 = the upvar is a reference to a local that holds the pointer."""
    k = upvar_of(base)
    if k is not None:
        return k, 1
    if isinstance(base, tuple) and len(base) == 2 and base[0] == "obj":
        c = base[1]
        if isinstance(c, tuple) and len(c) == 2 and c[0] == "cell" and isinstance(c[1], tuple) and len(c[1]) == 2 and c[1][1] == ():
            k = upvar_of(c[1][0])
            if k is not None:
                return k, 2
    return None


def indexed_slot(a, p):
    """A pointer `upvar_base.add(i)` with i a closure parameter (an index yielded by a range): (k, depth, i) - the slot is element i of the
    storage the upvar points to. None otherwise."""
    if not (p[0] == "P" and not param_derived(p[1])):
        return None
    up = upvar_ptr(p[1])
    if up is None:
        return None
    ats = [x for x in p[2].atoms() if isinstance(x, tuple) and x and x[0] == "arg" and isinstance(x[1], int) and x[1] >= 2]
    if len(ats) != 1:
        return None
    i = Poly.atom(ats[0])
    # offset == size_of(element) * i exactly: the coefficient of the index atom is a single S(..) atom, nothing else in the offset
    rest = p[2]
    if len(rest.t) != 1:
        return None
    (mono, coeff), = rest.t.items()
    if coeff != 1 or ats[0] not in mono:
        return None
    return up[0], up[1], i


def cursor_slot_ex(p):
    """A pointer `owner.storage.as_ptr().add(owner.cursor + d)` where `owner` is what closure upvar k points to and `owner.cursor` is the
    cursor's value when the step starts: (k, storage field, cursor field, d). None otherwise."""
    if not (p[0] == "P" and isinstance(p[1], tuple) and len(p[1]) == 3 and p[1][0] == "field" and len(p[1][2]) == 1):
        return None
    owner = p[1][1]
    k = upvar_of(owner)
    if k is None or not (1 <= len(p[2].t) <= 2):
        return None
    main = None
    d = 0
    size = None
    for mono, coeff in p[2].t.items():
        cur = [x for x in mono if isinstance(x, tuple) and x and x[0] == "cell" and isinstance(x[1], tuple) and len(x[1]) == 2 and x[1][0] == owner and len(x[1][1]) == 1]
        sizes = [x for x in mono if x not in cur]
        if len(sizes) != 1 or not (isinstance(sizes[0], tuple) and sizes[0] and sizes[0][0] == "S"):
            return None
        if size is not None and sizes[0] != size:
            return None
        size = sizes[0]
        if len(cur) == 1 and coeff == 1 and main is None:
            main = cur[0]
        elif not cur:
            d = coeff
        else:
            return None
    if main is None:
        return None
    return k, p[1][2][0], main[1][1][0], d


def cursor_slot(p):
    """A pointer `owner.storage.as_ptr().add(owner.cursor)` where `owner` is what closure upvar k points to: (k, storage field, cursor field).
    The slot is the element the owner's own cursor designates when the step starts. None otherwise."""
    r = cursor_slot_ex(p)
    if r is None or r[3] != 0:
        return None
    return r[:3]


def cursor_offset_problems(offsets, deltas):
    """offsets: [(position id, d)] - cursor-addressed slots `storage[cursor_at_step_start + d]`; deltas: position id -> set of per-step moves.
    The slot a step moves must be the one its own advance takes out of (or into) the owner's claimed range: storage[cursor] for a cursor that
    the step raises by one, storage[cursor - 1] for one it lowers by one. (Raise first and read `storage[cursor]` afterwards, and the element
    read is one the owner still claims while the one it gave up is never touched.)"""
    out = []
    for pid, d in offsets:
        mv = deltas.get(pid) or set()
        want = 0 if mv == {1} else (-1 if mv == {-1} else None)
        if want is None:
            if d != 0:
                out.append("a slot addressed through an owner's cursor lies %+d element(s) from where the cursor stood when the step began, and that cursor is not moved by exactly one element per step" % d)
        elif d != want:
            out.append("the slot moved is storage[cursor %+d] (cursor = its value when the step begins) but the step's own advance (%+d) gives up / takes in storage[cursor %+d]: "
                       "the element moved stays claimed by the owner (double drop on unwind, one element never moved)" % (d, next(iter(mv)), want))
    return out


def closure_events(a, cl, region=None):
    """Ordered events per block of a step body: list of (bb, order, kind, data).  A step is a closure body (region None: slots are
    pointers derived from the closure's item parameters, positions are by-reference upvars) or one iteration of a loop over an iterator
    pipeline (region = loops.Loop: slots are the pointers yielded by this loop's next(), positions are fields of tracked owners)."""
    ev = []
    if region is not None:
        return region.events(cl)
    indexed = []
    a.__dict__["indexed_slots"] = indexed
    cursors = []
    a.__dict__["cursor_slots"] = cursors
    a.__dict__["cursor_offsets"] = []
    for c in a.calls:
        order = 10 ** 6
        kind = None
        if c.fn in ("core::ptr::read", "core::ptr::read_unaligned") and c.args[0][0] == "P" and param_derived(c.args[0][1]):
            kind, data = "read", repr(c.args[0][1])
        elif c.fn in ("core::ptr::write", "core::mem::MaybeUninit::<T>::write") and c.args[0][0] == "P" and param_derived(c.args[0][1]):
            kind, data = "write", repr(c.args[0][1])
        elif c.fn in ("core::ptr::read", "core::ptr::read_unaligned", "core::ptr::write", "core::mem::MaybeUninit::<T>::write") and c.args[0][0] == "P" and cursor_slot_ex(c.args[0]) is not None:
            # cursor-addressed slot: the element the owner's own cursor designates (`take_next()`-style access through a `&mut owner` upvar)
            k_, farr, fpos, d_ = cursor_slot_ex(c.args[0])
            kind, data = ("read" if "read" in c.fn else "write"), repr(("cur", k_, farr, fpos))
            cursors.append((k_, farr, fpos))
            a.__dict__.setdefault("cursor_offsets", []).append((("fld", k_, fpos), d_))
        elif c.fn in ("core::ptr::read", "core::ptr::read_unaligned", "core::ptr::write") and c.args[0][0] == "P" and indexed_slot(a, c.args[0]) is not None:
            # index-addressed slot: element i of the storage an upvar points to, i being the closure's index parameter
            k_, depth, ix = indexed_slot(a, c.args[0])
            kind, data = ("read" if "read" in c.fn else "write"), repr(("ix", k_, depth, ix))
            indexed.append((k_, depth, ix))
        else:
            k = cl.classify(c, a.body)
            if k in ("foreign", "panic"):
                kind, data = k, c.fn
        if kind:
            ev.append((c.bb, order, kind, data, c))
    for s in a.stores:
        k = upvar_of(s["cell"][0])
        if k is not None and len(s["cell"][1]) == 1 and isinstance(s["cell"][1][0], int) and s["val"][0] == "I" and any(cu[0] == k and cu[2] == s["cell"][1][0] for cu in cursors):
            # the cursor field of the owner upvar k points to
            own = Poly.atom(("cell", (s["cell"][0], s["cell"][1])))
            d = s["val"][1] - own
            ev.append((s["site"][0], s["site"][1], "inc", (("fld", k, s["cell"][1][0]), d.const_value() if d.is_const() else None, None), s))
            continue
        if k is not None and s["cell"][1] == () and s["val"][0] == "I":
            own = Poly.atom(("cell", (s["cell"][0], ())))
            d = s["val"][1] - own
            absd = [s["val"][1] - ix for (_k, _d, ix) in indexed if (s["val"][1] - ix).is_const()]
            # ... or next to a slot that an `enumerate()` pairs with its index: item = (k, slot k), `*pos = k + 1`
            eidx = Poly.atom(("proj", ("proj", ("V", "arg", 2), (0,))))
            if not absd and (s["val"][1] - eidx).is_const() and any(e[2] in ("read", "write") and "'arg', 2" in e[3] for e in ev):
                absd = [s["val"][1] - eidx]
                a.__dict__["enum_abs"] = True
            if d.is_const():
                ev.append((s["site"][0], s["site"][1], "inc", (k, d.const_value(), None), s))
            elif absd:
                # absolute store of a cursor next to an index-addressed slot: `*index = i + 1` (forward) or `*index_back = i` (backward)
                ev.append((s["site"][0], s["site"][1], "inc", (k, ("abs", absd[0].const_value()), None), s))
            else:
                # value expressed through another upvar's old value (lock-step positions)
                other = None
                for at in s["val"][1].atoms():
                    if isinstance(at, tuple) and at[0] == "cell" and upvar_of(at[1][0]) is not None:
                        other = upvar_of(at[1][0])
                        d2 = s["val"][1] - Poly.atom(at)
                        if d2.is_const():
                            ev.append((s["site"][0], s["site"][1], "inc", (k, d2.const_value(), other), s))
                            break
                else:
                    ev.append((s["site"][0], s["site"][1], "inc", (k, None, None), s))
    for d in a.drops:
        if has_generic(d["ty"]) and not d["cleanup"]:
            ev.append((d["bb"], 10 ** 6, "dropgen", d["tys"], d))
    ev.sort(key=lambda e: (e[0], e[1]))
    by_bb = {}
    for e in ev:
        by_bb.setdefault(e[0], []).append(e)
    return by_bb


def run_protocol(a, by_bb, entries=(0,), stop=None, inside=None):
    """Dataflow of (reads per slot, writes per slot, incs per position) over the step's normal CFG (a closure body from block 0 to its
    returns, or a loop iteration from `entries` to the edge back to block `stop`, staying `inside` the loop's blocks).
    Returns dict: states at each foreign event, states at the end of a step, slots, positions, bad increments."""
    slots, poss = [], []
    for evs in by_bb.values():
        for e in evs:
            if e[2] in ("read", "write") and e[3] not in slots:
                slots.append(e[3])
            if e[2] == "inc" and e[3][0] not in poss:
                poss.append(e[3][0])
    zero = (tuple(0 for _ in slots), tuple(0 for _ in slots), tuple(0 for _ in poss))
    states = {e0: {zero} for e0 in entries}
    at_foreign = []  # (event, state)
    at_return = set()
    at_return_sites = set()   # (state, block of the return)
    at_break = set()
    bad_inc = []
    work = list(entries)
    seen_pairs = set()
    blocks = a.blocks
    while work:
        bb = work.pop()
        for st in list(states.get(bb, ())):
            if (bb, st) in seen_pairs:
                continue
            seen_pairs.add((bb, st))
            r, w, i = list(st[0]), list(st[1]), list(st[2])
            for e in by_bb.get(bb, []):
                if e[2] == "read":
                    r[slots.index(e[3])] = min(r[slots.index(e[3])] + 1, 3)
                elif e[2] == "write":
                    w[slots.index(e[3])] = min(w[slots.index(e[3])] + 1, 3)
                elif e[2] == "inc":
                    k, delta, other = e[3]
                    if isinstance(delta, tuple) and delta[0] == "abs":
                        if delta[1] not in (0, 1):
                            bad_inc.append(e)
                    elif delta not in (1, -1):
                        bad_inc.append(e)
                    i[poss.index(k)] = min(i[poss.index(k)] + 1, 3)
                elif e[2] in ("foreign", "panic"):
                    at_foreign.append((e, (tuple(r), tuple(w), tuple(i))))
            out = (tuple(r), tuple(w), tuple(i))
            t = blocks[bb]["term"]
            if t["k"] == "return" and stop is None:
                at_return.add(out)
                at_return_sites.add((out, bb))
            for s2 in a.edges.get(bb, []):
                if blocks[s2]["cleanup"]:
                    continue
                if stop is not None and s2 == stop:
                    at_return.add(out)
                    continue
                if inside is not None and s2 not in inside:
                    at_break.add(out)  # leaves the loop in the middle of a step (break / return / ?)
                    continue
                if out not in states.setdefault(s2, set()):
                    states[s2].add(out)
                    work.append(s2)
    return {"slots": slots, "positions": poss, "at_foreign": at_foreign, "at_return": at_return, "at_break": at_break, "bad_inc": bad_inc, "at_return_sites": at_return_sites}


def check_closure_protocol(a, cl, region=None):
    """Returns (role, ok, detail, info). role in consumer / builder / untracked-consumer / none."""
    by_bb = closure_events(a, cl, region)
    if region is None:
        info = run_protocol(a, by_bb)
    else:
        info = run_protocol(a, by_bb, region.entries, region.nxt.bb, region.blocks)
    slots, poss = info["slots"], info["positions"]
    # absolute cursor stores (position upvar -> constant c of `*pos = i + c`) and the index-addressed slots they refer to: whether the constant
    # fits the traversal direction and the kind of position is the parent's obligation (ownership.link_closure)
    info["abs"] = {e[3][0]: e[3][1][1] for evs in by_bb.values() for e in evs if e[2] == "inc" and isinstance(e[3][1], tuple)}
    # relative advances per position (+1 / -1): whether the sign fits the kind of position and the direction of travel is the parent's obligation
    info["deltas"] = {}
    for evs in by_bb.values():
        for e in evs:
            if e[2] == "inc" and not isinstance(e[3][1], tuple):
                info["deltas"].setdefault(e[3][0], set()).add(e[3][1])
    info["indexed"] = list(getattr(a, "indexed_slots", [])) if region is None else []
    info["enum_abs"] = bool(getattr(a, "enum_abs", False)) if region is None else False
    info["cursors"] = list(getattr(a, "cursor_slots", [])) if region is None else []
    reads = any(e[2] == "read" for evs in by_bb.values() for e in evs)
    writes = any(e[2] == "write" for evs in by_bb.values() for e in evs)
    if not reads and not writes:
        return "none", True, "no raw element read/write", info
    problems = []
    normal = []  # violations of the exactly-once-per-invocation discipline on the normal path (C03.P)
    info["normal_problems"] = normal
    if info["bad_inc"]:
        normal.append("a position is not advanced by exactly one element")
    offs = list(getattr(a, "cursor_offsets", [])) if region is None else list(getattr(region, "cursor_offsets", []))
    for msg in cursor_offset_problems(offs, info["deltas"]):
        normal.append(msg)
        problems.append(msg)
    if reads and not writes:
        role = "consumer" if poss else "untracked-consumer"
        ns, np_ = len(slots), len(poss)
        for st in info["at_return"]:
            if any(x != 1 for x in st[0]):
                normal.append("on some path a slot is read %s times per invocation (must be exactly once)" % (st[0],))
            if any(x != 1 for x in st[2]):
                normal.append("on some path a position is advanced %s times per invocation (must be exactly once)" % (st[2],))
        if role == "consumer":
            if np_ < ns:
                normal.append("%d slots are read but only %d positions are tracked" % (ns, np_))
                if info["at_foreign"]:
                    problems.append("%d slots are duplicated by ptr::read but only %d owner positions are advanced: the other owner still claims its element when foreign code runs (double drop on unwind)" % (ns, np_))
            for e, st in info["at_foreign"]:
                clean0 = all(x == 0 for x in st[0]) and all(x == 0 for x in st[2])
                clean1 = all(x == 1 for x in st[0]) and all(x == 1 for x in st[2])
                if not (clean0 or clean1):
                    problems.append("%s runs with reads=%s, position advances=%s: a duplicated element is still claimed by its owner (double drop on unwind)" % (e[3], st[0], st[2]))
    elif writes and not reads:
        role = "builder"
        # a step that neither writes nor counts is in order when its result tells a short-circuiting driver to stop (ControlFlow::Break, Err,
        # None): no later step follows it. That the driver is one that stops on it is the parent's obligation (info["stop_returns"])
        def stop_value(v):
            return isinstance(v, tuple) and v and v[0] == "A" and isinstance(v[1], tuple) and v[1][0] == "adt" and (
                (v[1][1] in ("core::ops::ControlFlow", "core::result::Result") and v[1][2] == 1) or (v[1][1] == "core::option::Option" and v[1][2] == 0))
        stops = set()
        zero_states = [st for st in info["at_return"] if all(x == 0 for x in st[1]) and all(x == 0 for x in st[2])]
        if region is None and zero_states and len(info["at_return"]) > 1:
            # which value goes with which count: the same body with one return block per path (the merged return value hides it)
            from .mirxf import treeify
            from .absint import analyze
            try:
                a2 = analyze(a.db, treeify(a.body), a.models)
                info2 = run_protocol(a2, closure_events(a2, cl, None))
            except Exception:
                a2, info2 = None, None
            if info2 is not None and info2["slots"] == slots and info2["positions"] == poss:
                sites = {}
                for st, bb_ in info2.get("at_return_sites", ()):
                    sites.setdefault(st, []).append(bb_)
                for st in zero_states:
                    bbs = sites.get(st, [])
                    if bbs and all([r for r in a2.returns if r["bb"] == bb_] and all(stop_value(r["val"]) for r in a2.returns if r["bb"] == bb_) for bb_ in bbs):
                        stops.add(st)
        info["stop_returns"] = bool(stops)
        for st in info["at_return"]:
            if st in stops:
                continue
            if any(x != 1 for x in st[1]) or any(x != 1 for x in st[2]) or not poss:
                normal.append("on some path writes=%s, position advances=%s per invocation (must be exactly one each)" % (st[1], st[2]))
        for e, st in info["at_foreign"]:
            w, i = sum(st[1]), sum(st[2])
            if w != i:
                problems.append("%s runs with writes=%d, position advances=%d (written slot not yet counted => leak, or counted before written => drop of uninitialised memory)" % (e[3], w, i))
        # order: the write must precede the advance
        for bb, evs in by_bb.items():
            pass
    else:
        role = "mixed"
        problems.append("closure both reads and writes raw slots; not a recognised protocol")
    # within a block / path: for builder, write must come before inc (advance before write is COUNT_AHEAD)
    if role == "builder":
        order_ok = _order_ok(a, by_bb, first="write", then="inc", region=region)
        if not order_ok:
            problems.append("position advanced before the slot is written")
    det = "slots=%d positions=%s foreign/panic sites=%d" % (len(slots), poss, len(info["at_foreign"]))
    info["unwind_problems"] = sorted(set(problems))
    info["normal_problems"] = sorted(set(normal))
    allp = info["unwind_problems"] + info["normal_problems"]
    return role, not allp, "; ".join(allp) if allp else det, info


def _order_ok(a, by_bb, first, then, region=None):
    """On every path, each `then` event is preceded by a `first` event (single-shot bodies)."""
    # dataflow: seen_first flag
    entries = (0,) if region is None else tuple(region.entries)
    states = {e0: {False} for e0 in entries}
    work = list(entries)
    done = set()
    ok = True
    while work:
        bb = work.pop()
        for st in list(states[bb]):
            if (bb, st) in done:
                continue
            done.add((bb, st))
            cur = st
            for e in by_bb.get(bb, []):
                if e[2] == first:
                    cur = True
                elif e[2] == then and not cur:
                    ok = False
            for s2 in a.edges.get(bb, []):
                if a.blocks[s2]["cleanup"]:
                    continue
                if region is not None and (s2 == region.nxt.bb or s2 not in region.blocks):
                    continue
                if cur not in states.setdefault(s2, set()):
                    states[s2].add(cur)
                    work.append(s2)
    return ok
