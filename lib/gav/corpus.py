"""C12 witness corpus: minimal programs in accept/reject pairs differing in exactly one length, bound or lifetime."""

from .witness import Twin

LEN = {"E0271", "E0277", "E0308", "E0599", "E0282", "E0283", "E0284"}
AUTO = {"E0277"}
LIFE = {"LIFETIME", "E0382", "E0499", "E0502", "E0503", "E0505", "E0506", "E0515", "E0597", "E0716", "E0521", "E0621", "E0308", "E0596", "E0106", "E0700", "E0594"}


def fn(body, sig="pub fn w()"):
    return "%s {\n%s\n}" % (sig, body)


def build(tier="quick"):
    T = []

    def add(name, accept, reject, codes, cfg="F0", items=""):
        T.append(Twin(name, accept, reject, codes, cfg, items))

    # ---- zip: nine stack receiver x argument forms ---------------------------------------------
    forms = {"own": ("a", "b"), "ref": ("&a", "&b"), "mut": ("&mut a", "&mut b")}
    for rk, (ra, _) in forms.items():
        for ak, (_, ab) in forms.items():
            pre = "let mut a: A3 = arr![1, 2, 3];\n    let mut b: GenericArray<u8, %s> = GenericArray::default();\n"
            call = "    let c = (%s).zip(%s, |x, y| { let _ = (&x, &y); 0u8 });" % (ra, ab)
            add("zip_%s_%s" % (rk, ak), fn(pre % "U3" + call), fn(pre % "U4" + call + " //~"), LEN)
    add("zip_boxed", fn("let a: Box<A3> = Box::new(arr![1, 2, 3]);\n    let b: Box<GenericArray<u8, U3>> = Box::new(GenericArray::default());\n    let c = a.zip(b, |x, y| x + y);"),
        fn("let a: Box<A3> = Box::new(arr![1, 2, 3]);\n    let b: Box<GenericArray<u8, U4>> = Box::new(GenericArray::default());\n    let c = a.zip(b, |x, y| x + y); //~"), LEN, "F1")
    add("zip_stack_with_box", fn("let a: A3 = arr![1, 2, 3];\n    let b: A3 = arr![1, 2, 3];\n    let c = a.zip(b, |x, y| x + y);"),
        fn("let a: A3 = arr![1, 2, 3];\n    let b: Box<A3> = Box::new(arr![1, 2, 3]);\n    let c = a.zip(b, |x, y| x + y); //~"), LEN, "F1")
    # ---- the doc-hidden drivers behind zip, called directly (public API all the same): lengths must agree, and are inferred through the bound
    for nm, recv, arg in (("own_own", "b", "a"), ("ref_own", "&b", "a"), ("own_ref", "b", "&a")):
        pre = "let a: A3 = arr![1, 2, 3];\n    let b: GenericArray<u8, %s> = GenericArray::default();\n"
        call = "    let c = (%s).inverted_zip2(%s, |x, y| { let _ = (&x, &y); 0u8 });" % (recv, arg)
        add("inverted_zip2_" + nm, fn(pre % "U3" + call), fn(pre % "U4" + call + " //~"), LEN)
    pre = "let a: A3 = arr![1, 2, 3];\n    let b: GenericArray<u8, %s> = GenericArray::default();\n"
    add("inverted_zip_own", fn(pre % "U3" + "    let c = b.inverted_zip(a, |x, y| { let _ = (&x, &y); 0u8 });"), fn(pre % "U4" + "    let c = b.inverted_zip(a, |x, y| { let _ = (&x, &y); 0u8 }); //~"), LEN)
    add("inverted_zip_ref", fn(pre % "U3" + "    let c = (&b).inverted_zip(a, |x, y| { let _ = (&x, &y); 0u8 });"), fn(pre % "U4" + "    let c = (&b).inverted_zip(a, |x, y| { let _ = (&x, &y); 0u8 }); //~"), LEN)
    # ---- comparisons whose right-hand side is left to inference: `==` on a GenericArray has one candidate impl, so the compiler infers type and
    # ---- length of the other side from the left one (a second PartialEq impl for GenericArray makes these correct programs ambiguous: E0283)
    for nm, rhs in (("into", "[5u8, 7, 9].into()"), ("default", "Default::default()"), ("generate", "GenericArray::generate(|i| i as u8)"),
                    ("collect", "(0u8..3).collect()"), ("from_iter", "core::iter::FromIterator::from_iter(0u8..3)")):
        pre = "let a: A3 = arr![1, 2, 3];\n    let b: %s = arr![4, 5, 6%s];\n"
        body = "    let c = a.zip(b, |x, y| x + y);%s\n    let _ = c == " + rhs + ";"
        add("eq_inferred_rhs_" + nm, fn(pre % ("A3", "") + body % ""), fn(pre % ("GenericArray<u8, U4>", ", 7") + body % " //~"), LEN)
    # ---- comparisons ---------------------------------------------------------------------------
    for nm, ex in (("eq", "a == b"), ("cmp", "a.cmp(&b) == core::cmp::Ordering::Less"), ("partial_cmp", "a.partial_cmp(&b).is_some()"), ("ne", "a != b")):
        pre = "let a: A3 = arr![1, 2, 3];\n    let b: GenericArray<u8, %s> = GenericArray::default();\n"
        add("cmp_" + nm, fn(pre % "U3" + "    let _ = %s;" % ex), fn(pre % "U4" + "    let _ = %s; //~" % ex), LEN)
    # ---- split ---------------------------------------------------------------------------------
    add("split_owned", fn("let a: A3 = arr![1, 2, 3];\n    let (x, y) = Split::<u8, U2>::split(a);\n    let _: (GenericArray<u8, U2>, GenericArray<u8, U1>) = (x, y);"),
        fn("let a: A3 = arr![1, 2, 3];\n    let (x, y) = Split::<u8, U4>::split(a); //~"), LEN)
    add("split_ref", fn("let a: A3 = arr![1, 2, 3];\n    let (x, y) = Split::<u8, U3>::split(&a);\n    let _: (&GenericArray<u8, U3>, &GenericArray<u8, U0>) = (x, y);"),
        fn("let a: A3 = arr![1, 2, 3];\n    let (x, y) = Split::<u8, U4>::split(&a); //~"), LEN)
    add("split_len_annotation", fn("let a: A4 = arr![1, 2, 3, 4];\n    let (x, y): (GenericArray<u8, U1>, GenericArray<u8, U3>) = a.split();"),
        fn("let a: A4 = arr![1, 2, 3, 4];\n    let (x, y): (GenericArray<u8, U1>, GenericArray<u8, U2>) = a.split(); //~"), LEN)
    # ---- shorten / remove on empty ---------------------------------------------------------------
    for op in ("pop_back()", "pop_front()", "remove(0)", "swap_remove(0)"):
        nm = op.split("(")[0]
        add("empty_" + nm, fn("let a: GenericArray<u8, U1> = arr![1];\n    let _ = a.%s;" % op), fn("let a: GenericArray<u8, U0> = arr![];\n    let _ = a.%s; //~" % op), LEN)
    # ---- lengthen / concat annotations -----------------------------------------------------------
    add("append_len", fn("let a: A3 = arr![1, 2, 3];\n    let b: GenericArray<u8, U4> = a.append(4);"), fn("let a: A3 = arr![1, 2, 3];\n    let b: GenericArray<u8, U5> = a.append(4); //~"), LEN)
    add("prepend_len", fn("let a: A3 = arr![1, 2, 3];\n    let b: GenericArray<u8, U4> = a.prepend(4);"), fn("let a: A3 = arr![1, 2, 3];\n    let b: GenericArray<u8, U3> = a.prepend(4); //~"), LEN)
    add("concat_len", fn("let a: A3 = arr![1, 2, 3];\n    let b: A4 = arr![1, 2, 3, 4];\n    let c: GenericArray<u8, U7> = a.concat(b);"),
        fn("let a: A3 = arr![1, 2, 3];\n    let b: A4 = arr![1, 2, 3, 4];\n    let c: GenericArray<u8, U8> = a.concat(b); //~"), LEN)
    add("pop_len", fn("let a: A3 = arr![1, 2, 3];\n    let (b, x): (GenericArray<u8, U2>, u8) = a.pop_back();"), fn("let a: A3 = arr![1, 2, 3];\n    let (b, x): (GenericArray<u8, U3>, u8) = a.pop_back(); //~"), LEN)
    add("remove_len", fn("let a: A3 = arr![1, 2, 3];\n    let (x, b): (u8, GenericArray<u8, U2>) = a.remove(1);"), fn("let a: A3 = arr![1, 2, 3];\n    let (x, b): (u8, GenericArray<u8, U1>) = a.remove(1); //~"), LEN)
    # ---- native arrays -----------------------------------------------------------------------------
    add("from_array", fn("let a: A3 = GenericArray::from_array([1, 2, 3]);"), fn("let a: A3 = GenericArray::from_array([1, 2, 3, 4]); //~"), LEN)
    add("into_array", fn("let a: A3 = arr![1, 2, 3];\n    let x: [u8; 3] = a.into_array();"), fn("let a: A3 = arr![1, 2, 3];\n    let x: [u8; 4] = a.into_array(); //~"), LEN)
    add("from_trait", fn("let a: A3 = From::from([1u8, 2, 3]);"), fn("let a: A3 = From::from([1u8, 2, 3, 4]); //~"), LEN)
    add("into_trait", fn("let a: A3 = arr![1, 2, 3];\n    let x: [u8; 3] = a.into();"), fn("let a: A3 = arr![1, 2, 3];\n    let x: [u8; 2] = a.into(); //~"), LEN)
    add("from_array_ref", fn("let x = [1u8, 2, 3];\n    let a: &A3 = (&x).into();"), fn("let x = [1u8, 2, 3, 4];\n    let a: &A3 = (&x).into(); //~"), LEN)
    add("as_ref_array", fn("let a: A3 = arr![1, 2, 3];\n    let x: &[u8; 3] = a.as_ref();"), fn("let a: A3 = arr![1, 2, 3];\n    let x: &[u8; 4] = a.as_ref(); //~"), LEN)
    add("as_mut_array", fn("let mut a: A3 = arr![1, 2, 3];\n    let x: &mut [u8; 3] = a.as_mut();"), fn("let mut a: A3 = arr![1, 2, 3];\n    let x: &mut [u8; 4] = a.as_mut(); //~"), LEN)
    add("as_mut_array_shorter", fn("let mut a: A4 = arr![1, 2, 3, 4];\n    let x: &mut [u8; 4] = a.as_mut();"), fn("let mut a: A4 = arr![1, 2, 3, 4];\n    let x: &mut [u8; 3] = a.as_mut(); //~"), LEN)
    add("as_ref_array_shorter", fn("let a: A4 = arr![1, 2, 3, 4];\n    let x: &[u8; 4] = a.as_ref();"), fn("let a: A4 = arr![1, 2, 3, 4];\n    let x: &[u8; 3] = a.as_ref(); //~"), LEN)
    add("from_ref_array_len", fn("let n = [1u8, 2, 3];\n    let x: &A3 = (&n).into();"), fn("let n = [1u8, 2, 3];\n    let x: &A4 = (&n).into(); //~"), LEN)
    add("from_mut_array_len", fn("let mut n = [1u8, 2, 3];\n    let x: &mut A3 = (&mut n).into();"), fn("let mut n = [1u8, 2, 3];\n    let x: &mut A4 = (&mut n).into(); //~"), LEN)
    add("const_array_length", fn("let a: GenericArray<u8, ConstArrayLength<3>> = arr![1, 2, 3];"), fn("let a: GenericArray<u8, ConstArrayLength<4>> = arr![1, 2, 3]; //~"), LEN)
    # ---- tuples --------------------------------------------------------------------------------------
    ks = range(1, 13) if tier == "thorough" else (1, 2, 5, 12)
    for k in ks:
        tup = "(" + "".join("%du8, " % i for i in range(k)) + ")"
        tty = "(" + "u8, " * k + ")"
        add("tuple_from_%d" % k, fn("let a: GenericArray<u8, U%d> = %s.into();" % (k, tup)), fn("let a: GenericArray<u8, U%d> = %s.into(); //~" % (k + 1, tup)), LEN)
        add("tuple_into_%d" % k, fn("let a: GenericArray<u8, U%d> = GenericArray::default();\n    let t: %s = a.into();" % (k, tty)),
            fn("let a: GenericArray<u8, U%d> = GenericArray::default();\n    let t: %s = a.into(); //~" % (k + 1, tty)), LEN)
    # ---- flatten / unflatten ---------------------------------------------------------------------------
    add("flatten_len", fn("let a = arr![arr![1u8, 2], arr![3, 4], arr![5, 6]];\n    let f: GenericArray<u8, U6> = a.flatten();"),
        fn("let a = arr![arr![1u8, 2], arr![3, 4], arr![5, 6]];\n    let f: GenericArray<u8, U5> = a.flatten(); //~"), LEN)
    add("unflatten_len", fn("let a: GenericArray<u8, U6> = arr![1, 2, 3, 4, 5, 6];\n    let u: GenericArray<GenericArray<u8, U2>, U3> = a.unflatten();"),
        fn("let a: GenericArray<u8, U6> = arr![1, 2, 3, 4, 5, 6];\n    let u: GenericArray<GenericArray<u8, U2>, U2> = a.unflatten(); //~"), LEN)
    add("flatten_ref_len", fn("let a = arr![arr![1u8, 2], arr![3, 4]];\n    let f: &GenericArray<u8, U4> = (&a).flatten();"),
        fn("let a = arr![arr![1u8, 2], arr![3, 4]];\n    let f: &GenericArray<u8, U6> = (&a).flatten(); //~"), LEN)
    # ---- chunks ------------------------------------------------------------------------------------------
    add("from_chunks", fn("let c = [[1u8, 2, 3]];\n    let s: &[A3] = GenericArray::from_chunks(&c);"), fn("let c = [[1u8, 2, 3, 4]];\n    let s: &[A3] = GenericArray::from_chunks(&c); //~"), LEN)
    add("into_chunks", fn("let c = [arr![1u8, 2, 3]];\n    let s: &[[u8; 3]] = GenericArray::into_chunks(&c);"), fn("let c = [arr![1u8, 2, 3]];\n    let s: &[[u8; 2]] = GenericArray::into_chunks(&c); //~"), LEN)
    # ---- macros ------------------------------------------------------------------------------------------
    add("arr_list_len", fn("let a: A3 = arr![1, 2, 3];"), fn("let a: A4 = arr![1, 2, 3]; //~"), LEN)
    add("arr_repeat_ty", fn("let a: A3 = arr![1u8; U3];"), fn("let a: A4 = arr![1u8; U3]; //~"), LEN)
    add("arr_repeat_const", fn("let a: A3 = arr![1u8; 3];"), fn("let a: A4 = arr![1u8; 3]; //~"), LEN)
    add("arr_empty", fn("let a: GenericArray<u8, U0> = arr![];"), fn("let a: GenericArray<u8, U1> = arr![]; //~"), LEN)
    add("box_arr_len", fn("let a: Box<A3> = generic_array::box_arr![1, 2, 3];"), fn("let a: Box<A4> = generic_array::box_arr![1, 2, 3]; //~"), LEN, "F1")
    # ---- auto traits -----------------------------------------------------------------------------------------
    add("send_array", fn("need_send::<GenericArray<u8, U3>>();"), fn("need_send::<GenericArray<Rc<u8>, U3>>(); //~"), AUTO)
    add("sync_array", fn("need_sync::<GenericArray<u8, U3>>();"), fn("need_sync::<GenericArray<Cell<u8>, U3>>(); //~"), AUTO)
    add("send_iter", fn("need_send::<GenericArrayIter<u8, U3>>();"), fn("need_send::<GenericArrayIter<Rc<u8>, U3>>(); //~"), AUTO)
    add("sync_iter", fn("need_sync::<GenericArrayIter<u8, U3>>();"), fn("need_sync::<GenericArrayIter<Cell<u8>, U3>>(); //~"), AUTO)
    add("send_ref_needs_sync", fn("need_send::<&GenericArray<u8, U3>>();"), fn("need_send::<&GenericArray<Cell<u8>, U3>>(); //~"), AUTO)
    add("send_generic", "pub fn w<T: Send, N: ArrayLength>() { need_send::<GenericArray<T, N>>(); }", "pub fn w<T, N: ArrayLength>() { need_send::<GenericArray<T, N>>(); } //~", AUTO)
    add("sync_generic", "pub fn w<T: Sync, N: ArrayLength>() { need_sync::<GenericArray<T, N>>(); }", "pub fn w<T: Send, N: ArrayLength>() { need_sync::<GenericArray<T, N>>(); } //~", AUTO)
    add("copy_array", fn("need_copy::<GenericArray<u8, U3>>();"), fn("need_copy::<GenericArray<String, U3>>(); //~"), AUTO)
    add("copy_generic", "pub fn w<T: Copy>() { need_copy::<GenericArray<T, U5>>(); }", "pub fn w<T: Clone>() { need_copy::<GenericArray<T, U5>>(); } //~", AUTO)
    add("clone_array", fn("need_clone::<GenericArray<String, U3>>();"), fn("need_clone::<GenericArray<NoClone, U3>>(); //~"), AUTO)
    add("clone_iter", fn("need_clone::<GenericArrayIter<String, U3>>();"), fn("need_clone::<GenericArrayIter<NoClone, U3>>(); //~"), AUTO)
    add("copy_iter_never", fn("need_clone::<GenericArrayIter<u8, U3>>();"), fn("need_copy::<GenericArrayIter<u8, U3>>(); //~"), AUTO)
    add("sealed_array_length", "pub fn w<N: ArrayLength>() {}\npub fn v() { w::<U3>(); }", "pub struct Mine;\npub fn w<N: ArrayLength>() {}\npub fn v() { w::<Mine>(); } //~", AUTO)
    add("impl_array_length_outside", "pub fn w() {}", "pub struct Mine;\nunsafe impl ArrayLength for Mine { type ArrayType<T> = [T; 3]; } //~", {"E0277", "E0603", "E0412", "E0433", "E0117"})
    # ---- lifetimes: views ---------------------------------------------------------------------------------------
    views = [
        ("as_slice", "&'a A3", "&'a [u8]", "a.as_slice()", "let a: A3 = arr![1, 2, 3];"),
        ("deref", "&'a A3", "&'a [u8]", "&a[..]", "let a: A3 = arr![1, 2, 3];"),
        ("as_ref", "&'a A3", "&'a [u8]", "a.as_ref()", "let a: A3 = arr![1, 2, 3];"),
        ("borrow", "&'a A3", "&'a [u8]", "core::borrow::Borrow::borrow(a)", "let a: A3 = arr![1, 2, 3];"),
        ("as_ref_native", "&'a A3", "&'a [u8; 3]", "a.as_ref()", "let a: A3 = arr![1, 2, 3];"),
        ("iter_ref", "&'a A3", "core::slice::Iter<'a, u8>", "a.into_iter()", "let a: A3 = arr![1, 2, 3];"),
        ("from_slice", "&'a [u8]", "&'a A3", "GenericArray::from_slice(a)", "let a: [u8; 3] = [1, 2, 3];"),
        ("try_from_slice", "&'a [u8]", "&'a A3", "GenericArray::try_from_slice(a).unwrap()", "let a: [u8; 3] = [1, 2, 3];"),
        ("try_from_trait", "&'a [u8]", "&'a A3", "<&A3>::try_from(a).unwrap()", "let a: [u8; 3] = [1, 2, 3];"),
        ("chunks_from_slice", "&'a [u8]", "&'a [A3]", "GenericArray::chunks_from_slice(a).0", "let a: [u8; 7] = [0; 7];"),
        ("chunks_remainder", "&'a [u8]", "&'a [u8]", "GenericArray::<u8, U3>::chunks_from_slice(a).1", "let a: [u8; 7] = [0; 7];"),
        ("slice_from_chunks", "&'a [A3]", "&'a [u8]", "GenericArray::slice_from_chunks(a)", "let a: [A3; 2] = [arr![1, 2, 3], arr![4, 5, 6]];"),
        ("from_chunks", "&'a [[u8; 3]]", "&'a [A3]", "GenericArray::from_chunks(a)", "let a: [[u8; 3]; 2] = [[0; 3]; 2];"),
        ("into_chunks", "&'a [A3]", "&'a [[u8; 3]]", "GenericArray::into_chunks(a)", "let a: [A3; 2] = [arr![1, 2, 3], arr![4, 5, 6]];"),
        ("split_ref_head", "&'a A4", "&'a GenericArray<u8, U1>", "Split::<u8, U1>::split(a).0", "let a: A4 = arr![1, 2, 3, 4];"),
        ("split_ref_tail", "&'a A4", "&'a GenericArray<u8, U3>", "Split::<u8, U1>::split(a).1", "let a: A4 = arr![1, 2, 3, 4];"),
        ("flatten_ref", "&'a GenericArray<GenericArray<u8, U2>, U2>", "&'a A4", "a.flatten()", "let a = arr![arr![1u8, 2], arr![3, 4]];"),
        ("unflatten_ref", "&'a A4", "&'a GenericArray<GenericArray<u8, U2>, U2>", "a.unflatten()", "let a: A4 = arr![1, 2, 3, 4];"),
        ("from_array_ref", "&'a [u8; 3]", "&'a A3", "a.into()", "let a: [u8; 3] = [1, 2, 3];"),
    ]
    for nm, inty, outty, expr, local in views:
        acc = "pub fn w<'a>(a: %s) -> %s { %s }" % (inty, outty, expr)
        rej = "pub fn w<'a>() -> %s {\n    %s\n    let a = &a;\n    %s //~\n}" % (outty, local, expr)
        add("life_" + nm, acc, rej, LIFE)
        # 'static upgrade
        add("static_" + nm, acc, "pub fn w<'a>(a: %s) -> %s { %s } //~" % (inty, outty.replace("'a", "'static"), expr), LIFE)
    mviews = [
        ("as_mut_slice", "&'a mut A3", "&'a mut [u8]", "{a}.as_mut_slice()", "&'a A3"),
        ("deref_mut", "&'a mut A3", "&'a mut [u8]", "&mut {a}[..]", "&'a A3"),
        ("as_mut", "&'a mut A3", "&'a mut [u8]", "{a}.as_mut()", "&'a A3"),
        ("from_mut_slice", "&'a mut [u8]", "&'a mut A3", "GenericArray::from_mut_slice({a})", "&'a [u8]"),
        ("try_from_mut_slice", "&'a mut [u8]", "&'a mut A3", "GenericArray::try_from_mut_slice({a}).unwrap()", "&'a [u8]"),
        ("chunks_from_slice_mut", "&'a mut [u8]", "&'a mut [A3]", "GenericArray::chunks_from_slice_mut({a}).0", "&'a [u8]"),
        ("slice_from_chunks_mut", "&'a mut [A3]", "&'a mut [u8]", "GenericArray::slice_from_chunks_mut({a})", "&'a [A3]"),
        ("from_chunks_mut", "&'a mut [[u8; 3]]", "&'a mut [A3]", "GenericArray::from_chunks_mut({a})", "&'a [[u8; 3]]"),
        ("into_chunks_mut", "&'a mut [A3]", "&'a mut [[u8; 3]]", "GenericArray::into_chunks_mut({a})", "&'a [A3]"),
        ("split_mut_head", "&'a mut A4", "&'a mut GenericArray<u8, U1>", "Split::<u8, U1>::split({a}).0", "&'a A4"),
        ("flatten_mut", "&'a mut GenericArray<GenericArray<u8, U2>, U2>", "&'a mut A4", "{a}.flatten()", "&'a GenericArray<GenericArray<u8, U2>, U2>"),
        ("unflatten_mut", "&'a mut A4", "&'a mut GenericArray<GenericArray<u8, U2>, U2>", "{a}.unflatten()", "&'a A4"),
        ("from_array_mut", "&'a mut [u8; 3]", "&'a mut A3", "{a}.into()", "&'a [u8; 3]"),
    ]
    for nm, inty, outty, tmpl, sharedin in mviews:
        acc = "pub fn w<'a>(a: %s) -> %s { %s }" % (inty, outty, tmpl.format(a="a"))
        # upgrading a shared reference to a mutable one must not type-check
        add("mut_" + nm, acc, "pub fn w<'a>(a: %s) -> %s { %s } //~" % (sharedin, outty, tmpl.format(a="a")), LIFE | LEN)
        # two live mutable views of the same source
        plain = outty.replace("'a ", "")
        reb = tmpl.format(a="(&mut *a)")
        add("alias_" + nm,
            "pub fn w<'a>(a: %s) {\n    { let x: %s = %s; let _ = &x; }\n    let a2 = &mut *a;\n    let _ = &a2;\n}" % (inty, plain, reb),
            "pub fn w<'a>(a: %s) {\n    let x: %s = %s;\n    let a2 = &mut *a; //~\n    let _ = (&x, &a2);\n}" % (inty, plain, reb), LIFE)
    # iterator views
    add("life_iter_as_slice", "pub fn w<'a>(i: &'a GenericArrayIter<u8, U3>) -> &'a [u8] { i.as_slice() }",
        "pub fn w<'a>() -> &'a [u8] {\n    let i = A3::default().into_iter();\n    i.as_slice() //~\n}", LIFE)
    add("mut_iter_as_mut_slice", "pub fn w<'a>(i: &'a mut GenericArrayIter<u8, U3>) -> &'a mut [u8] { i.as_mut_slice() }",
        "pub fn w<'a>(i: &'a GenericArrayIter<u8, U3>) -> &'a mut [u8] { i.as_mut_slice() } //~", LIFE)
    # arr! contents keep their lifetime (the crate's own doctest)
    add("arr_lifetime", "pub fn w<'a, A>(a: &'a A) -> &'a A { arr![a][0] }", "pub fn w<'a, A>(a: &'a A) -> &'static A { arr![a as &A][0] } //~", LIFE)
    add("arr_repeat_lifetime", "pub fn w<'a>(a: &'a u8) -> &'a u8 { arr![a; U2][0] }", "pub fn w<'a>(a: &'a u8) -> &'static u8 { arr![a; U2][0] } //~", LIFE)
    # moved-out array cannot be used again
    add("move_into_iter", fn("let a: GenericArray<String, U1> = arr![String::new()];\n    let b = a.clone();\n    let _ = a.into_iter();\n    let _ = b;"),
        fn("let a: GenericArray<String, U1> = arr![String::new()];\n    let _ = a.into_iter();\n    drop(a); //~"), LIFE)
    add("move_map", fn("let a: GenericArray<String, U1> = arr![String::new()];\n    let _ = (&a).map(|s| s.len());\n    let _ = a;"),
        fn("let a: GenericArray<String, U1> = arr![String::new()];\n    let _ = a.map(|s| s.len());\n    drop(a); //~"), LIFE)
    return T
