"""Building /repo's current working tree under the driver and compiling witness programs."""

import json
import os
import shutil
import subprocess
import tempfile
import time
import uuid

VERIF = os.path.dirname(os.path.dirname(os.path.dirname(os.path.abspath(__file__))))
REPO = os.environ.get("GAV_REPO", "/repo")
DRIVER = os.path.join(VERIF, "tools", "driver", "target", "release", "gav-driver")

CONFIGS = {
    "F0": "",
    "F1": "alloc serde zeroize const-default internals",
    "F2": "alloc serde zeroize const-default internals faster-hex",
    # F1 without debug assertions (overflow checks kept): the MIR a release build starts from, minus wrapping arithmetic. Whatever a rule proves
    # with the help of a `debug_assert!` (or any `cfg(debug_assertions)` code) does not hold here
    "F1N": "alloc serde zeroize const-default internals",
    "F0N": "",
    "F2N": "alloc serde zeroize const-default internals faster-hex",
}
_NOASSERT = "-C debug-assertions=off -C overflow-checks=on"
PROFILE_FLAGS = {"F1N": _NOASSERT, "F0N": _NOASSERT, "F2N": _NOASSERT}


def nightly_sysroot():
    return subprocess.check_output(["rustc", "+nightly", "--print", "sysroot"], text=True).strip()


_SYSROOT = None


def base_env():
    global _SYSROOT
    if _SYSROOT is None:
        _SYSROOT = nightly_sysroot()
    env = dict(os.environ)
    env["CARGO_NET_OFFLINE"] = "true"
    env["LD_LIBRARY_PATH"] = _SYSROOT + "/lib" + (":" + env["LD_LIBRARY_PATH"] if env.get("LD_LIBRARY_PATH") else "")
    env.pop("RUSTC_WRAPPER", None)
    return env


class BuildError(Exception):
    pass


def ensure_driver():
    """Build the driver if the binary is missing or older than its sources."""
    src = os.path.join(VERIF, "tools", "driver", "src")
    newest = max(os.path.getmtime(os.path.join(src, f)) for f in os.listdir(src))
    if os.path.exists(DRIVER) and os.path.getmtime(DRIVER) >= newest:
        return
    r = subprocess.run(
        ["cargo", "+nightly", "build", "--release", "--offline"],
        cwd=os.path.join(VERIF, "tools", "driver"), env=base_env(), capture_output=True, text=True)
    if r.returncode != 0:
        raise BuildError("driver build failed:\n" + r.stderr[-4000:])


class Build:
    """One driver run of /repo under a feature configuration, in a fresh target dir."""

    def __init__(self, cfg, extra_rustflags=""):
        self.cfg = cfg
        self.features = CONFIGS[cfg]
        self.dir = tempfile.mkdtemp(prefix="gav-%s-" % cfg)
        self.facts_path = os.path.join(self.dir, "facts.json")
        self.nonce = uuid.uuid4().hex
        self.extra = extra_rustflags
        self.wall = 0.0

    def run(self):
        ensure_driver()
        env = base_env()
        env["RUSTFLAGS"] = ("-Zmir-opt-level=0 -Awarnings " + self.extra + " " + PROFILE_FLAGS.get(self.cfg, "") + " " + os.environ.get("GAV_EXTRA_RUSTFLAGS", "")).strip()
        env["RUSTC_WORKSPACE_WRAPPER"] = DRIVER
        env["GAV_OUT"] = self.facts_path
        env["GAV_NONCE"] = self.nonce
        env["CARGO_TARGET_DIR"] = os.path.join(self.dir, "t")
        cmd = ["cargo", "+nightly", "check", "--offline", "--lib", "--manifest-path", os.path.join(REPO, "Cargo.toml")]
        if self.features:
            cmd += ["--features", self.features]
        t0 = time.time()
        r = subprocess.run(cmd, env=env, capture_output=True, text=True, cwd=REPO)
        self.wall = time.time() - t0
        self.stderr = r.stderr
        if r.returncode != 0:
            raise BuildError("cargo check failed under %s:\n%s" % (self.cfg, r.stderr[-6000:]))
        if not os.path.exists(self.facts_path):
            raise BuildError("driver did not write a fact file under %s (stale cache?)" % self.cfg)
        with open(self.facts_path) as f:
            d = json.load(f)
        if d.get("nonce") != self.nonce:
            raise BuildError("fact file nonce mismatch under %s" % self.cfg)
        self.facts = d
        return d

    def deps_dir(self):
        return os.path.join(self.dir, "t", "debug", "deps")

    def rmeta(self):
        for f in os.listdir(self.deps_dir()):
            if f.startswith("libgeneric_array-") and f.endswith(".rmeta"):
                return os.path.join(self.deps_dir(), f)
        raise BuildError("no rmeta for generic_array")

    def compile_witness(self, src_path, out_facts=None, crate_name="witness", layout_req=None, extra_args=None, edition="2021"):
        """Compile a witness crate against this build with the driver (nightly). Returns (rc, diagnostics list, facts|None)."""
        env = base_env()
        outdir = tempfile.mkdtemp(prefix="w-", dir=self.dir)
        cmd = [DRIVER, "rustc", "--edition", edition, "--crate-type", "lib", "--crate-name", crate_name,
               "--emit=metadata", "--error-format=json", "-Awarnings", "-Zmir-opt-level=0",
               "--extern", "generic_array=" + self.rmeta(), "-L", "dependency=" + self.deps_dir(),
               "--out-dir", outdir, src_path]
        for f in self.features.split():
            cmd += ["--cfg", 'feature="%s"' % f]
        cmd += PROFILE_FLAGS.get(self.cfg, "").split()
        if extra_args:
            cmd += extra_args
        if out_facts:
            env["GAV_OUT"] = out_facts
            env["GAV_CRATE"] = crate_name
            env["GAV_NONCE"] = self.nonce
            if layout_req:
                env["GAV_LAYOUT"] = layout_req
        else:
            env.pop("GAV_OUT", None)
        r = subprocess.run(cmd, env=env, capture_output=True, text=True)
        diags = []
        for line in r.stderr.splitlines():
            line = line.strip()
            if line.startswith("{"):
                try:
                    diags.append(json.loads(line))
                except Exception:
                    pass
        facts = None
        if out_facts and os.path.exists(out_facts):
            with open(out_facts) as f:
                facts = json.load(f)
        shutil.rmtree(outdir, ignore_errors=True)
        return r.returncode, diags, facts, r.stderr

    def cleanup(self):
        shutil.rmtree(self.dir, ignore_errors=True)


class StableBuild:
    """`cargo check` of /repo with the default stable toolchain, for witness compilation on stable."""

    def __init__(self, cfg):
        self.cfg = cfg
        self.features = CONFIGS[cfg]
        self.dir = tempfile.mkdtemp(prefix="gav-stable-%s-" % cfg)

    def run(self):
        env = dict(os.environ)
        env["CARGO_NET_OFFLINE"] = "true"
        env["CARGO_TARGET_DIR"] = os.path.join(self.dir, "t")
        env["RUSTFLAGS"] = "-Awarnings"
        env.pop("RUSTC_WORKSPACE_WRAPPER", None)
        cmd = ["cargo", "check", "--offline", "--lib", "--manifest-path", os.path.join(REPO, "Cargo.toml")]
        if self.features:
            cmd += ["--features", self.features]
        r = subprocess.run(cmd, env=env, capture_output=True, text=True, cwd=REPO)
        if r.returncode != 0:
            raise BuildError("stable cargo check failed under %s:\n%s" % (self.cfg, r.stderr[-4000:]))

    def deps_dir(self):
        return os.path.join(self.dir, "t", "debug", "deps")

    def rmeta(self):
        for f in os.listdir(self.deps_dir()):
            if f.startswith("libgeneric_array-") and f.endswith(".rmeta"):
                return os.path.join(self.deps_dir(), f)
        raise BuildError("no rmeta for generic_array")

    def compile(self, src_path, crate_name="witness", edition="2021"):
        outdir = tempfile.mkdtemp(prefix="w-", dir=self.dir)
        cmd = ["rustc", "--edition", edition, "--crate-type", "lib", "--crate-name", crate_name,
               "--emit=metadata", "--error-format=json", "-Awarnings",
               "--extern", "generic_array=" + self.rmeta(), "-L", "dependency=" + self.deps_dir(),
               "--out-dir", outdir, src_path]
        for f in self.features.split():
            cmd += ["--cfg", 'feature="%s"' % f]
        r = subprocess.run(cmd, capture_output=True, text=True)
        diags = []
        for line in r.stderr.splitlines():
            if line.startswith("{"):
                try:
                    diags.append(json.loads(line))
                except Exception:
                    pass
        shutil.rmtree(outdir, ignore_errors=True)
        return r.returncode, diags, r.stderr

    def cleanup(self):
        shutil.rmtree(self.dir, ignore_errors=True)
