"""Ownership rules shared by C03 / C04 / C05 / C16 / C17: tracked owners, closure-to-owner linking,
owner liveness on unwind edges, raw-write discipline in non-closure code."""

from .poly import Poly
from .typestate import Classifier, check_closure_protocol, has_generic, upvar_of
from .rules import vstr, fstr
from .core import PROVED, REFUTED, UNKNOWN, MISSING


def owner_adts(db):
    """Local ADTs with a Drop impl and an `array` storage field plus usize position fields."""
    out = {}
    for p, a in db.adts.items():
        if not a["has_drop"]:
            continue
        names = [f["name"] for f in a["fields"]]
        pos = [i for i, f in enumerate(a["fields"]) if f["s"] == "usize"]
        arr = [i for i, f in enumerate(a["fields"]) if "GenericArray<" in f["s"]]
        if pos and arr:
            out[p] = {"array": arr[0], "pos": pos, "names": names, "array_is_ref": a["fields"][arr[0]]["s"].startswith("&")}
    return out


def local_adt(a, n):
    t = a.local_ty(n)
    return t["def"] if t.get("k") == "adt" else None


def find_in(term, pred, depth=0):
    """All sub-terms satisfying pred."""
    out = []
    if depth > 12:
        return out
    if pred(term):
        out.append(term)
    if isinstance(term, tuple):
        for x in term:
            if isinstance(x, tuple):
                out.extend(find_in(x, pred, depth + 1))
    return out


def unwind_drops(a, call):
    """Locals dropped on the unwind path of a call (following pruned edges, i.e. drop flags as known at the call)."""
    t = call.term
    if not isinstance(t.get("unwind"), dict):
        return set(), False
    start = t["unwind"]["cleanup"]
    seen, work = {start}, [start]
    while work:
        n = work.pop()
        for s2 in a.edges.get(n, []):
            if s2 not in seen:
                seen.add(s2)
                work.append(s2)
    dropped = set()
    for d in a.drops:
        if d["bb"] in seen and not d["place"]["p"]:
            dropped.add(d["place"]["l"])
    return dropped, True


SHORT_CIRCUIT = ("try_for_each", "try_fold", "try_rfold", "find", "find_map", "any", "all", "position", "rposition", "take_while", "map_while", "try_find", "rfind")


def never_breaks(call):
    """The driver cannot stop before its pipeline is exhausted: a plain fold / for_each / collect, or a `try_*` driver whose residual type is
    uninhabited (`Result<_, Infallible>`, `Result<_, !>`)."""
    name = call.fn.split("::")[-1]
    if name not in SHORT_CIRCUIT:
        return True
    if not name.startswith("try_"):
        return False

    def infallible(t, depth=0):
        if t is None or depth > 3:
            return False
        if t.get("k") == "adt" and t["def"] == "core::result::Result":
            e = [x for x in t["args"] if x.get("k") != "region"]
            return len(e) == 2 and ((e[1].get("k") == "adt" and e[1]["def"] == "core::convert::Infallible") or e[1].get("k") == "never")
        if t.get("k") == "adt" and t["def"] == "core::ops::ControlFlow":
            e = [x for x in t["args"] if x.get("k") != "region"]
            return bool(e) and ((e[0].get("k") == "adt" and e[0]["def"] == "core::convert::Infallible") or e[0].get("k") == "never")
        return False
    return any(infallible(t) for t in call.targs)


def resolved_args(a, call):
    """The call's arguments with a `&mut iterator` receiver replaced by the iterator pipeline it points to (try_fold / try_for_each / by_ref take
    `&mut self`)."""
    from .absint import State
    out = []
    for x in call.args:
        if isinstance(x, tuple) and len(x) == 4 and x[0] == "P" and x[3] is None and not x[2].t and x[1] and x[1][0] == "local":
            v = a.read_cell(State(call.mem, call.facts), x[1], (), None)
            if isinstance(v, tuple) and len(v) >= 3 and v[0] == "V" and v[1] == "iter":
                out.append(v)
                continue
        out.append(x)
    return out


LOW_POS = {"index", "position"}      # claimed range is [pos, ..): consumers advance it past a slot they moved out
HIGH_POS = {"index_back"}            # claimed range is [.., pos): shrinks from the back


def range_driver(drv, ap=None):
    """(Range aggregate, +1 forward / -1 backward) if the driver call folds directly over a `lo..hi` range, else None.
    The crate's own `generate` counts as the forward driver over 0..N of the sequence it builds: it calls its closure with 0, 1, .., N-1 in
    ascending order, once each (C08.G decides that for every generate in the crate)."""
    if ap is not None and drv.fn.endswith("GenericSequence::generate") and drv.targs and drv.args and isinstance(drv.args[0], tuple) and drv.args[0][0] == "A":
        from .tys import adt_args, is_ga
        t = drv.targs[0]
        for _ in range(4):
            if isinstance(t, dict) and t.get("k") == "alias":
                t = ap.tenv.resolve_local_assoc(t)
            elif isinstance(t, dict) and t.get("k") == "adt" and t["def"] == "alloc::boxed::Box":
                t = adt_args(t)[0]
            elif isinstance(t, dict) and t.get("k") == "ref":
                t = t.get("t")
            else:
                break
        if isinstance(t, dict) and is_ga(t):
            n_ = ap.tenv.length(adt_args(t)[1])
            return ("A", ("adt", "core::ops::Range", 0), (("I", Poly.const(0)), ("I", n_))), 1
    fwd = ("core::iter::Iterator::fold", "core::iter::Iterator::for_each", "core::iter::Iterator::try_fold", "core::iter::Iterator::try_for_each")
    bwd = ("core::iter::DoubleEndedIterator::rfold", "core::iter::DoubleEndedIterator::try_rfold")
    if drv.fn not in fwd + bwd or not drv.args:
        return None
    r = drv.args[0]
    if isinstance(r, tuple) and len(r) == 3 and r[0] == "A" and isinstance(r[1], tuple) and r[1][:2] == ("adt", "core::ops::Range") and len(r[2]) == 2 and r[2][0][0] == "I" and r[2][1][0] == "I":
        return r, (1 if drv.fn in fwd else -1)
    return None


def indexed_traversal(ap, drv, g, info, role, owners):
    """For a closure with index-addressed slots: list of storage bases (to be matched against the owner's storage) or None with a reason.
    Requires: the driver folds directly over `lo..hi`; every base upvar points at offset 0 of some storage; for each position upvar that is a
    field of a tracked owner, [lo, hi) is exactly that owner's claimed range at the driver call and an absolute store `*pos = i + c` has
    c = 1 on a low position travelling forward, c = 0 on a high position travelling backward (so the slot just moved out is disowned), or - for a
    builder - c = 1 on its position travelling forward (the slot just written is counted)."""
    from .absint import State
    if not info.get("indexed") and info.get("enum_abs"):
        # `*pos = k + 1` with k the index `enumerate()` pairs with slot k: the pipeline must enumerate the owner's slots from slot 0 directly
        # (index k IS the slot's position), travelling forward, and the position must be 0 at the driver call
        from .typestate import upvar_of  # noqa: F401
        st = State(drv.mem, drv.facts)
        enums = []
        for x in resolved_args(ap, drv):
            enums += find_in(x, lambda t: isinstance(t, tuple) and len(t) == 4 and t[0] == "V" and t[1] == "iter" and t[2] == "enumerate")
        direct = [e for e in enums if isinstance(e[3], tuple) and len(e[3]) == 5 and e[3][:3] == ("V", "iter", "slice") and not e[3][3][2].t]
        rev = any(find_in(x, lambda t: isinstance(t, tuple) and len(t) >= 3 and t[0] == "V" and t[1] == "iter" and t[2] in ("rev", "skip", "step_by", "filter", "chain")) for x in resolved_args(ap, drv))
        if len(enums) != 1 or len(direct) != 1 or rev:
            return None, "the cursor is stored as `index + 1` but the pipeline does not enumerate the owner's slots from slot 0 directly (enumerate sites: %d)" % len(enums)
        for k in info["positions"]:
            op = g["ops"][k] if k < len(g["ops"]) else None
            if op is not None and op[0] == "P" and op[1][0] == "field" and len(op[1][2]) == 1:
                c = info["abs"].get(k)
                v = ap.read_cell(st, op[1][1], (op[1][2][0],), {"k": "prim", "n": "usize"})
                zero = v[0] == "I" and ap.prove(drv.facts, "Eq", v[1], Poly.const(0))
                if c is not None and (c != 1 or not zero):
                    return None, "absolute store `*pos = index + %d` needs index + 1 and a position that is 0 when the traversal starts (position at the driver: %s)" % (c, vstr(v))
        return [], ""
    if not info.get("indexed"):
        return [], ""
    rd = range_driver(drv, ap)
    if rd is None:
        return None, "slots are addressed by an index parameter but the driver %s does not fold directly over a `lo..hi` range" % drv.fn
    (_r, direction) = rd
    lo, hi = rd[0][2][0][1], rd[0][2][1][1]
    st = State(drv.mem, drv.facts)
    bases = []
    for (k, depth, ix) in info["indexed"]:
        op = g["ops"][k] if k < len(g["ops"]) else None
        if op is None or op[0] != "P" or op[2].t:
            return None, "base upvar %d is not a tracked pointer: %r" % (k, op)
        if depth == 2:
            op = ap.read_cell(st, op[1], (), None)
            if op is None or op[0] != "P" or op[2].t:
                return None, "the variable base upvar %d refers to does not hold a tracked pointer" % k
        bases.append(op[1])
    for k in info["positions"]:
        op = g["ops"][k] if k < len(g["ops"]) else None
        if not (op is not None and op[0] == "P" and op[1][0] == "field" and not op[2].t and len(op[1][2]) == 1):
            continue
        obase, fld = op[1][1], op[1][2][0]
        adt = local_adt(ap, obase[1]) if obase[0] == "local" else None
        if adt not in owners:
            continue
        o = owners[adt]
        name = o["names"][fld]
        # claimed range of this owner at the driver call
        def val(nm):
            if nm not in o["names"]:
                return None
            v = ap.read_cell(st, obase, (o["names"].index(nm),), {"k": "prim", "n": "usize"})
            return v[1] if v[0] == "I" else None
        lt = ap.local_ty(obase[1])
        N = ap.tenv.length([x for x in lt["args"] if x.get("k") != "region"][-1])
        if "index" in o["names"]:
            c_lo, c_hi = val("index"), val("index_back")
        elif role == "builder":
            c_lo, c_hi = val("position"), N    # slots still to be written
        else:
            c_lo, c_hi = val("position"), N
        if c_lo is None or c_hi is None or not (ap.prove(drv.facts, "Eq", lo, c_lo) and ap.prove(drv.facts, "Eq", hi, c_hi)):
            return None, "the driver's range [%r, %r) is not the owner's claimed range [%r, %r) at that call" % (lo, hi, c_lo, c_hi)
        c = info["abs"].get(k)
        if c is not None:
            want = None
            if role == "builder":
                want = (1, 1) if name == "position" else None
            elif name in LOW_POS:
                want = (1, 1)
            elif name in HIGH_POS:
                want = (-1, 0)
            if want is None or (direction, c) != want:
                return None, "absolute store `*%s = i + %d` while travelling %s does not disown (resp. count) exactly the slot just moved" % (name, c, "forward" if direction == 1 else "backward")
        else:
            # relative advance next to index-addressed slots: the direction must still fit the kind of position
            if (name in LOW_POS and direction != 1) or (name in HIGH_POS and direction != -1):
                return None, "position %s is advanced while the range is travelled in the other direction" % name
    return bases, ""


# adaptors between an owner's slot iterator and the code that moves the elements which keep "the k-th item handed on is the k-th item the slot iterator yields"
LOCKSTEP_OK = {"enumerate", "zip", "map", "take", "inspect", "by_ref", "copied", "cloned", "rev", "slice", "peekable", "take_while", "map_while", "fuse"}


def lockstep(a, terms, owner_slices, pos_val, role, back, facts, check_start, S_=None):
    """The cursor of a builder / consumer says WHICH slots hold live elements, so the slot a step moves must be the slot the cursor designates:
    (i) nothing between the owner's slot iterator and the step drops or reorders slots (skip, step_by, filter, chain, ...; `rev` under a builder),
    (ii) the traversal starts at the cursor - slot iterator from element `cursor` on (forward) or ending at it (backward) when the traversal begins.
    Returns (ok, detail)."""
    bad = []
    by_skip = []
    for sl in owner_slices:
        def go(t, sl=sl):
            if t == sl:
                return True
            if not isinstance(t, tuple):
                return False
            hit = False
            for x in t:
                if isinstance(x, tuple) and go(x):
                    hit = True
            if hit and len(t) >= 3 and t[0] == "V" and t[1] == "iter" and isinstance(t[2], str) and (t[2] not in LOCKSTEP_OK or (t[2] == "rev" and role == "builder")):
                if (t[2] == "skip" and len(t) >= 5 and t[3] == sl and isinstance(t[4], tuple) and t[4] and t[4][0] == "I" and pos_val is not None and pos_val[0] == "I"
                        and t[4][1] == pos_val[1] and sl[3][0] == "P" and not sl[3][2].t and not back):
                    # `slots.skip(cursor)` directly over the owner's whole storage: the traversal starts at the slot the cursor designates
                    by_skip.append(sl)
                else:
                    bad.append(t[2])
            return hit
        for t in terms:
            go(t)
    det = "slots reach the step in the order and number the slot iterator yields them%s" % ("" if not bad else " - NO: adaptor(s) %s in between" % sorted(set(bad)))
    ok = not bad
    if check_start and owner_slices:
        start_ok = False
        if pos_val is not None and pos_val[0] == "I":
            for sl in owner_slices:
                ptr = sl[3]
                if ptr[0] != "P" or ptr[3] is None:
                    continue
                if sl in by_skip:
                    start_ok = True
                    continue
                if ptr[2].t or pos_val[1].t or back:
                    # a non-zero offset / cursor: compare in elements of the storage's stride
                    from .poly import prove
                    if S_ is not None:
                        if back:
                            if prove(("==", ptr[2] + ptr[3] * S_ - pos_val[1] * S_), a.poly_facts(facts)):
                                start_ok = True
                        elif prove(("==", ptr[2] - pos_val[1] * S_), a.poly_facts(facts)):
                            start_ok = True
                elif not back:
                    start_ok = True   # offset 0, cursor 0
        else:
            start_ok = None
        if start_ok is None:
            det += "; where the traversal starts relative to the cursor is not decided here (cursor %s)" % (vstr(pos_val),)
        else:
            det += "; the traversal starts at the slot the cursor designates (cursor %s): %s" % (vstr(pos_val), start_ok)
            ok = ok and start_ok
    return ok, det


def link_closure(ctx, cfg, cb, info, role, rule):
    """Parent-side obligations for an element-moving closure: its positions are fields of tracked owners,
    its slots come from those owners' storage, and each owner is dropped on the unwind path of the call that drives the closure."""
    db = ctx.db(cfg)
    owners = owner_adts(db)
    parent = db.by_path.get(cb["root"])
    if parent is None:
        ctx.ob(rule, cb["key"] + "#parent", MISSING, "parent body not found", cfg=cfg)
        return
    ap = ctx.analysis(cfg, parent["key"])
    aggs = [g for g in ap.aggregates if isinstance(g["kind"], tuple) and g["kind"][0] == "closure" and g["kind"][1] == cb["path"]]
    if len(aggs) != 1:
        ctx.ob(rule, cb["key"] + "#parent", UNKNOWN, "closure is constructed at %d sites in its parent" % len(aggs), at=parent["at"], cfg=cfg)
        return
    g = aggs[0]
    cval = ("A", g["kind"], g["ops"])
    cl = Classifier(db)
    # the call that drives the closure: a foreign call whose arguments contain the closure value
    drivers = [c for c in ap.calls if cl.classify(c, parent) == "foreign" and any(find_in(x, lambda t: t == cval) for x in resolved_args(ap, c))]
    if len(drivers) != 1:
        ctx.ob(rule, cb["key"] + "#driver", UNKNOWN, "expected one call consuming the pipeline that contains the closure, found %d" % len(drivers), at=parent["at"], cfg=cfg)
        return
    drv = drivers[0]
    if info.get("stop_returns"):
        # the closure has steps that neither store nor count and answer with a stop value (Break / Err / None): in order only if the driver really
        # stops on it - a try_* driver handed the closure itself (through `map` the pipeline would go on to the next slot and leave a hole)
        direct = any(x == cval for x in resolved_args(ap, drv))
        stops = drv.fn.split("::")[-1] in ("try_for_each", "try_fold", "try_rfold") and direct
        ctx.ob(rule, cb["key"] + "#stops", stops, "the closure answers some steps with a stop value without storing or counting; the driver %s stops the traversal on it (a try_* driver given the closure itself): %s" % (
            drv.fn.split("::")[-1], stops), at=parent["at"], cfg=cfg)
    slices = []
    for x in resolved_args(ap, drv):
        slices += find_in(x, lambda t: isinstance(t, tuple) and len(t) == 5 and t[0] == "V" and t[1] == "iter" and t[2] == "slice")
    slice_bases = [s[3][1] for s in slices]
    # index-addressed slots (`base.add(i)` with i yielded by a range): the storage is what the base upvar points to, the driver must run
    # over exactly the owner's claimed range, and an absolute cursor store must fit the direction of travel
    ix_ok, ix_det = indexed_traversal(ap, drv, g, info, role, owners)
    for b_ in ix_ok or ():
        slice_bases.append(b_)
    if (info.get("indexed") or info.get("enum_abs")) and ix_ok is None:
        ctx.ob(rule, cb["key"] + "#indexed", REFUTED, ix_det, at=parent["at"], cfg=cfg)
        return
    if role in ("consumer", "builder"):
        for k in info["positions"]:
            if isinstance(k, tuple) and k[0] == "fld":
                # the cursor field of an owner the closure holds by `&mut`: the slots it designates are that owner's own by construction; what the
                # parent owes is (a) the upvar is a tracked owner with that storage / cursor field, live on the driver's unwind path, and (b) the driver
                # cannot ask for more steps than the owner has claimed slots left (the cursor never runs past the storage)
                from .rules import pipe_max
                from .absint import State
                _, ku, fpos = k
                op = g["ops"][ku] if ku < len(g["ops"]) else None
                ok, det = False, "upvar %d = %s" % (ku, vstr(op))
                if op is not None and op[0] == "P" and op[1][0] == "local" and not op[2].t:
                    adt = local_adt(ap, op[1][1])
                    if adt in owners and fpos in owners[adt]["pos"] and all(cu[1] == owners[adt]["array"] for cu in info.get("cursors", []) if cu[0] == ku) and not owners[adt]["array_is_ref"]:
                        o = owners[adt]
                        dropped, _hu = unwind_drops(ap, drv)
                        live = op[1][1] in dropped
                        lt = ap.local_ty(op[1][1])
                        N_ = ap.tenv.length([x for x in lt["args"] if x.get("k") != "region"][-1])
                        pv = ap.read_cell(State(drv.mem, drv.facts), op[1], (fpos,), {"k": "prim", "n": "usize"})
                        steps = None
                        ra_ = resolved_args(ap, drv)
                        for x in ra_:
                            if find_in(x, lambda t: t == cval):
                                steps = pipe_max(ap, x)
                                if steps is None and x == cval and ra_ and x is not ra_[0] and drv.fn.startswith("core::iter::") and drv.fn.split("::")[-1] in (
                                        "fold", "rfold", "for_each", "try_fold", "try_rfold", "try_for_each"):
                                    # the closure is the consumer's own argument: it is called once per item of the iterator the driver runs over
                                    steps = pipe_max(ap, ra_[0])
                        room = pv[0] == "I" and steps is not None and ap.prove(drv.facts, "Ge", N_ - pv[1], steps)
                        ok = live and bool(room)
                        det += "; cursor field '%s' of owner %s, whose own storage the slots are; owner local _%d dropped on the unwind path of %s: %s; at most %r steps with %r slots left: %s" % (
                            o["names"][fpos], adt.split("::")[-1], op[1][1], drv.fn, live, steps, (N_ - pv[1]) if pv[0] == "I" else "?", bool(room))
                ctx.ob(rule, "%s#position%s" % (cb["key"], "%d.%d" % (ku, fpos)), ok, det, at=parent["at"], cfg=cfg)
                continue
            op = g["ops"][k] if k < len(g["ops"]) else None
            ok = False
            det = "upvar %d = %s" % (k, vstr(op))
            if op is not None and op[0] == "P" and op[1][0] == "field" and not op[2].t:
                obase, opath = op[1][1], op[1][2]
                adt = None
                if obase[0] == "local":
                    adt = local_adt(ap, obase[1])
                elif obase[0] == "arg":
                    from .tys import pointee
                    pt = pointee(ap.local_ty(obase[1]))
                    adt = pt["def"] if pt is not None and pt.get("k") == "adt" else None
                if adt in owners and len(opath) == 1 and opath[0] in owners[adt]["pos"]:
                    o = owners[adt]
                    # slot source belongs to the same owner
                    if o["array_is_ref"]:
                        arrp = drv.mem.get((obase, (o["array"],)))
                        if arrp is None:
                            whole = drv.mem.get((obase, ()))
                            if whole is not None and whole[0] == "A":
                                arrp = whole[2][o["array"]]
                        src_ok = arrp is not None and arrp[0] == "P" and arrp[1] in slice_bases
                        if obase[0] == "arg":
                            src_ok = any(b[0] == "obj" or b == (arrp[1] if arrp else None) for b in slice_bases)
                    else:
                        src_ok = ("field", obase, (o["array"],)) in slice_bases
                    det += "; position field '%s' of owner %s; slots iterate that owner's storage: %s" % (o["names"][opath[0]], adt.split("::")[-1], src_ok)
                    if src_ok and not (info.get("indexed") or info.get("enum_abs")):
                        from .absint import State as _St
                        if o["array_is_ref"]:
                            mine = [s_ for s_ in slices if arrp is not None and s_[3][1] == arrp[1]]
                        else:
                            mine = [s_ for s_ in slices if s_[3][1] == ("field", obase, (o["array"],))]
                        pv = ap.read_cell(_St(drv.mem, drv.facts), obase, (opath[0],), {"k": "prim", "n": "usize"})
                        back_ = drv.fn.split("::")[-1] in ("rfold", "try_rfold", "rfind", "rposition", "next_back", "nth_back")
                        for x_ in resolved_args(ap, drv):
                            if find_in(x_, lambda t: isinstance(t, tuple) and len(t) >= 3 and t[0] == "V" and t[1] == "iter" and t[2] == "rev"):
                                back_ = not back_
                        back_ = back_ and role == "consumer"
                        lt_ = ap.local_ty(obase[1]) if obase[0] == "local" else None
                        ta_ = [x for x in lt_["args"] if x.get("k") != "region"] if lt_ is not None and lt_.get("k") == "adt" else []
                        ls_ok, ls_det = lockstep(ap, resolved_args(ap, drv), mine, pv, role, back_, drv.facts, obase[0] == "local", ap.tenv.size(ta_[0]) if ta_ else None)
                        det += "; " + ls_det
                        src_ok = src_ok and ls_ok
                    # which end of the claimed range moves, and which way: a traversal from the front disowns slots by raising the low position
                    # (+1 per slot), one from the back by lowering the high position (-1); anything else leaves moved-out slots claimed and
                    # live ones unclaimed
                    pname = o["names"][opath[0]]
                    back = drv.fn.split("::")[-1] in ("rfold", "try_rfold", "rfind", "rposition", "next_back", "nth_back")
                    for x in resolved_args(ap, drv):
                        if find_in(x, lambda t: isinstance(t, tuple) and len(t) >= 3 and t[0] == "V" and t[1] == "iter" and t[2] == "rev"):
                            back = not back
                    ds = info.get("deltas", {}).get(k, set())
                    if role == "consumer" and ds and (pname in LOW_POS or pname in HIGH_POS):
                        want = -1 if back else 1
                        fits = ds == {want} and ((pname in HIGH_POS) if back else (pname in LOW_POS))
                        det += "; travelling %s, position '%s' moves by %s: %s" % ("backward" if back else "forward", pname, sorted(ds), "fits" if fits else "DOES NOT FIT (the slots moved out stay claimed at the other end)")
                        src_ok = src_ok and fits
                    if obase[0] == "local":
                        dropped, has_unwind = unwind_drops(ap, drv)
                        live = obase[1] in dropped
                        det += "; owner local _%d dropped on the unwind path of %s: %s" % (obase[1], drv.fn, live)
                        ok = src_ok and live
                    else:
                        det += "; owner is *self of a &mut self method (liveness is checked at its callers)"
                        ok = src_ok
            ctx.ob(rule, "%s#position%d" % (cb["key"], k), ok, det, at=parent["at"], cfg=cfg)
    elif role == "untracked-consumer":
        # allowed only when the elements read need no drop, and the source array's drop is suppressed
        needs = [f for f in g["facts"] if f[0] == "b" and f[1][0] == "needs_drop"]
        from .tys import tstr
        # every slice iterated must be over a ManuallyDrop local
        md_ok = all(b[0] == "local" and tstr(ap.local_ty(b[1])).startswith("core::mem::ManuallyDrop<") for b in slice_bases) and bool(slice_bases)
        # the element type of EACH array read this way must be proven drop-free on this path (a fact about some other type does not count)
        elems = [elem_of_storage(ap.local_ty(b[1])) for b in slice_bases if b[0] == "local"]
        missing = [tstr(e) if e is not None else "?" for e in elems if e is None or not any(f[2] is False and f[1][1] == tstr(e) for f in needs)]
        ok = bool(elems) and not missing and len(elems) >= len(info["slots"])
        ctx.ob(rule, cb["key"] + "#nodrop", ok and md_ok,
               "closure reads elements without position tracking; constructed under %s; required: needs_drop == false for the element type of each array read (%s) - missing for: %s; sources are ManuallyDrop locals: %s" % (
                   fstr(g["facts"]), [tstr(e) if e is not None else "?" for e in elems], missing or "none", md_ok), at=parent["at"], cfg=cfg)


def elem_of_storage(t, depth=0):
    """Element type of an array storage type: X for GenericArray<X, N> under ManuallyDrop / MaybeUninit / reference layers."""
    from .tys import adt_args
    while t is not None and depth < 6:
        depth += 1
        if t.get("k") in ("ref", "ptr"):
            t = t.get("t")
        elif t.get("k") == "adt" and t["def"] in ("core::mem::ManuallyDrop", "core::mem::MaybeUninit"):
            t = adt_args(t)[0]
        elif t.get("k") == "adt" and t["def"] == "GenericArray":
            return adt_args(t)[0]
        else:
            return None
    return None


def _deep_atoms(p, depth=0):
    """Atoms of a Poly, including those inside composite atoms (phi / cell arguments are not descended into)."""
    out = set()
    for x in p.atoms():
        out.add(x)
        if isinstance(x, tuple) and depth < 4:
            for y in x[1:]:
                if hasattr(y, "atoms"):
                    out |= _deep_atoms(y, depth + 1)
    return out


def raw_write_discipline(ctx, cfg, body, rule):
    """Non-closure code: a raw write of a droppable element must be counted by a tracked owner's position
    (owner live) before any later foreign call; a write into storage no tracked owner governs followed by a foreign call is a leak window."""
    db = ctx.db(cfg)
    a = ctx.analysis(cfg, body["key"])
    owners = owner_adts(db)
    cl = Classifier(db)
    ev = []
    misplaced = []
    for c in a.calls:
        if c.fn in ("core::ptr::write", "core::mem::MaybeUninit::<T>::write") and c.args[0][0] == "P" and c.targs and has_generic(c.targs[0]):
            base = c.args[0][1]
            gov = None
            # governed if base is the storage of a live tracked-owner local
            for k, v in c.mem.items():
                pass
            for n in range(len(a.locals)):
                adt = local_adt(a, n)
                if adt in owners:
                    o = owners[adt]
                    if o["array_is_ref"]:
                        whole = c.mem.get((("local", n), ()))
                        arrp = c.mem.get((("local", n), (o["array"],)))
                        if arrp is None and whole is not None and whole[0] == "A":
                            arrp = whole[2][o["array"]]
                        if arrp is not None and arrp[0] == "P" and arrp[1] == base:
                            gov = n
                    elif base == ("field", ("local", n), (o["array"],)):
                        gov = n
            if gov is not None and not any(isinstance(x, tuple) and x and x[0] in ("elemoff", "enum_idx", "ridx") for x in _deep_atoms(c.args[0][2])):
                # a slot addressed by explicit arithmetic (not the item of a traversal, whose order the loop / closure rules decide): it must be the
                # slot the owner's position designates - the one the coming advance will claim - or the claimed range and the written slots part
                from .absint import State
                from .poly import prove as _prove
                S_ = a.tenv.size(c.targs[0])
                hit = False
                for fpos in owners[local_adt(a, gov)]["pos"]:
                    pv = a.read_cell(State(c.mem, c.facts), ("local", gov), (fpos,), {"k": "prim", "n": "usize"})
                    if pv[0] == "I" and S_ is not None and _prove(("==", c.args[0][2] - pv[1] * S_), a.poly_facts(c.facts)):
                        hit = True
                if not hit:
                    misplaced.append(c)
            ev.append((c.bb, 10 ** 6, "write", gov, c))
        else:
            k = cl.classify(c, body)
            if k in ("foreign", "panic"):
                ev.append((c.bb, 10 ** 6, k, c.fn, c))
    for s in a.stores + [x for x in a.assigns if x["cell"][0][0] == "local" and x["cell"][1]]:
        cell = s["cell"]
        if cell[0][0] == "local" and len(cell[1]) == 1 and s["val"][0] == "I":
            adt = local_adt(a, cell[0][1])
            if adt in owners and cell[1][0] in owners[adt]["pos"]:
                ev.append((s["site"][0], s["site"][1], "inc", cell[0][1], s))
    writes = [e for e in ev if e[2] == "write"]
    if not writes:
        return 0
    ev.sort(key=lambda e: (e[0], e[1]))
    by_bb = {}
    for e in ev:
        by_bb.setdefault(e[0], []).append(e)
    # dataflow: per governor (None = unowned storage) the difference writes - position advances
    states = {0: {frozenset()}}
    work = [0]
    done = set()
    bad = {}
    while work:
        bb = work.pop()
        for st in list(states[bb]):
            if (bb, st) in done:
                continue
            done.add((bb, st))
            cur = dict(st)
            for e in by_bb.get(bb, []):
                if e[2] == "write":
                    cur[e[3]] = min(cur.get(e[3], 0) + 1, 2)
                elif e[2] == "inc":
                    cur[e[3]] = max(cur.get(e[3], 0) - 1, -2)
                elif e[2] in ("foreign", "panic") and any(v != 0 for v in cur.values()):
                    key = (e[4].bb, e[3])
                    bad[key] = (e, frozenset((k, v) for k, v in cur.items() if v != 0))
            out = frozenset((k, v) for k, v in cur.items() if v != 0)
            for s2 in a.edges.get(bb, []):
                if a.blocks[s2]["cleanup"]:
                    continue
                if out not in states.setdefault(s2, set()):
                    states[s2].add(out)
                    work.append(s2)
    n = 0
    for i, w in enumerate(writes):
        n += 1
    for j, c in enumerate(misplaced):
        ctx.ob(rule, "%s#slot#%d" % (body["key"], j), REFUTED, "an element is written at byte %r of a tracked owner's storage, which is not the slot its position designates: the range the owner claims and the slots written part ways" % (c.args[0][2],), at=c.at, cfg=cfg)
    if bad:
        for (bbk, fn), (e, pend) in sorted(bad.items(), key=lambda kv: kv[0][0]):
            unowned = any(p[0] is None for p in pend)
            ahead = any(p[1] < 0 for p in pend)
            why = ("an element already written into storage that no tracked owner releases would be leaked (dropped zero times)" if unowned
                   else ("the owner's position already counts a slot that is not written yet (drop of uninitialised memory on unwind)" if ahead
                         else "a written slot is not yet counted by its owner's position (leak on unwind)"))
            ctx.ob(rule, "%s#%s" % (body["key"], fn), REFUTED, "%s can unwind while %s" % (fn, why), at=e[4].at, cfg=cfg)
    else:
        ctx.ob(rule, body["key"], PROVED, "%d raw element write site(s); each is counted by a live tracked owner before any later call that can run foreign code" % len(writes), at=body["at"], cfg=cfg)
    return len(writes)
