"""Forward dataflow over exported MIR with a symbolic-term abstract domain.

Domain per program point: a store  cell -> abstract value  and a set of facts that hold on every
path to the point.  Values are terms (integers as polynomials over opaque non-negative atoms,
pointers as (base object, byte offset, slice length), booleans as comparison terms, aggregates,
opaque values).  Joins keep a component only if it is identical on all incoming edges, otherwise
a fresh opaque atom named after (block, cell) is introduced; facts are intersected.  `switchInt`
edges add the branch condition (or its negation) to the fact set; a discriminant that is a known
constant prunes the infeasible edges (this is how drop flags are followed into cleanup blocks).

This is a value-numbering style analysis: nothing is executed, lengths stay symbols.
"""

import os
from .poly import norm_fact, Poly, fact_cmp, NEG, prove, refute
from .tys import TyEnv, tstr, pointee, adt_args, is_ga, strip_wrappers

ITER_ADAPTORS = {"enumerate", "zip", "map", "rev", "skip", "take", "step_by", "chain", "filter", "peekable", "skip_while",
                 "take_while", "cloned", "copied", "by_ref", "inspect", "fuse", "cycle", "scan", "flat_map", "flatten", "filter_map"}

INT_TYS = {"usize", "isize", "u8", "u16", "u32", "u64", "u128", "i8", "i16", "i32", "i64", "i128"}


def I(p):
    return ("I", p if isinstance(p, Poly) else Poly.const(p))


def is_int_ty(t):
    return t is not None and t.get("k") == "prim" and t["n"] in INT_TYS


SLICE_VIEW_IMPLS = ("<GenericArray<$0,$1> as core::convert::AsRef<[$0]>>::as_ref", "<GenericArray<$0,$1> as core::convert::AsMut<[$0]>>::as_mut",
                    "<GenericArray<$0,$1> as core::borrow::Borrow<[$0]>>::borrow", "<GenericArray<$0,$1> as core::borrow::BorrowMut<[$0]>>::borrow_mut")

# raw-pointer methods that are the free functions of core::ptr with the receiver as first argument (same argument order)
PTR_METHOD_ALIASES = {
    "core::ptr::mut_ptr::<impl *mut T>::write": "core::ptr::write", "core::ptr::mut_ptr::<impl *mut T>::write_unaligned": "core::ptr::write_unaligned",
    "core::ptr::mut_ptr::<impl *mut T>::read": "core::ptr::read", "core::ptr::const_ptr::<impl *const T>::read": "core::ptr::read",
    "core::ptr::mut_ptr::<impl *mut T>::read_unaligned": "core::ptr::read_unaligned", "core::ptr::const_ptr::<impl *const T>::read_unaligned": "core::ptr::read_unaligned",
    "core::ptr::mut_ptr::<impl *mut T>::drop_in_place": "core::ptr::drop_in_place",
    "core::ptr::mut_ptr::<impl *mut T>::copy_to": "core::ptr::copy", "core::ptr::const_ptr::<impl *const T>::copy_to": "core::ptr::copy",
    "core::ptr::mut_ptr::<impl *mut T>::copy_to_nonoverlapping": "core::ptr::copy_nonoverlapping", "core::ptr::const_ptr::<impl *const T>::copy_to_nonoverlapping": "core::ptr::copy_nonoverlapping",
}

_INT_BITS = {"u8": 8, "u16": 16, "u32": 32, "u64": 64, "u128": 128, "usize": 64, "i8": 8, "i16": 16, "i32": 32, "i64": 64, "i128": 128, "isize": 64}


def int_bits(t):
    """Width in bits of a primitive integer type on the analysed (64-bit) target; None for anything else."""
    if t is None or t.get("k") != "prim":
        return None
    return _INT_BITS.get(t["n"])


def is_ptr_ty(t):
    return t is not None and (t.get("k") in ("ref", "ptr") or (t.get("k") == "adt" and t["def"] in ("alloc::boxed::Box", "core::ptr::NonNull")))


def is_slice_ptr_ty(t):
    p = pointee(t) if t else None
    return p is not None and p.get("k") == "slice"


class State:
    __slots__ = ("mem", "facts")

    def __init__(self, mem=None, facts=frozenset()):
        self.mem = mem if mem is not None else {}
        self.facts = facts

    def copy(self):
        return State(dict(self.mem), self.facts)


class CallSite:
    def __init__(self, bb, term, args, state, fn, db=None):
        self.bb = bb
        self.term = term
        self.args = args  # evaluated argument values
        self.facts = state.facts
        self.mem = state.mem
        self.fn = fn  # callee def path ("" for indirect)
        self.res = (term["f"].get("res") or fn) if term["f"]["k"] == "fn" else ""
        self.targs = [a for a in term["f"].get("args", []) if a.get("k") != "region"] if term["f"]["k"] == "fn" else []
        # stable key of a crate-local callee (independent of generic-parameter names)
        self.key = None
        if db is not None:
            for p in (self.res, fn):
                b = db.by_path.get(p)
                if b is not None:
                    self.key = b["key"]
                    break
        self.ret = None
        self.at = term.get("at")
        self.exp = term.get("exp")


_SPENT = [0.0]  # seconds spent in fixpoint iterations by this process


class Analysis:
    def __init__(self, facts_db, body, models=None, entry_facts=None):
        self.entry_facts = entry_facts
        if models is None:
            from .models import MODELS
            models = MODELS
        self.db = facts_db
        self.body = body
        self.mir = body["mir"]
        self.blocks = self.mir["blocks"]
        self.locals = self.mir["locals"]
        self.tenv = TyEnv(body.get("predicates") or self._inherited_predicates())
        self.tenv.db = facts_db
        self.models = models or {}
        self.block_in = {}
        self.calls = []
        self.returns = []
        self.stores = []  # (bb, idx, cell, value, facts)
        self.assigns = []  # (bb, idx, lhs place json, value)
        self.drops = []
        self.casts = []
        self.aggregates = []
        self.derefs = []  # raw-pointer dereference / reborrow sites
        self.unknown = []  # constructs the interpreter did not understand (reported)
        self._fresh = 0
        self._rec = False

    def _inherited_predicates(self):
        # closures inherit the where-clauses of their root function
        if self.body["kind"] == "Closure":
            root = self.db.by_path.get(self.body.get("root"))
            if root is not None:
                return root.get("predicates") or []
        return []

    # ---- helpers ---------------------------------------------------------------------------
    def fresh(self, tag):
        self._fresh += 1
        return (tag, self._fresh)

    def local_ty(self, n):
        return self.locals[n]["ty"]

    def init_value(self, cell, ty, tag="cell"):
        """Opaque initial value of a cell, shaped by its type."""
        if is_int_ty(ty):
            return ("I", Poly.atom((tag, cell)))
        if ty is not None and ty.get("k") == "prim" and ty["n"] == "bool":
            return ("B", ("opaque", (tag, cell)))
        if is_ptr_ty(ty):
            ln = Poly.atom(("len", (tag, cell))) if is_slice_ptr_ty(ty) else None
            return ("P", ("obj", (tag, cell)), Poly.const(0), ln)
        return ("V", tag, cell)

    # ---- places ----------------------------------------------------------------------------
    def place_loc(self, st, place):
        """(base, path, type) of a place."""
        base = ("local", place["l"])
        path = ()
        ty = self.local_ty(place["l"])
        for e in place["p"]:
            if e == "*":
                v = self.read_cell(st, base, path, ty)
                pt = pointee(ty) if ty else None
                if v[0] == "P":
                    if not v[2].t:
                        if v[1][0] == "field":
                            base, path = v[1][1], v[1][2]
                        else:
                            base, path = v[1], ()
                    else:
                        base, path = ("off", v[1], v[2]), ()
                else:
                    base, path = ("deref", v), ()
                ty = pt
            elif isinstance(e, dict) and "f" in e:
                path = path + (e["f"],)
                ty = e.get("ty")
            elif isinstance(e, dict) and "down" in e:
                path = path + (("v", e["down"]),)
            elif isinstance(e, dict) and "cidx" in e and not e.get("from_end"):
                path = path + (e["cidx"],)
                ty = ty.get("t") if ty and ty.get("k") in ("array", "slice") else None
            elif isinstance(e, dict) and "idx" in e:
                iv = self.read_cell(st, ("local", e["idx"]), (), self.local_ty(e["idx"]))
                path = path + (("idx", iv),)
                ty = ty.get("t") if ty and ty.get("k") in ("array", "slice") else None
            else:
                path = path + (("other", repr(e)),)
                ty = None
        return base, path, ty

    def read_cell(self, st, base, path, ty):
        key = (base, path)
        if key in st.mem:
            return st.mem[key]
        if isinstance(base, tuple) and base and base[0] == "promoted" and not path and base in self.__dict__.get("_promoted", {}):
            return self._promoted[base]  # constants are immutable
        # projection out of a stored aggregate
        for i in range(len(path) - 1, -1, -1):
            k2 = (base, path[:i])
            if k2 in st.mem:
                v = st.mem[k2]
                ok = True
                for f in path[i:]:
                    if v[0] == "P" and isinstance(f, int):
                        continue  # Box / Unique / NonNull are transparent wrappers around the pointer they hold
                    if v[0] == "O" and isinstance(f, tuple) and f[0] == "v":
                        continue  # downcast of a maybe-Some value: payload below
                    if v[0] == "O" and f == 0:
                        v = v[1]
                    elif v[0] == "A" and isinstance(f, int) and f < len(v[2]):
                        v = v[2][f]
                    elif v[0] == "A" and isinstance(f, tuple) and f[0] == "v":
                        pass  # downcast of a known variant
                    else:
                        ok = False
                        break
                if ok:
                    return v
                # opaque parent: the field is an opaque function of the parent value (nested projections are flattened)
                rest = path[i:]
                if v[0] == "V" and len(v) == 3 and v[1] == "proj" and isinstance(v[2], tuple) and v[2][0] == "proj":
                    v, rest = v[2][1], tuple(v[2][2]) + tuple(rest)
                return self.init_value(("proj", v, rest), ty, "proj")
        ep = st.mem.get((base, ("__epoch__",)))
        if ep is not None:
            return self.init_value((key, ep), ty, "cell@")
        return self.init_value(key, ty)

    def read_place(self, st, place):
        base, path, ty = self.place_loc(st, place)
        return self.read_cell(st, base, path, ty)

    def write_place(self, st, place, val):
        base, path, _ = self.place_loc(st, place)
        self.write_cell(st, base, path, val)
        return base, path

    def write_cell(self, st, base, path, val):
        for k in list(st.mem):
            if k[0] != base or k[1] == ("__epoch__",):
                continue
            kp = k[1]
            if kp == path:
                continue
            if kp[: len(path)] == path:  # sub-cell of the written place
                del st.mem[k]
            elif path[: len(kp)] == kp:  # parent of the written place
                nv = self._update_agg(st.mem[k], path[len(kp):], val)
                if nv is not None:
                    st.mem[k] = nv
                    return
                # opaque parent: keep it; the exact sub-cell below shadows it on reads
        st.mem[(base, path)] = val

    def _update_agg(self, agg, path, val):
        if not path:
            return val
        f = path[0]
        if agg[0] == "A" and isinstance(f, int) and f < len(agg[2]):
            inner = self._update_agg(agg[2][f], path[1:], val)
            if inner is None:
                return None
            comps = list(agg[2])
            comps[f] = inner
            return ("A", agg[1], tuple(comps))
        return None

    # ---- operands / rvalues ----------------------------------------------------------------
    def const_val(self, o):
        c = o["c"]
        ty = o["ty"]
        k = c.get("k")
        if k == "int":
            if ty.get("k") == "prim" and ty["n"] == "bool":
                return ("B", ("const", 1 if c["v"] else 0))
            return I(c["v"])
        if k == "uneval":
            if c["def"] == "typenum::Unsigned::USIZE":
                return ("I", self.tenv.length(c["args"][0]))
            if c["def"].startswith("typenum::Unsigned::"):
                # U64 / USIZE (and wider) hold the length itself on a 64-bit target; the narrower and the signed constants (U8, U16, U32, I32, ISIZE ..)
                # hold its low bits only - typenum computes them with wrapping shifts - so they are the length only when that is a known small number
                L = self.tenv.length(c["args"][0])
                nm = c["def"].split("::")[-1]
                if nm in ("USIZE", "U64", "U128", "I128"):
                    return ("I", L)
                bits = {"U8": 8, "U16": 16, "U32": 32, "I8": 7, "I16": 15, "I32": 31, "I64": 63, "ISIZE": 63, "I128": 127}.get(nm)
                if bits is not None and L.is_const() and 0 <= L.const_value() < (1 << bits):
                    return ("I", L)
                return ("I", Poly.atom(("trunc", nm, L)))
            if c["def"] == "core::num::<impl usize>::MAX" and ty.get("k") == "prim" and ty.get("n") == "usize":
                return ("I", Poly.atom(("umax",)))  # every usize quantity is <= umax (poly axiom)
            if c.get("promoted") is not None:
                pv = self.promoted_value(c)
                if pv is not None:
                    return pv
            # a crate-local, non-generic `const` item of integer / bool type: the value its (exported) body computes
            if not c.get("args") and c.get("promoted") is None and (is_int_ty(ty) or (ty.get("k") == "prim" and ty["n"] == "bool")):
                cb = self.db.by_path.get(c["def"]) if self.db is not None else None
                if cb is not None and cb.get("kind") == "Const":
                    cache = self.db.__dict__.setdefault("_const_cache", {})
                    if c["def"] not in cache:
                        cache[c["def"]] = None  # recursion guard
                        try:
                            sub = Analysis(self.db, cb, self.models).run()
                            vals = {repr(r["val"]): r["val"] for r in sub.returns}
                            if len(vals) == 1:
                                v = next(iter(vals.values()))
                                if (v[0] == "I" and v[1].is_const()) or (v[0] == "B" and v[1][0] == "const"):
                                    cache[c["def"]] = v
                        except Exception:
                            pass
                    if cache[c["def"]] is not None:
                        return cache[c["def"]]
            # a crate-local `const` with generic arguments (an associated const such as `Self::LEN`): the value its body computes at these arguments
            if c.get("args") and c.get("promoted") is None and (is_int_ty(ty) or (ty.get("k") == "prim" and ty["n"] == "bool")) and self.db is not None:
                cb = self.db.by_path.get(c["def"])
                if cb is not None and cb.get("kind") in ("Const", "AssocConst"):
                    cache = self.db.__dict__.setdefault("_const_cache_g", {})
                    ck = (c["def"], tuple(tstr(a) for a in c["args"]))
                    if ck not in cache:
                        cache[ck] = None
                        try:
                            from .mirxf import subst_types, generic_mapping
                            mp = generic_mapping(cb, [a for a in c["args"] if a.get("k") != "region"])
                            if mp is not None:
                                cb2 = dict(cb)
                                cb2["mir"] = subst_types(cb["mir"], mp)
                                sub = Analysis(self.db, cb2, self.models).run()
                                vals = {repr(r["val"]): r["val"] for r in sub.returns}
                                if len(vals) == 1:
                                    v = next(iter(vals.values()))
                                    if v[0] in ("I", "B"):
                                        cache[ck] = v
                        except Exception:
                            pass
                    if cache[ck] is not None:
                        return cache[ck]
            return ("V", "const", c["def"], tuple(tstr(a) for a in c["args"]))
        if k == "cparam":
            return ("I", Poly.atom(("C", c["n"])))
        if k == "fn":
            return ("V", "fn", c["def"])
        if k == "zst":
            return ("A", "unit", ())
        return ("V", "const", o.get("s", "?"))

    def promoted_value(self, c):
        """A promoted constant of the simple shape `_k = const X; _0 = &_k` (e.g. `&N::USIZE`): a pointer to a constant object holding X
        (the promoted body is exported by the driver; its generic parameters are instantiated with the constant's own arguments)."""
        cb = self.db.by_path.get(c["def"]) if self.db is not None else None
        proms = (cb or {}).get("promoted") or []
        i = c["promoted"]
        if not (0 <= i < len(proms)):
            return None
        pm = proms[i]
        if len(pm["blocks"]) != 1 or pm["blocks"][0]["term"]["k"] != "return":
            return None
        stmts = [x for x in pm["blocks"][0]["stmts"] if x["k"] == "assign"]
        if len(stmts) != 2:
            return None
        a0, a1 = stmts
        if not (a1["lhs"]["l"] == 0 and not a1["lhs"]["p"] and a1["rv"].get("k") == "ref" and not a1["rv"]["p"]["p"] and a1["rv"]["p"]["l"] == a0["lhs"]["l"]
                and not a0["lhs"]["p"] and a0["rv"].get("k") == "use" and a0["rv"]["op"].get("k") == "const"):
            return None
        from .mirxf import generic_mapping, subst_types
        targs = [a for a in c.get("args", []) if a.get("k") != "region"]
        m = generic_mapping(cb, targs)
        if m is None:
            return None
        op = subst_types(a0["rv"]["op"], m) if m else a0["rv"]["op"]
        if op["c"].get("k") == "uneval" and op["c"].get("promoted") is not None:
            return None
        val = self.const_val(op)
        base = ("promoted", c["def"], i, tuple(tstr(a) for a in targs))
        self.__dict__.setdefault("_promoted", {})[base] = val
        return ("P", base, Poly.const(0), None)

    def operand(self, st, o):
        k = o["k"]
        if k in ("copy", "move"):
            return self.read_place(st, o["p"])
        if k == "const":
            return self.const_val(o)
        return ("V", "op?", repr(o))

    def as_poly(self, v):
        if v[0] == "I":
            return v[1]
        return None

    def binop(self, op, a, b, site):
        pa, pb = self.as_poly(a), self.as_poly(b)
        if op in ("Eq", "Ne", "Lt", "Le", "Gt", "Ge"):
            if pa is not None and pb is not None:
                return ("B", ("cmp", op, pa, pb))
            if a[0] == "P" and b[0] == "P":
                return ("B", ("pcmp", op, a, b))
            return ("B", ("opaque", ("cmp", op, a, b)))
        if pa is None or pb is None:
            if op in ("BitAnd", "BitOr", "BitXor") and a[0] == "B" and b[0] == "B":
                return ("B", (op.lower(), a[1], b[1]))
            return ("V", "bin", op, a, b)
        if op in ("Add", "Sub", "Mul") and getattr(self, "_bin_facts", None) is not None:
            # plain (wrapping) machine arithmetic - what `+ - *` compile to when overflow checks are off (release profile): the mathematical result
            # only where it provably fits the type; otherwise a new quantity (the *Unchecked forms are undefined on overflow, the *WithOverflow
            # forms are followed by a panic on overflow: both are the mathematical result where execution continues)
            from .poly import UMAX
            r = {"Add": pa + pb, "Sub": pa - pb, "Mul": pa * pb}[op]
            pf = self.poly_facts(self._bin_facts)
            fits_lo = all(v >= 0 for v in r.t.values()) or prove((">=", r), pf)
            if r.is_const():
                fits_hi = r.const_value() < (1 << 64)
            else:
                fits_hi = op == "Sub" or prove((">=", Poly.atom(UMAX) - r), pf)
            if not (fits_lo and fits_hi):
                return ("I", Poly.atom(("wrap", op, pa, pb)))
            return ("I", r)
        if op in ("Add", "AddUnchecked"):
            return ("I", pa + pb)
        if op in ("Sub", "SubUnchecked"):
            return ("I", pa - pb)
        if op in ("Mul", "MulUnchecked"):
            return ("I", pa * pb)
        if op in ("AddWithOverflow", "SubWithOverflow", "MulWithOverflow"):
            r = {"Add": pa + pb, "Sub": pa - pb, "Mul": pa * pb}[op[:3]]
            return ("A", "tuple", (("I", r), ("B", ("opaque", ("ovf", site)))))
        def pow2(v):
            return v > 0 and (v & (v - 1)) == 0
        if op == "Div":
            if pa.is_const() and pb.is_const() and pb.const_value() != 0:
                return I(pa.const_value() // pb.const_value())
            # unsigned division by a power of two is the shift (operands of the analysed code are unsigned counts / bytes)
            if pb.is_const() and pow2(pb.const_value()) and pb.const_value() > 1:
                return self.binop("Shr", a, I(pb.const_value().bit_length() - 1), site)
            # (y * q) / y == q: exact division by a single-atom divisor that is a factor of every monomial (the division itself is guarded
            # against y == 0 by the assert MIR places in front of it)
            if len(pb.t) == 1 and not pb.is_const():
                (mono, coeff), = pb.t.items()
                if coeff == 1 and len(mono) == 1 and pa.t and all(mono[0] in k for k in pa.t):
                    q = {}
                    for k, v in pa.t.items():
                        k2 = list(k)
                        k2.remove(mono[0])
                        q[tuple(k2)] = v
                    return ("I", Poly(q))
            return ("I", Poly.atom(("div", pa, pb)))
        if op == "Rem":
            if pb.is_const() and pow2(pb.const_value()) and pb.const_value() > 1:
                return self.binop("BitAnd", a, I(pb.const_value() - 1), site)
            return ("I", pa - Poly.atom(("div", pa, pb)) * pb)
        if op in ("Shr", "ShrUnchecked") and pb.is_const() and pb.const_value() == 1:
            return ("I", Poly.atom(("shr1", pa)))
        if op in ("Shr", "ShrUnchecked") and pb.is_const() and pb.const_value() > 1:
            return ("I", Poly.atom(("shr", pa, pb.const_value())))
        if op in ("Shl", "ShlUnchecked") and pb.is_const():
            return ("I", pa * Poly.const(1 << pb.const_value()))
        if op == "BitAnd" and pb.is_const() and pb.const_value() == 1:
            return ("I", Poly.atom(("and1", pa)))
        if op == "BitAnd" and pb.is_const() and pow2(pb.const_value() + 1):
            return ("I", Poly.atom(("band", pa, pb.const_value())))  # x & (2^k - 1): the low k bits
        if op == "BitAnd" and pa.is_const() and pow2(pa.const_value() + 1) and pa.const_value() > 1:
            return ("I", Poly.atom(("band", pb, pa.const_value())))
        return ("I", Poly.atom(("bin", op, pa, pb)))

    def rvalue(self, st, rv, site, lhs_ty=None):
        k = rv["k"]
        if k == "use":
            return self.operand(st, rv["op"])
        if k in ("ref", "rawptr"):
            base, path, ty = self.place_loc(st, rv["p"])
            # reborrow of *p where p is a known pointer keeps the pointer value (incl. slice length)
            pl = rv["p"]
            if pl["p"] and pl["p"][-1] == "*":
                inner = {"l": pl["l"], "p": pl["p"][:-1]}
                v = self.read_place(st, inner)
                ity = self.place_ty(inner)
                if ity is not None and ity.get("k") == "ptr":
                    self._rec and self.derefs.append({"site": site, "kind": "reborrow", "mut": rv.get("mut", False) if k == "ref" else None,
                                        "ref": k == "ref", "ptr": v, "pointee": ity["t"], "facts": st.facts})
                if v[0] == "P":
                    return v
            last = rv["p"]["p"][-1] if rv["p"]["p"] else None
            if path and isinstance(last, dict) and "cidx" in last and not last.get("from_end") and isinstance(path[-1], int) and ty is not None:
                # &slice[i] / &array[i] with a constant i (slice patterns): element i of the sequence the place denotes -
                # a pointer into the same object at byte i * size_of(element), not a separate "field" object
                inner = {"l": rv["p"]["l"], "p": rv["p"]["p"][:-1]}
                pv = None
                if inner["p"] and inner["p"][-1] == "*":
                    pv = self.read_place(st, {"l": inner["l"], "p": inner["p"][:-1]})
                esz = self.tenv.size(ty)
                if pv is not None and pv[0] == "P" and esz is not None:
                    return ("P", pv[1], pv[2] + Poly.const(path[-1]) * esz, None)
                if esz is not None:
                    b2 = ("field", base, path[:-1]) if path[:-1] else base
                    return ("P", b2, Poly.const(path[-1]) * esz, None)
            if path:
                return ("P", ("field", base, path), Poly.const(0), None)
            return ("P", base, Poly.const(0), None)
        if k == "cast":
            v = self.operand(st, rv["op"])
            ck = rv["ck"]
            self._rec and self.casts.append({"site": site, "ck": ck, "val": v, "to": rv["ty"], "from": self.operand_ty(rv["op"]), "facts": st.facts})
            if v[0] == "P":
                if ck.startswith("PointerCoercion") and "Unsize" in ck:
                    ft = self.operand_ty(rv["op"])
                    pt = pointee(ft) if ft else None
                    if pt is not None and pt.get("k") == "array":
                        return ("P", v[1], v[2], self.tenv.length(pt["n"]))
                # thin <-> thin and fat -> thin casts keep base and offset; metadata kept only if target is fat
                keep_len = v[3] if is_slice_ptr_ty(rv["ty"]) else None
                return ("P", v[1], v[2], keep_len)
            if v[0] == "I":
                # an integer cast to a narrower type keeps only the low bits: the result is the same number only when it is a constant that fits
                # (or provably below the bound); otherwise it is a new quantity about which nothing is known but its range
                fb, tb = int_bits(self.operand_ty(rv["op"])), int_bits(rv["ty"])
                if fb is not None and tb is not None and tb < fb:
                    if v[1].is_const() and 0 <= v[1].const_value() < (1 << (tb - (0 if rv["ty"]["n"].startswith("u") else 1))):
                        return v
                    if not rv["ty"]["n"].startswith("u"):
                        return ("V", "trunc", tb, v)   # may be negative: not a quantity the prover's (non-negative) atoms can stand for
                    return ("I", Poly.atom(("trunc", tb, v[1])))
                return v
            if ck.startswith("PointerCoercion") and "Unsize" in ck:
                ft = self.operand_ty(rv["op"])
                pt = pointee(ft) if ft else None
                if pt is not None and pt.get("k") == "array":
                    return ("P", ("constobj", site), Poly.const(0), self.tenv.length(pt["n"]))
            if v[0] == "B" and is_int_ty(rv["ty"]):
                return ("I", Poly.atom(("b2i", v[1])))
            if ck == "Transmute":
                return ("V", "transmute", v, tstr(rv["ty"]))
            return v
        if k == "bin":
            self._bin_facts = st.facts if (rv["op"] in ("Add", "Sub", "Mul") and is_int_ty(lhs_ty) and not lhs_ty["n"].startswith("i")) else None
            if rv["op"] in ("AddWithOverflow", "SubWithOverflow", "MulWithOverflow"):
                # what the flag of this checked operation is about (for rules that ask whether the overflow panic is reachable)
                oa, ob = self.operand(st, rv["a"]), self.operand(st, rv["b"])
                ot = self.operand_ty(rv["a"])
                self.__dict__.setdefault("ovf_ops", {})[site] = (rv["op"][:3], self.as_poly(oa), self.as_poly(ob), ot.get("n") if isinstance(ot, dict) and ot.get("k") == "prim" else None)
            try:
                return self.binop(rv["op"], self.operand(st, rv["a"]), self.operand(st, rv["b"]), site)
            finally:
                self._bin_facts = None
        if k == "un":
            a = self.operand(st, rv["a"])
            if rv["op"] == "Not":
                if a[0] == "B":
                    return ("B", ("not", a[1]))
                return ("V", "not", a)
            if rv["op"] == "PtrMetadata":
                if a[0] == "P" and a[3] is not None:
                    return ("I", a[3])
                return ("I", Poly.atom(("len", a)))
            if rv["op"] == "Neg" and a[0] == "I":
                return ("I", -a[1])
            return ("V", "un", rv["op"], a)
        if k == "discr":
            v = self.read_place(st, rv["p"])
            if v[0] == "A" and isinstance(v[1], tuple) and v[1][0] == "adt":
                return I(v[1][2])
            return ("D", v)
        if k == "agg":
            ops = tuple(self.operand(st, o) for o in rv["ops"])
            ak = rv["ak"]
            if ak == "Tuple":
                kind = "tuple"
            elif ak == "Array":
                kind = "array"
            elif ak == "Adt":
                kind = ("adt", rv["x"]["def"], rv["x"]["variant"])
            elif ak == "Closure":
                kind = ("closure", rv["x"])
            elif ak == "RawPtr":
                # (data pointer, metadata)
                if ops and ops[0][0] == "P":
                    ln = ops[1][1] if len(ops) > 1 and ops[1][0] == "I" else None
                    return ("P", ops[0][1], ops[0][2], ln)
                kind = "rawptr"
            else:
                kind = ak
            val = ("A", kind, ops)
            self._rec and self.aggregates.append({"site": site, "kind": kind, "ops": ops, "rv": rv, "facts": st.facts})
            return val
        if k == "repeat":
            return ("A", "repeat", (self.operand(st, rv["op"]), ("I", self.tenv.length(rv["n"]))))
        self._rec and self.unknown.append(("rvalue", site, rv.get("s", k)))
        return ("V", "rv?", site)

    def operand_ty(self, o):
        if o["k"] == "const":
            return o["ty"]
        p = o["p"]
        ty = self.local_ty(p["l"])
        for e in p["p"]:
            if e == "*":
                ty = pointee(ty) if ty else None
            elif isinstance(e, dict) and "f" in e:
                ty = e.get("ty")
            elif isinstance(e, dict) and "idx" in e:
                ty = ty.get("t") if ty and ty.get("k") in ("array", "slice") else None
            elif isinstance(e, dict) and "down" in e:
                pass
            else:
                ty = None
        return ty

    # ---- conditions ------------------------------------------------------------------------
    def cond_facts(self, b, truth):
        """Facts implied by boolean term b having the given truth value."""
        out = []
        k = b[0]
        if k == "cmp":
            op = b[1] if truth else NEG[b[1]]
            f = fact_cmp(op, b[2], b[3])
            if not f[1].is_const():
                out.append(("poly",) + f)
            else:
                # a comparison of constants: nothing to learn when it holds; when it cannot hold (`2 == 0` being true) the state is infeasible
                cv = f[1].const_value()
                holds = (cv >= 0) if f[0] == ">=" else ((cv == 0) if f[0] == "==" else ((cv != 0) if f[0] == "!=" else True))
                if not holds:
                    out.append(("poly", ">=", Poly.const(-1)))
        elif k == "not":
            out.extend(self.cond_facts(b[1], not truth))
        elif k == "const":
            pass
        else:
            out.append(("b", b, truth))
        return out

    def poly_facts(self, facts):
        fs = [(f[1], f[2]) for f in facts if f[0] == "poly"]
        return fs + list(self.tenv.side)

    def prove(self, facts, op, a, b):
        return prove(fact_cmp(op, a, b), self.poly_facts(facts))

    def refute(self, facts, op, a, b):
        return refute(fact_cmp(op, a, b), self.poly_facts(facts))

    def bool_known(self, facts, b):
        """True/False if the boolean term is decided by the facts, else None."""
        if b[0] == "const":
            return bool(b[1])
        if b[0] == "not":
            r = self.bool_known(facts, b[1])
            return None if r is None else (not r)
        if b[0] == "cmp":
            if self.prove(facts, b[1], b[2], b[3]):
                return True
            if self.refute(facts, b[1], b[2], b[3]):
                return False
            return None
        if ("b", b, True) in facts:
            return True
        if ("b", b, False) in facts:
            return False
        return None

    # ---- calls -----------------------------------------------------------------------------
    def model_call(self, st, cs, dest_ty):
        """Return the abstract result of a call (and apply its memory effects)."""
        fn, res, args, targs = cs.fn, cs.res, cs.args, cs.targs
        te = self.tenv

        def ptr(i=0):
            return args[i] if len(args) > i and args[i][0] == "P" else None

        m = self.models.get(cs.key) if cs.key else None
        if m is None and res != fn:
            from .models import RES_MODELS
            m = RES_MODELS.get(res)
        if m is not None:
            r = m(self, st, cs)
            if r is not None:
                return r

        # ---- `?` plumbing on Option / Result values whose variant is known (path-exact after mirxf.treeify) ----
        OPT, RES, CF = "core::option::Option", "core::result::Result", "core::ops::ControlFlow"

        def adt(v, path):
            return v if (v[0] == "A" and isinstance(v[1], tuple) and v[1][0] == "adt" and v[1][1] == path) else None
        if fn == "core::result::Result::<T, E>::ok" and args:
            r_ = adt(args[0], RES)
            if r_ is not None:
                return ("A", ("adt", OPT, 1), (r_[2][0],)) if r_[1][2] == 0 else ("A", ("adt", OPT, 0), ())
        if fn == "core::result::Result::<T, E>::err" and args:
            r_ = adt(args[0], RES)
            if r_ is not None:
                return ("A", ("adt", OPT, 1), (r_[2][0],)) if r_[1][2] == 1 else ("A", ("adt", OPT, 0), ())
        if fn == "core::option::Option::<T>::ok_or" and args:
            o_ = adt(args[0], OPT)
            if o_ is not None:
                return ("A", ("adt", RES, 0), (o_[2][0],)) if o_[1][2] == 1 else ("A", ("adt", RES, 1), (args[1],))
        if res == "<core::option::Option<T> as core::ops::Try>::branch" and args:
            o_ = adt(args[0], OPT)
            if o_ is not None:
                return ("A", ("adt", CF, 0), (o_[2][0],)) if o_[1][2] == 1 else ("A", ("adt", CF, 1), (("A", ("adt", OPT, 0), ()),))
        if res == "<core::result::Result<T, E> as core::ops::Try>::branch" and args:
            r_ = adt(args[0], RES)
            if r_ is not None:
                return ("A", ("adt", CF, 0), (r_[2][0],)) if r_[1][2] == 0 else ("A", ("adt", CF, 1), (("A", ("adt", RES, 1), (r_[2][0],)),))
        if res.startswith("<core::option::Option<T> as core::ops::FromResidual<core::option::Option<core::convert::Infallible>>>::from_residual"):
            return ("A", ("adt", OPT, 0), ())
        if res.startswith("<core::result::Result<T, F> as core::ops::FromResidual<core::result::Result<core::convert::Infallible, E>>>::from_residual") and args:
            # the residual of a Result is always its Err: the result is Err(From::from(e)) - the identity conversion when both error types are the same type
            r_ = adt(args[0], RES)
            ra = [x for x in (cs.term["f"].get("res_args") or []) if x.get("k") != "region"]
            same = len(ra) >= 3 and tstr(ra[1]) == tstr(ra[2])
            if r_ is not None and r_[1][2] == 1 and same:
                return ("A", ("adt", RES, 1), (r_[2][0],))
            return ("A", ("adt", RES, 1), (("V", "residual", (cs.bb,), args[0] if same else None),))

        if fn in ("core::slice::<impl [T]>::len", "core::ptr::mut_ptr::<impl *mut [T]>::len", "core::ptr::const_ptr::<impl *const [T]>::len", "core::ptr::NonNull::<[T]>::len"):
            p = ptr()
            if p and p[3] is not None:
                return ("I", p[3])
            return ("I", Poly.atom(("len", args[0])))
        if fn == "core::slice::<impl [T]>::is_empty":
            p = ptr()
            ln = p[3] if p and p[3] is not None else Poly.atom(("len", args[0]))
            return ("B", ("cmp", "Eq", ln, Poly.const(0)))
        if fn in ("core::slice::<impl [T]>::as_ptr", "core::slice::<impl [T]>::as_mut_ptr",
                  "core::mem::MaybeUninit::<T>::as_mut_ptr", "core::mem::MaybeUninit::<T>::as_ptr",
                  "core::ptr::mut_ptr::<impl *mut T>::cast", "core::ptr::const_ptr::<impl *const T>::cast",
                  "core::ptr::NonNull::<T>::as_ptr"):
            p = ptr()
            if p:
                return ("P", p[1], p[2], None)
        if fn in ("core::ptr::mut_ptr::<impl *mut T>::cast_const", "core::ptr::const_ptr::<impl *const T>::cast_mut"):
            p = ptr()
            if p:
                return p  # same pointee type: a slice pointer keeps its length metadata
        if fn in ("core::slice::<impl [T]>::as_ptr_range", "core::slice::<impl [T]>::as_mut_ptr_range") and targs:
            p = ptr()
            if p and p[3] is not None and te.size(targs[0]) is not None:
                cs.no_effects = True
                return ("A", ("adt", "core::ops::Range", 0), (("P", p[1], p[2], None), ("P", p[1], p[2] + p[3] * te.size(targs[0]), None)))
        if cs.key == "const_transmute" and len(targs) >= 2 and all(t.get("k") in ("ref", "ptr") for t in targs[:2]) and args and args[0][0] == "P":
            # a reference reinterpreted as a reference of another pointee type: the same (fat) pointer value; that the pointees have equal
            # element sizes is the calling rule's obligation (C10.X)
            cs.no_effects = True
            return args[0]
        if fn in ("core::ops::Deref::deref", "core::ops::DerefMut::deref_mut"):
            p = ptr()
            selfty = targs[0] if targs else None
            if p and selfty is not None:
                if is_ga(selfty):
                    return ("P", p[1], p[2], te.length(adt_args(selfty)[1]))
                if selfty.get("k") == "adt" and selfty["def"] in ("core::mem::ManuallyDrop",):
                    return ("P", p[1], p[2], None)
                if selfty.get("k") == "adt" and selfty["def"] == "alloc::boxed::Box":
                    # &Box<X> -> &X : the box's pointee
                    inner = self.read_cell(st, p[1], (), selfty) if not p[2].t else None
                    if inner is not None and inner[0] == "P":
                        return inner
        if cs.key in ("GenericArray<$0,$1>::as_slice", "GenericArray<$0,$1>::as_mut_slice"):
            p = ptr()
            if p and len(targs) >= 2:
                return ("P", p[1], p[2], te.length(targs[1]))
        if cs.key in SLICE_VIEW_IMPLS and targs and is_ga(targs[0]):
            # the crate's own AsRef / AsMut / Borrow / BorrowMut<[T]> for GenericArray: the full view of the receiver (what each returns is
            # C02.D's / C13.B's obligation on its body)
            p = ptr()
            if p:
                cs.no_effects = True
                return ("P", p[1], p[2], te.length(adt_args(targs[0])[1]))
        if fn in ("core::ptr::const_ptr::<impl *const T>::add", "core::ptr::mut_ptr::<impl *mut T>::add",
                  "core::ptr::const_ptr::<impl *const T>::offset", "core::ptr::mut_ptr::<impl *mut T>::offset",
                  "core::ptr::const_ptr::<impl *const T>::sub", "core::ptr::mut_ptr::<impl *mut T>::sub"):
            p = ptr()
            k = self.as_poly(args[1]) if len(args) > 1 else None
            if p and k is not None and targs:
                d = k * te.size(targs[0])
                return ("P", p[1], p[2] - d if fn.endswith("::sub") else p[2] + d, None)
        if fn.startswith(("core::ptr::const_ptr::<impl *const T>::byte_", "core::ptr::mut_ptr::<impl *mut T>::byte_")) and fn.split("::")[-1] in ("byte_add", "byte_sub", "byte_offset"):
            # the same in bytes
            p = ptr()
            k = self.as_poly(args[1]) if len(args) > 1 else None
            if p and k is not None:
                return ("P", p[1], p[2] - k if fn.endswith("byte_sub") else p[2] + k, None)
        if fn in ("core::slice::from_ref", "core::slice::from_mut") and len(args) == 1:
            # a one-element slice over the referent
            p = ptr()
            if p:
                cs.no_effects = True
                return ("P", p[1], p[2], Poly.const(1))
        if fn in ("core::slice::from_raw_parts", "core::slice::from_raw_parts_mut",
                  "core::ptr::slice_from_raw_parts", "core::ptr::slice_from_raw_parts_mut"):
            p = ptr()
            n = self.as_poly(args[1])
            if p and n is not None:
                return ("P", p[1], p[2], n)
        if fn in ("core::slice::<impl [T]>::split_at", "core::slice::<impl [T]>::split_at_mut", "core::slice::<impl [T]>::split_at_unchecked",
                  "core::slice::<impl [T]>::split_at_mut_unchecked") and len(args) == 2:
            p = ptr()
            mid = self.as_poly(args[1])
            if p and p[3] is not None and mid is not None and targs:
                cs.no_effects = True
                return ("A", "tuple", (("P", p[1], p[2], mid), ("P", p[1], p[2] + mid * te.size(targs[0]), p[3] - mid)))
        if fn in ("core::slice::<impl [T]>::get", "core::slice::<impl [T]>::get_mut") and len(args) == 2 and args[1][0] == "I" and len(targs) >= 2 \
                and targs[1].get("k") == "prim" and targs[1]["n"] == "usize":
            # slice.get(i) / get_mut(i): Some(&slice[i]) exactly when i < len - an Option whose payload is the pointer to element i; the variant
            # edges carry the bound (variant_implied)
            p = ptr()
            if p and p[3] is not None:
                cs.no_effects = True
                return ("O", ("P", p[1], p[2] + args[1][1] * te.size(targs[0]), None), ("get", cs.bb, args[1][1], p[3]))
        if fn in ("core::slice::<impl [T]>::last", "core::slice::<impl [T]>::last_mut", "core::slice::<impl [T]>::first", "core::slice::<impl [T]>::first_mut") and len(args) == 1 and targs:
            # Some(&s[len - 1]) / Some(&s[0]) exactly when the slice is not empty
            p = ptr()
            if p and p[3] is not None:
                cs.no_effects = True
                idx = (p[3] - Poly.const(1)) if "last" in fn else Poly.const(0)
                return ("O", ("P", p[1], p[2] + idx * te.size(targs[0]), None), ("get", cs.bb, Poly.const(0), p[3]))
        if fn in ("core::slice::<impl [T]>::split_first_mut", "core::slice::<impl [T]>::split_first", "core::slice::<impl [T]>::split_last_mut", "core::slice::<impl [T]>::split_last") and len(args) == 1 and targs:
            # Some((&s[0], &s[1..])) / Some((&s[len-1], &s[..len-1])) exactly when the slice is not empty
            p = ptr()
            if p and p[3] is not None:
                cs.no_effects = True
                S_ = te.size(targs[0])
                if "first" in fn:
                    one, rest = ("P", p[1], p[2], None), ("P", p[1], p[2] + S_, p[3] - Poly.const(1))
                else:
                    one, rest = ("P", p[1], p[2] + (p[3] - Poly.const(1)) * S_, None), ("P", p[1], p[2], p[3] - Poly.const(1))
                return ("O", ("A", "tuple", (one, rest)), ("get", cs.bb, Poly.const(0), p[3]))
        if fn == "core::mem::take" and len(args) == 1 and args[0][0] == "P" and not args[0][2].t and targs and targs[0].get("k") == "ref" and targs[0]["t"].get("k") == "slice":
            # mem::take of a slice reference: hands out the slice, leaves an empty one (the effect is applied in apply_call_effects)
            p = args[0]
            base, path = (p[1][1], p[1][2]) if p[1][0] == "field" else (p[1], ())
            return self.read_cell(st, base, path, targs[0])
        if fn in ("core::slice::IterMut::<'a, T>::into_slice", "core::slice::Iter::<'a, T>::as_slice", "core::slice::IterMut::<'a, T>::as_slice") and args \
                and isinstance(args[0], tuple) and args[0] and args[0][0] == "P" and not args[0][2].t and args[0][3] is None:
            # called through a reference to the local that holds the iterator: the iterator value itself
            held_ = self.read_cell(st, args[0][1], (), None) if args[0][1][0] in ("local", "arg") else None
            if isinstance(held_, tuple) and len(held_) == 5 and held_[:3] == ("V", "iter", "slice"):
                args = [held_] + list(args[1:])
        if fn in ("core::slice::IterMut::<'a, T>::into_slice", "core::slice::Iter::<'a, T>::as_slice", "core::slice::IterMut::<'a, T>::as_slice") and args \
                and isinstance(args[0], tuple) and len(args[0]) == 5 and args[0][:3] == ("V", "iter", "slice") \
                and not any(t_["term"]["k"] == "call" and t_["term"]["f"].get("k") == "fn" and t_["term"]["f"]["def"] in (
                    "core::iter::Iterator::next", "core::iter::DoubleEndedIterator::next_back", "core::iter::Iterator::nth", "core::iter::Iterator::for_each",
                    "core::iter::Iterator::by_ref", "core::iter::Iterator::fold") and "core::slice::Iter" in tstr((t_["term"]["f"].get("args") or [{}])[0])
                    for t_ in self.body["mir"]["blocks"]):
            # the rest of a slice iterator that has not been advanced (no polling of a slice iterator anywhere in this body): the whole slice
            cs.no_effects = True
            return args[0][3]
        if fn in ("core::slice::<impl [T]>::get_unchecked", "core::slice::<impl [T]>::get_unchecked_mut",
                  "core::ops::Index::index", "core::ops::IndexMut::index_mut"):
            p = ptr()
            idx = args[1] if len(args) > 1 else None
            # element type: slice impl -> targs[0] is T for inherent; for Index it is Self=[T]
            et = None
            if fn.startswith("core::slice::") and targs:
                et = targs[0]
            elif targs and targs[0].get("k") == "slice":
                et = targs[0]["t"]
            elif targs and is_ga(targs[0]):
                et = adt_args(targs[0])[0]
                if p and p[3] is None:
                    p = ("P", p[1], p[2], te.length(adt_args(targs[0])[1]))
            if p and idx is not None and et is not None:
                es = te.size(et)
                rng = self.range_of(idx, p[3])
                if rng is not None:
                    lo, hi = rng
                    return ("P", p[1], p[2] + lo * es, (hi - lo) if hi is not None else None)
                ip = self.as_poly(idx)
                if ip is not None:
                    return ("P", p[1], p[2] + ip * es, None)
        if fn in ("core::slice::<impl [T]>::chunks", "core::slice::<impl [T]>::chunks_mut") and ptr() and len(args) > 1 and args[1][0] == "I":
            return ("V", "iter", "chunks", ptr(), args[1][1])
        if fn in ("core::slice::<impl [T]>::chunks_exact", "core::slice::<impl [T]>::chunks_exact_mut") and ptr() and len(args) > 1 and args[1][0] == "I":
            return ("V", "iter", "chunks_exact", ptr(), args[1][1])
        # arithmetic / bit operators written on references to primitive integers (`c >> 4` with c: &u8) or through the operator traits:
        # std's impls for the primitive integers are the built-in operation on the loaded values
        OPS = {"core::ops::Shr::shr": "Shr", "core::ops::Shl::shl": "Shl", "core::ops::BitAnd::bitand": "BitAnd", "core::ops::Div::div": "Div", "core::ops::Rem::rem": "Rem",
               "core::ops::Add::add": "Add", "core::ops::Sub::sub": "Sub", "core::ops::Mul::mul": "Mul"}
        if fn in OPS and len(args) == 2 and targs:
            def prim_int(t):
                if t.get("k") == "ref":
                    t = t["t"]
                return t.get("k") == "prim" and is_int_ty(t)
            if all(prim_int(t) for t in targs[:2]):
                vals = []
                for x, t in zip(args, targs[:2]):
                    if x[0] == "P" and t.get("k") == "ref" and not x[2].t:
                        x = self.read_cell(st, x[1], (), t["t"])
                    vals.append(x)
                if all(v[0] == "I" for v in vals):
                    cs.no_effects = True
                    return self.binop(OPS[fn], vals[0], vals[1], (cs.bb, None))
        if fn in ("core::convert::From::from", "core::convert::Into::into") and len(args) == 1 and args[0][0] == "I" and len(targs) >= 2 \
                and all(t.get("k") == "prim" and is_int_ty(t) for t in targs[:2]):
            cs.no_effects = True
            return args[0]  # lossless integer widening
        if fn in ("core::slice::<impl [T]>::iter", "core::slice::<impl [T]>::iter_mut"):
            p = ptr()
            if p:
                return ("V", "iter", "slice", p, fn.endswith("iter_mut"))
        if fn == "core::iter::Iterator::by_ref" and args and args[0][0] == "P" and res == fn:
            cs.no_effects = True
            return args[0]  # the provided body of by_ref is `self`: the same &mut to the iterator
        if fn.startswith("core::iter::Iterator::") and fn.split("::")[-1] in ITER_ADAPTORS:
            return ("V", "iter", fn.split("::")[-1]) + tuple(args)
        if fn == "core::iter::zip" and len(args) == 2:
            # the free function is `a.into_iter().zip(b)`: the receiver side as IntoIterator gives it, the other side handed on as Iterator::zip takes it
            x = args[0]
            t0 = targs[0] if targs else None
            left = ("V", "iter", "into_iter", x)
            if x[0] == "V" and len(x) > 1 and x[1] == "iter":
                left = x
            elif x[0] == "P" and x[3] is not None and t0 is not None and t0.get("k") == "ref" and t0["t"].get("k") == "slice":
                left = ("V", "iter", "slice", x, bool(t0.get("mut")))
            elif x[0] == "P" and t0 is not None and t0.get("k") == "ref" and is_ga(t0["t"]):
                left = ("V", "iter", "slice", ("P", x[1], x[2], te.length(adt_args(t0["t"])[1])), bool(t0.get("mut")))
            cs.no_effects = True
            return ("V", "iter", "zip", left, args[1])
        if fn == "core::iter::IntoIterator::into_iter":
            x = args[0]
            if x[0] == "V" and len(x) > 1 and x[1] == "iter":
                return x
            if cs.key in ("<&GenericArray<$0,$1> as core::iter::IntoIterator>::into_iter", "<&mut GenericArray<$0,$1> as core::iter::IntoIterator>::into_iter") and x[0] == "P":
                st_ = targs[0]["t"] if targs and targs[0].get("k") == "ref" else None
                if st_ is not None and is_ga(st_):
                    return ("V", "iter", "slice", ("P", x[1], x[2], te.length(adt_args(st_)[1])), cs.key.startswith("<&mut"))
            if cs.key == "<GenericArray<$0,$1> as core::iter::IntoIterator>::into_iter":
                return ("V", "iter", "ga", x)
            if res.startswith("<I as core::iter::IntoIterator>::into_iter"):
                cs.no_effects = True
                return x  # the blanket impl for iterators is the identity
            # `for x in slice_ref`: IntoIterator for &[T] / &mut [T] is slice.iter() / slice.iter_mut()
            t0 = targs[0] if targs else None
            if x[0] == "P" and x[3] is not None and t0 is not None and t0.get("k") == "ref" and t0["t"].get("k") == "slice":
                cs.no_effects = True
                return ("V", "iter", "slice", x, bool(t0.get("mut")))
            return ("V", "iter", "into_iter", x)
        if fn in ("core::iter::Iterator::next", "core::iter::DoubleEndedIterator::next_back"):
            p = ptr()
            if p and not p[2].t:
                itv = self.read_cell(st, p[1], (), None)
                el = self.iter_elem(itv, (cs.bb,))
                if el is not None:
                    cs.no_effects = True
                    return ("O", el, ("next", cs.bb))
        if fn in ("core::ptr::read", "core::ptr::read_volatile", "core::ptr::read_unaligned"):
            p = ptr()
            if p:
                rt = targs[0] if targs else None
                bt = self.local_ty(p[1][1]) if p[1][0] == "local" else None
                same = rt is not None and bt is not None and tstr(strip_wrappers(rt)) == tstr(strip_wrappers(bt))
                if not p[2].t and (same or p[1][0] != "local"):
                    return self.read_cell(st, p[1], (), rt)
                return ("V", "mem", (p[1], p[2], tstr(rt) if rt else "?"))
        if fn in ("alloc::boxed::Box::<T>::into_raw", "alloc::boxed::Box::<T, A>::into_raw", "alloc::boxed::Box::<T>::from_raw", "alloc::boxed::Box::<T, A>::from_raw",
                  "alloc::boxed::Box::<T>::leak", "alloc::boxed::Box::<T, A>::leak", "alloc::boxed::Box::<T, A>::as_mut_ptr", "alloc::boxed::Box::<T, A>::as_ptr"):
            p = ptr()
            if p:
                return p
        if fn == "core::alloc::Layout::new" and targs:
            return ("V", "layout", te.size(targs[0]), tstr(targs[0]))
        if fn in ("alloc::boxed::Box::<T>::new_uninit", "alloc::boxed::Box::<T>::new") and targs:
            return ("P", ("heapbox", (cs.bb,), tstr(targs[0])), Poly.const(0), None)
        if fn in ("alloc::boxed::Box::<core::mem::MaybeUninit<T>, A>::assume_init", "alloc::boxed::Box::<core::mem::MaybeUninit<T>>::assume_init"):
            p = ptr()
            if p:
                return p
        if fn in ("core::iter::ExactSizeIterator::len", "core::ops::Range::<Idx>::len") and args:
            p = ptr()
            if p and not p[2].t:
                rv = self.read_cell(st, p[1], (), None)
                rng = self.range_of(rv, None)
                if rng is not None and rng[1] is not None:
                    cs.no_effects = True
                    return ("I", rng[1] - rng[0])
        if fn == "core::cmp::min" or (fn == "core::cmp::Ord::min" and res.startswith("<usize as")) or fn == "core::num::<impl usize>::min":
            a, b = self.as_poly(args[0]), self.as_poly(args[1])
            if a is not None and b is not None:
                from .poly import mk_min
                cs.no_effects = True
                return ("I", mk_min(a, b))
        if fn == "core::cmp::max" or (fn == "core::cmp::Ord::max" and res.startswith("<usize as")):
            a, b = self.as_poly(args[0]), self.as_poly(args[1])
            if a is not None and b is not None:
                from .poly import mk_min
                cs.no_effects = True
                return ("I", a + b - mk_min(a, b))
        if fn == "core::num::<impl usize>::saturating_sub" and len(args) == 2:
            a, b = self.as_poly(args[0]), self.as_poly(args[1])
            if a is not None and b is not None:
                from .poly import mk_min
                cs.no_effects = True
                return ("I", a - mk_min(a, b))  # max(a - b, 0)
        if fn == "core::num::<impl usize>::saturating_add" and len(args) == 2:
            a, b = self.as_poly(args[0]), self.as_poly(args[1])
            if a is not None and b is not None:
                from .poly import mk_min
                cs.no_effects = True
                return ("I", mk_min(a + b, Poly.atom(("umax",))))  # min(a + b, usize::MAX); every usize quantity is <= umax (poly axiom)
        if fn == "core::num::<impl usize>::div_ceil" and len(args) == 2:
            a_, b_ = self.as_poly(args[0]), self.as_poly(args[1])
            if a_ is not None and b_ is not None and b_.is_const() and b_.const_value() == 2:
                cs.no_effects = True
                return ("I", Poly.atom(("shr1", a_)) + Poly.atom(("and1", a_)))  # ceil(a / 2) = (a >> 1) + (a & 1)
        if (fn == "core::convert::From::from" and res.startswith("<core::ptr::NonNull<T> as core::convert::From<&")) or fn in (
                "core::ptr::NonNull::<T>::cast", "core::ptr::NonNull::<T>::as_ref", "core::ptr::NonNull::<T>::as_mut", "core::ptr::NonNull::<T>::new_unchecked",
                "core::ptr::NonNull::<T>::from_ref", "core::ptr::NonNull::<T>::from_mut"):
            if args and args[0][0] == "P":
                v0 = args[0]
                ot = self.operand_ty(cs.term["args"][0])
                if fn.endswith(("::as_ref", "::as_mut")) and ot is not None and ot.get("k") == "ref" and not v0[2].t:
                    # `&self` / `&mut self` on a NonNull stored in a local: the pointer it holds
                    held = self.read_cell(st, v0[1], (), None)
                    if held[0] == "P":
                        v0 = held
                    else:
                        v0 = None
                if v0 is not None:
                    cs.no_effects = True
                    return ("P", v0[1], v0[2], None)
        if fn in ("core::ptr::from_ref", "core::ptr::from_mut") and args and args[0][0] == "P":
            cs.no_effects = True
            return args[0]
        if fn == "core::mem::size_of":
            return ("I", te.size(targs[0]))
        if fn == "core::mem::needs_drop":
            return ("B", ("needs_drop", tstr(targs[0])))
        if fn in ("core::mem::ManuallyDrop::<T>::new", "core::mem::ManuallyDrop::<T>::into_inner"):
            return args[0]
        if fn == "core::mem::replace" and len(args) == 2 and args[0][0] == "P" and not args[0][2].t:
            p = args[0]
            base, path = (p[1][1], p[1][2]) if p[1][0] == "field" else (p[1], ())
            return self.read_cell(st, base, path, targs[0] if targs else None)
        if fn in ("core::option::Option::<T>::unwrap", "core::option::Option::<T>::expect", "core::option::Option::<T>::unwrap_unchecked") and args:
            # the payload of a modelled Option (that it IS Some where this is reached is the caller's proof or panic: rules.reachable_panics)
            if args[0][0] == "O":
                cs.no_effects = True
                return args[0][1]
            if args[0][0] == "A" and isinstance(args[0][1], tuple) and args[0][1][:2] == ("adt", "core::option::Option") and args[0][1][2] == 1 and len(args[0][2]) == 1:
                cs.no_effects = True
                return args[0][2][0]
        if fn == "core::option::Option::<T>::is_some":
            p = ptr()
            inner = self.read_cell(st, p[1], (), None) if p and not p[2].t else args[0]
            return ("B", ("is_some", inner))
        if fn == "core::option::Option::<T>::is_none":
            p = ptr()
            inner = self.read_cell(st, p[1], (), None) if p and not p[2].t else args[0]
            return ("B", ("not", ("is_some", inner)))
        if fn == "alloc::vec::Vec::<T, A>::len" and args and args[0][0] == "P" and not args[0][2].t:
            # the length is a function of the Vec's current value (a fresh value after every call that may mutate it): two reads of an
            # unchanged Vec agree, and `into_boxed_slice` carries it over
            v = self.read_cell(st, args[0][1], (), None)
            cs.no_effects = True
            if isinstance(v, tuple) and len(v) == 3 and v[:2] == ("V", "vecnew"):
                return I(0)   # a Vec fresh from Vec::new / with_capacity holds nothing
            return ("I", Poly.atom(("vlen", v)))
        if fn in ("alloc::vec::Vec::<T>::with_capacity", "alloc::vec::Vec::<T>::new"):
            return ("V", "vecnew", (cs.bb,))
        if fn == "alloc::vec::Vec::<T, A>::into_boxed_slice" and args:
            return ("P", ("obj", ("ret", ("ret", cs.bb))), Poly.const(0), Poly.atom(("vlen", args[0])))
        if fn in ("core::result::Result::<T, E>::is_ok", "core::result::Result::<T, E>::is_err"):
            p = ptr()
            inner = self.read_cell(st, p[1], (), None) if p and not p[2].t else args[0]
            cs.no_effects = True
            return ("B", ("is_ok", inner)) if fn.endswith("is_ok") else ("B", ("not", ("is_ok", inner)))
        return None

    def iter_elem(self, it, tag):
        """Abstract element produced by polling a std iterator term (None if unknown)."""
        if isinstance(it, tuple) and it and it[0] == "P" and it[3] is not None:
            # a slice reference used as IntoIterator
            return ("P", it[1], it[2] + Poly.atom(("elemoff", tag)), None)
        if isinstance(it, tuple) and len(it) == 3 and it[0] == "A" and isinstance(it[1], tuple) and it[1][:2] == ("adt", "core::ops::Range") and len(it[2]) == 2 \
                and it[2][0][0] == "I" and it[2][1][0] == "I":
            # `for i in lo..hi`: the yielded index, with lo <= i < hi (axioms of the atom, poly.axioms_for)
            return ("I", Poly.atom(("ridx", tag, it[2][0][1], it[2][1][1])))
        if not (isinstance(it, tuple) and len(it) >= 3 and it[0] == "V" and it[1] == "iter"):
            return None
        kind = it[2]
        if kind == "slice":
            p = it[3]
            return ("P", p[1], p[2] + Poly.atom(("elemoff", tag)), None)
        if kind == "chunks":
            p = it[3]
            return ("P", p[1], p[2] + Poly.atom(("elemoff", tag)), Poly.atom(("chunklen", tag, it[4])))
        if kind == "chunks_exact":
            p = it[3]
            return ("P", p[1], p[2] + Poly.atom(("elemoff", tag)), it[4])
        if kind == "enumerate":
            inner = self.iter_elem(it[3], tag + (0,))
            return None if inner is None else ("A", "tuple", (("I", Poly.atom(("enum_idx", tag))), inner))
        if kind == "zip":
            a, b = self.iter_elem(it[3], tag + (0,)), self.iter_elem(it[4], tag + (1,))
            if a is None or b is None:
                return None
            return ("A", "tuple", (a, b))
        if kind in ("rev", "skip", "take", "step_by", "by_ref", "fuse", "peekable"):
            return self.iter_elem(it[3], tag + (0,))
        return None

    def range_of(self, v, ln):
        """(lo, hi) polys of a Range / RangeTo / RangeFrom / RangeFull aggregate."""
        if v[0] != "A" or not isinstance(v[1], tuple) or v[1][0] != "adt":
            return None
        d = v[1][1]
        ops = v[2]
        if d == "core::ops::Range" and len(ops) == 2 and ops[0][0] == "I" and ops[1][0] == "I":
            return ops[0][1], ops[1][1]
        if d == "core::ops::RangeTo" and ops and ops[0][0] == "I":
            return Poly.const(0), ops[0][1]
        if d == "core::ops::RangeFrom" and ops and ops[0][0] == "I":
            return ops[0][1], ln
        if d == "core::ops::RangeFull":
            return Poly.const(0), ln
        return None

    PURE_PREFIXES = (
        "core::slice::<impl [T]>::", "core::mem::size_of", "core::mem::needs_drop", "core::cmp::min",
        "core::ptr::const_ptr::", "core::ptr::mut_ptr::", "core::slice::from_raw_parts", "core::ptr::slice_from_raw_parts",
        "core::mem::ManuallyDrop::<T>::new", "core::mem::MaybeUninit::<T>::as_", "core::mem::MaybeUninit::<T>::uninit",
        "core::ptr::from_ref", "core::ptr::from_mut", "core::cmp::max", "core::ptr::NonNull::<T>::cast", "core::ptr::NonNull::<T>::as_ref", "core::ptr::NonNull::<T>::as_mut", "core::num::<impl usize>::saturating_", "core::num::<impl usize>::min",
        "core::option::Option::<T>::is_", "core::fmt::Arguments", "core::fmt::rt::Argument", "core::panicking::",
        "core::hint::unreachable_unchecked", "core::alloc::Layout::new", "core::ptr::NonNull::<T>::dangling",
        "core::ptr::NonNull::<T>::as_ptr", "core::ptr::read", "core::iter::Iterator::enumerate", "core::iter::Iterator::zip",
        "alloc::boxed::Box::<T>::into_raw", "alloc::boxed::Box::<T, A>::into_raw", "alloc::boxed::Box::<T>::from_raw", "alloc::boxed::Box::<T, A>::from_raw",
        "alloc::boxed::Box::<T>::new_uninit", "alloc::boxed::Box::<core::mem::MaybeUninit<T>", "alloc::alloc::alloc", "alloc::alloc::handle_alloc_error",
        "core::iter::Iterator::map", "core::iter::Iterator::take", "core::mem::forget", "core::mem::transmute_copy",
        "core::ops::Deref::deref",
    )

    def is_pure(self, cs):
        fn = cs.fn
        if cs.key is not None:
            from .models import PURE_KEYS
            if cs.key in PURE_KEYS:
                return True
        if cs.res == "<&mut I as core::iter::ExactSizeIterator>::len":
            return True
        if fn.startswith("core::slice::<impl [T]>::swap"):
            return False
        if fn in ("core::ops::Deref::deref",):
            return True
        if fn == "core::ops::DerefMut::deref_mut":
            return cs.res != fn  # resolved wrapper derefs only hand back a pointer
        return any(fn.startswith(p) for p in self.PURE_PREFIXES)

    def bases_in(self, v, out, depth=0):
        if depth > 6:
            return
        if v[0] == "P":
            out.add(v[1])
        elif v[0] == "A":
            for x in v[2]:
                self.bases_in(x, out, depth + 1)

    def apply_call_effects(self, st, cs, site):
        if self.is_pure(cs) or getattr(cs, "no_effects", False):
            return
        fn = cs.fn
        if fn == "core::ptr::write" or fn == "core::mem::MaybeUninit::<T>::write":
            p = cs.args[0]
            if p[0] == "P" and not p[2].t:
                self.write_cell(st, p[1], (), cs.args[1])
                return
        if fn in ("core::ops::AddAssign::add_assign", "core::ops::SubAssign::sub_assign") and len(cs.args) == 2 and cs.args[0][0] == "P" and not cs.args[0][2].t \
                and cs.args[1][0] == "I" and cs.targs and all(t.get("k") == "prim" and is_int_ty(t) for t in cs.targs[:2]):
            # `AddAssign::add_assign(&mut x, v)` on primitive integers is `x += v` (overflow-checked like the operator): the store, recorded
            p = cs.args[0]
            base, path = (p[1][1], p[1][2]) if p[1][0] == "field" else (p[1], ())
            old = self.read_cell(st, base, path, cs.targs[0])
            if old[0] == "I":
                nv = ("I", old[1] + cs.args[1][1] if fn.endswith("add_assign") else old[1] - cs.args[1][1])
                self.write_cell(st, base, path, nv)
                if self._rec:
                    rec = {"site": (site[0], 10 ** 6), "cell": (base, path), "val": nv, "facts": st.facts, "at": cs.at, "rv": {"k": "use"}, "lhs": None}
                    (self.stores if base[0] != "local" else self.assigns).append(rec)
                return
        if fn == "core::mem::take" and len(cs.args) == 1 and cs.args[0][0] == "P" and not cs.args[0][2].t and cs.targs and cs.targs[0].get("k") == "ref" and cs.targs[0]["t"].get("k") == "slice" and cs.modelled:
            p = cs.args[0]
            base, path = (p[1][1], p[1][2]) if p[1][0] == "field" else (p[1], ())
            self.write_cell(st, base, path, ("P", ("constobj", ("empty", site[0])), Poly.const(0), Poly.const(0)))
            return
        if fn == "core::mem::replace" and len(cs.args) == 2 and cs.args[0][0] == "P" and not cs.args[0][2].t:
            # `mem::replace(&mut x, v)` is `let old = x; x = v; old`: the store, recorded like an assignment through the reference
            p = cs.args[0]
            base, path = (p[1][1], p[1][2]) if p[1][0] == "field" else (p[1], ())
            self.write_cell(st, base, path, cs.args[1])
            if self._rec:
                rec = {"site": (site[0], 10 ** 6), "cell": (base, path), "val": cs.args[1], "facts": st.facts, "at": cs.at, "rv": {"k": "use"}, "lhs": None}
                (self.stores if base[0] != "local" else self.assigns).append(rec)
            return
        bases = set()
        for a, o in zip(cs.args, cs.term["args"]):
            ot = self.operand_ty(o)
            if ot is not None and ot.get("k") == "ref" and not ot["mut"] and a[0] == "P":
                continue  # a shared reference: the callee cannot write through it (interior mutability is not tracked)
            self.bases_in(a, bases)
        # pointers reachable through one level of memory (e.g. a closure struct holding &mut captures)
        more = set()
        for b in bases:
            ub, up = (b[1], b[2]) if b[0] == "field" else (b, ())
            for k, v in st.mem.items():
                if k[0] == ub and k[1][: len(up)] == up:
                    self.bases_in(v, more)
        for b in bases | more:
            self.havoc(st, b, site)

    def havoc(self, st, b, site):
        """Forget everything known about the object (or field sub-object) b: it may have been written through a pointer."""
        ub, up = (b[1], b[2]) if b[0] == "field" else (b, ())
        for k in list(st.mem):
            if k[0] != ub or k[1] == ("__epoch__",):
                continue
            kp = k[1]
            if kp[: len(up)] == up:
                del st.mem[k]  # the cell itself or a sub-cell
            elif up[: len(kp)] == kp:
                # a stored parent aggregate: replace the affected component by an opaque value
                # typed opaque for integer components (the same value the component's own cell gets below), so arithmetic keeps working
                comp = self.init_value(("havoc", site, (ub, up)), self.cell_ty(ub, up), "havoc") if is_int_ty(self.cell_ty(ub, up)) else ("V", "havoc", site, (ub, up))
                nv = self._update_agg(st.mem[k], up[len(kp):], comp)
                if nv is not None:
                    # typed opaque for integer components so arithmetic keeps working
                    st.mem[k] = nv
                else:
                    del st.mem[k]
        if not up:
            st.mem[(ub, ("__epoch__",))] = ("V", "epoch", site)
        else:
            # typed opaque: an integer field stays an integer (a fresh non-negative atom), so later comparisons are still terms
            st.mem[(ub, up)] = self.init_value(("havoc", site, (ub, up)), self.cell_ty(ub, up), "havoc") if is_int_ty(self.cell_ty(ub, up)) else ("V", "havoc", site, (ub, up))

    def cell_ty(self, base, path):
        """Declared type of a field cell of a local (None if unknown)."""
        if base[0] != "local":
            return None
        ty = self.local_ty(base[1])
        for f in path:
            if not isinstance(f, int) or ty is None or ty.get("k") != "adt":
                return None
            adt = self.db.adts.get(ty["def"])
            if adt is None or f >= len(adt["fields"]):
                return None
            ty = adt["fields"][f].get("ty")
        return ty

    # ---- transfer --------------------------------------------------------------------------
    def exec_block(self, bb, st, record):
        self._rec = record
        blk = self.blocks[bb]
        for i, s in enumerate(blk["stmts"]):
            site = (bb, i)
            if s["k"] == "assign":
                val = self.rvalue(st, s["rv"], site, self.place_ty(s["lhs"]) if (s["rv"].get("k") == "bin" and s["rv"].get("op") in ("Add", "Sub", "Mul")) else None)
                base, path = self.write_place(st, s["lhs"], val)
                if record:
                    self.assigns.append({"site": site, "lhs": s["lhs"], "cell": (base, path), "val": val, "rv": s["rv"], "facts": st.facts, "at": s.get("at")})
                    if base[0] != "local":
                        self.stores.append({"site": site, "cell": (base, path), "val": val, "facts": st.facts, "at": s.get("at")})
            elif s["k"] == "setdiscr":
                pass
            else:
                if record and "Intrinsic" in s.get("s", ""):
                    self.unknown.append(("stmt", site, s.get("s")))
        t = blk["term"]
        k = t["k"]
        out = []  # (succ, state)
        site = (bb, "t")
        if k == "goto":
            out.append((t["target"], st))
        elif k == "switch":
            d = self.operand(st, t["discr"])
            targets = t["targets"]
            if d[0] == "I" and d[1].is_const():
                v = d[1].const_value()
                tgt = t["otherwise"]
                for val, b in targets:
                    if val == v:
                        tgt = b
                out.append((tgt, st))
            elif d[0] == "B":
                known = self.bool_known(st.facts, d[1])
                for val, b in targets:
                    truth = bool(val)
                    if known is not None and known != truth:
                        continue
                    s2 = st.copy()
                    s2.facts = s2.facts | frozenset(self.cond_facts(d[1], truth))
                    out.append((b, s2))
                # otherwise edge: for a bool with one listed value, the other value
                listed = {bool(v) for v, _ in targets}
                if len(listed) == 1:
                    truth = not next(iter(listed))
                    if known is None or known == truth:
                        s2 = st.copy()
                        s2.facts = s2.facts | frozenset(self.cond_facts(d[1], truth))
                        out.append((t["otherwise"], s2))
            elif d[0] == "D":
                inner = d[1]
                seen = set()
                known = None
                for f in st.facts:
                    if f[0] == "variant" and f[1] == inner:
                        known = f[2]
                for val, b in targets:
                    seen.add(val)
                    if known is not None and known != val:
                        continue
                    s2 = st.copy()
                    s2.facts = s2.facts | {("variant", inner, val)} | self.variant_implied(inner, val)
                    out.append((b, s2))
                if known is None or known not in seen:
                    s2 = st.copy()
                    if len(seen) == 1:
                        # two-variant enums: otherwise is the other variant
                        if next(iter(seen)) in (0, 1):
                            s2.facts = s2.facts | {("variant", inner, 1 - next(iter(seen)))} | self.variant_implied(inner, 1 - next(iter(seen)))
                    out.append((t["otherwise"], s2))
            elif d[0] == "I":
                # switch on an integer term: the taken arm knows its value, the otherwise arm knows what it is not
                for val, b in targets:
                    s2 = st.copy()
                    f_ = norm_fact(("==", d[1] - Poly.const(val)))
                    if not (f_[1].is_const() and f_[1].const_value() != 0):
                        s2.facts = s2.facts | {("poly",) + f_}
                        out.append((b, s2))
                s2 = st.copy()
                s2.facts = s2.facts | {("poly",) + norm_fact(("!=", d[1] - Poly.const(val))) for val, _ in targets}
                out.append((t["otherwise"], s2))
            else:
                for val, b in targets:
                    out.append((b, st.copy()))
                out.append((t["otherwise"], st.copy()))
        elif k == "return":
            if record:
                rv = self.read_cell(st, ("local", 0), (), self.local_ty(0))
                self.returns.append({"bb": bb, "val": rv, "facts": st.facts, "mem": st.mem})
        elif k in ("unreachable", "resume", "terminate"):
            pass
        elif k == "drop":
            if record:
                self.drops.append({"bb": bb, "place": t["p"], "ty": t["ty"], "tys": t["tys"], "facts": st.facts, "cleanup": blk["cleanup"], "at": t.get("at")})
            st_un = st.copy()
            # dropping may run foreign code, but cannot change the cells we track except the dropped place
            out.append((t["target"], st))
            if isinstance(t["unwind"], dict):
                out.append((t["unwind"]["cleanup"], st_un))
        elif k == "assert":
            c = self.operand(st, t["cond"])
            s2 = st.copy()
            if record:
                # a compiler-inserted check (overflow, division by zero, bounds): recorded with the facts under which it is evaluated and the
                # facts under which it FAILS, so a rule can ask whether the panic is reachable
                fail = frozenset(st.facts) | (frozenset(self.cond_facts(c[1], not t["expected"])) if c[0] == "B" else frozenset())
                self.__dict__.setdefault("asserts", []).append({"bb": bb, "msg": t.get("msg") or t.get("s") or "", "cond": c, "facts": st.facts, "fail_facts": fail, "at": t.get("at"), "cleanup": blk["cleanup"]})
            if c[0] == "B":
                s2.facts = s2.facts | frozenset(self.cond_facts(c[1], t["expected"]))
            out.append((t["target"], s2))
            if isinstance(t["unwind"], dict):
                out.append((t["unwind"]["cleanup"], st.copy()))
        elif k == "call":
            args = [self.operand(st, a) for a in t["args"]]
            f = t["f"]
            fn = f["def"] if f["k"] == "fn" else ""
            fn = PTR_METHOD_ALIASES.get(fn, fn)   # `p.write(v)` is `ptr::write(p, v)`: one name for the rules
            cs = CallSite(bb, t, args, st, fn, self.db)
            if f["k"] != "fn":
                cs.fnval = self.operand(st, f["op"])
            pre = st.copy()
            cs.facts = pre.facts
            cs.mem = pre.mem
            dest_ty = self.place_ty(t["dest"])
            r = self.model_call(st, cs, dest_ty)
            cs.modelled = r is not None
            if cs.modelled and r[0] == "A" and cs.fn.startswith(("core::result::Result::<T, E>::", "core::option::Option::<T>::", "core::ops::Try::", "core::ops::FromResidual::")):
                cs.no_effects = True  # value-level plumbing
            self.apply_call_effects(st, cs, site)
            if fn == "core::iter::Extend::extend" and cs.res.startswith("<alloc::vec::Vec<") and len(args) == 2 and args[0][0] == "P" and not args[0][2].t:
                # Vec::extend appends: the new value's length is the old one plus at most what the pipeline can yield (poly axioms of `vlen`)
                from .rules import pipe_max
                old = self.read_cell(pre, args[0][1], (), None)
                mx = pipe_max(self, args[1])
                st.mem[(args[0][1], ())] = ("V", "vecext", old, mx, (bb,))
            if r is None:
                r = self.init_value(("ret", bb), dest_ty, "ret")
            cs.ret = r
            if record:
                self.calls.append(cs)
            if isinstance(t["unwind"], dict):
                un = st.copy()
                out.append((t["unwind"]["cleanup"], un))
            if t["target"] is not None:
                self.write_place(st, t["dest"], r)
                if fn == "core::hint::assert_unchecked" and args and args[0][0] == "B":
                    # an assumption handed to the optimiser: the code after it may rely on it (whether it HOLDS at this point is an obligation
                    # of the rules: cs.facts are the facts before the assumption, cs.args[0] the assumed condition)
                    st.facts = st.facts | frozenset(self.cond_facts(args[0][1], True))
                    cs.no_effects = True
                out.append((t["target"], st))
        else:
            if record:
                self.unknown.append(("term", site, t.get("s", k)))
        return out

    def variant_implied(self, v, variant):
        """Facts that hold by the meaning of a modelled Option when it is known to be Some / None: `slice.get(i)` is Some exactly when i < len."""
        if isinstance(v, tuple) and len(v) == 3 and v[0] == "O" and isinstance(v[2], tuple) and len(v[2]) == 4 and v[2][0] == "get":
            idx, ln = v[2][2], v[2][3]
            f = norm_fact((">=", ln - idx - 1)) if variant == 1 else norm_fact((">=", idx - ln))
            if not f[1].is_const():
                return frozenset([("poly",) + f])
        return frozenset()

    def place_ty(self, place):
        ty = self.local_ty(place["l"])
        for e in place["p"]:
            if e == "*":
                ty = pointee(ty) if ty else None
            elif isinstance(e, dict) and "f" in e:
                ty = e.get("ty")
            else:
                ty = None
        return ty

    # ---- join ------------------------------------------------------------------------------
    def join(self, bb, a, b):
        """Join state b into a (a is the accumulated state of block bb). Returns (state, changed)."""
        changed = False
        mem = {}
        for k in set(a.mem) | set(b.mem):
            va, vb = a.mem.get(k), b.mem.get(k)
            if va == vb:
                mem[k] = va
                continue
            ty = self.local_ty(k[0][1]) if k[0][0] == "local" and k[1] == () else None
            phi = self.phi_value(bb, k, va, vb, ty)
            mem[k] = phi
            if va != phi:
                changed = True
        facts = self.meet_facts(a.facts, b.facts)
        # relational facts about freshly merged integers: a bound that holds for the value on each incoming edge holds for the phi
        extra = set()
        for k in mem:
            v = mem[k]
            va, vb = a.mem.get(k), b.mem.get(k)
            if v[0] == "I" and (va is None) != (vb is None) and k[1]:
                # a field that one edge holds only inside a whole value (`self` as it was passed in): read it out of that value
                try:
                    if va is None:
                        va = self.read_cell(a, k[0], k[1], {"k": "prim", "n": "usize"})
                    else:
                        vb = self.read_cell(b, k[0], k[1], {"k": "prim", "n": "usize"})
                except Exception:
                    pass
            if va is None or vb is None or va == vb or v[0] != "I" or va[0] != "I" or vb[0] != "I":
                continue
            if len(v[1].t) != 1:
                continue
            (m, c), = v[1].t.items()
            if c != 1 or len(m) != 1 or not (isinstance(m[0], tuple) and m[0][0] == "phi" and m[0][1] == bb):
                continue
            patom = m[0]
            extra |= self._phi_facts(patom, va[1], a.facts, vb[1], b.facts)
        # a slice pointer merged with itself moved along (a loop that peels elements off a slice: `rest = &mut rest[1..]`, split_first_mut ..):
        # if on both edges  offset + size * length  is the same quantity E - on the back edge under the hypothesis that it was E at the head -
        # the merged pointer keeps  off(phi) + size * len(phi) == E  (its end stays put while its start advances)
        for k in mem:
            v = mem[k]
            va, vb = a.mem.get(k), b.mem.get(k)
            if va is None or vb is None or va == vb or v[0] != "P" or va[0] != "P" or vb[0] != "P" or va[1] != vb[1] or v[1] != va[1]:
                continue
            if va[3] is None or vb[3] is None or v[3] is None:
                continue
            po, pl = v[2], v[3]
            if not (len(po.t) == 1 and len(pl.t) == 1):
                continue
            oa = [x for x in po.atoms() if isinstance(x, tuple) and x[0] == "off" and x[1][:2] == ("phi", bb)]
            la = [x for x in pl.atoms() if isinstance(x, tuple) and x[0] == "len" and x[1][:2] == ("phi", bb)]
            if len(oa) != 1 or len(la) != 1:
                continue
            for first, other, ffirst, fother in ((va, vb, a.facts, b.facts), (vb, va, b.facts, a.facts)):
                # `other` is the moved-along copy: expressed through the phi atoms; element size from its step
                d_off, d_len = other[2] - po, other[3] - pl
                if not (d_len.is_const() and d_len.const_value() != 0):
                    continue
                # d_off = -size * d_len
                if d_len.const_value() == -1:
                    size = d_off
                elif d_len.const_value() == 1:
                    size = -d_off
                else:
                    continue
                if oa[0] in size.atoms() or la[0] in size.atoms():
                    continue
                E = first[2] + size * first[3]
                if oa[0] in E.atoms() or la[0] in E.atoms():
                    continue
                inv = norm_fact(("==", po + size * pl - E))
                hyp = self.poly_facts(fother) + [inv]
                if prove(("==", other[2] + size * other[3] - E), hyp, 200):
                    extra.add(("poly",) + inv)
                    # and the start never runs past the end: len(phi) >= 0 is implicit (atoms are non-negative)
                break
        if extra:
            facts = facts | frozenset(extra)
        if facts != a.facts:
            changed = True
        return State(mem, facts), changed

    def _phi_facts(self, patom, pa, fa, pb, fb):
        """Candidate bounds on the merged value, kept when they hold on both edges (with the phi replaced by the edge's value)."""
        P = Poly.atom(patom)
        cands = set()
        for pv, fs in ((pa, fa), (pb, fb)):
            atoms = pv.atoms()
            single = None
            if len(pv.t) == 1:
                (m, c), = pv.t.items()
                if c == 1 and len(m) == 1:
                    single = m[0]
            for f in fs:
                if f[0] != "poly" or f[2].is_const():
                    continue
                if single is not None and single in f[2].atoms():
                    q = f[2].subst({single: P})
                    cands.add((f[1], q))
                    if f[1] == ">=" and q.const_value() < 2:
                        # strict -> non-strict. Only near the origin: `k + phi >= 0` for ever larger k is an ascending chain of ever weaker facts
                        # (one more per iteration of the enclosing loop) that says nothing and keeps the fixpoint from settling
                        cands.add((">=", q + Poly.const(1)))
                    if f[1] == "==":
                        cands.add((">=", q))
                        cands.add((">=", -q))
            # the value itself as a bound: phi <= value-of-the-other-side style candidates
            cands.add((">=", pv - P))
            cands.add((">=", P - pv))
        out = set()
        pfa, pfb = self.poly_facts(fa), self.poly_facts(fb)
        for rel, q in cands:
            if q.is_const() or patom not in q.atoms():
                continue
            if all(v >= 0 for v in q.t.values()) and (rel == ">=" or (rel == "!=" and q.const_value() > 0)):
                continue   # holds for every value of the (non-negative) atoms: says nothing, and would be re-derived at every merge for ever
            qa, qb = q.subst({patom: pa}), q.subst({patom: pb})
            if prove((rel, qa), pfa, 200) and prove((rel, qb), pfb, 200):
                out.add(("poly", rel, q))
        return out

    def meet_facts(self, fa, fb):
        """Facts implied by both sides: syntactic intersection plus weakenings provable from each side
        (so `a < b || a > b` still yields `a != b` at the join)."""
        if fa == fb:
            return fa
        ck = (fa, fb)
        cache = self.__dict__.setdefault("_meet_cache", {})
        if ck in cache:
            return cache[ck]
        r = self._meet_facts(fa, fb)
        cache[ck] = r
        cache[(fb, fa)] = r
        return r

    def _meet_facts(self, fa, fb):
        common = fa & fb
        cands = set()
        for f in (fa | fb) - common:
            if f[0] != "poly":
                continue
            rel, p = f[1], f[2]
            if p.is_const():
                continue  # trivial facts carry no information (and would otherwise breed new ones forever)
            cands.add(f)
            if rel == ">=":
                q = p + Poly.const(1)
                if q.t and not q.is_const():
                    items = sorted(q.t.items(), key=lambda kv: repr(kv[0]))
                    if items[0][1] < 0:
                        q = -q
                    cands.add(("poly", "!=", q))
            elif rel == "==":
                cands.add(("poly", ">=", p))
                cands.add(("poly", ">=", -p))
        if not cands:
            return common
        pa, pb = self.poly_facts(fa), self.poly_facts(fb)
        keep = set(common)
        for c in cands:
            if c[2].is_const():
                continue
            g = (c[1], c[2])
            if (c in fa or prove(g, pa, 120)) and (c in fb or prove(g, pb, 120)):
                keep.add(c)
        return frozenset(keep)

    def phi_value(self, bb, k, va, vb, ty):
        tag = ("phi", bb, k)
        if va is not None and vb is not None and va[0] == "A" and vb[0] == "A" and va[1] == vb[1] and len(va[2]) == len(vb[2]):
            comps = []
            for i, (x, y) in enumerate(zip(va[2], vb[2])):
                comps.append(x if x == y else self.phi_value(bb, (k, i), x, y, None))
            return ("A", va[1], tuple(comps))
        if va is not None and vb is not None and va[0] == "O" and vb[0] == "O":
            return ("O", va[1] if va[1] == vb[1] else self.phi_value(bb, (k, "payload"), va[1], vb[1], None), tag)
        kinds = {v[0] for v in (va, vb) if v is not None}
        if va is None or vb is None:
            # cell defined on one side only: opaque (typed if we can)
            v = va or vb
            kinds = {v[0]}
        if kinds == {"I"} or is_int_ty(ty):
            return ("I", Poly.atom(tag))
        if kinds == {"B"}:
            return ("B", ("opaque", tag))
        if kinds == {"P"}:
            la = va[3] if va is not None else None
            lb = vb[3] if vb is not None else None
            ln = la if (la is not None and la == lb) else (Poly.atom(("len", tag)) if (la is not None or lb is not None) else None)
            if va is not None and vb is not None and va[1] == vb[1]:
                return ("P", va[1], Poly.atom(("off", tag)), ln)
            return ("P", ("obj", tag), Poly.const(0), ln)
        return ("V", "phi", tag)

    # ---- driver ----------------------------------------------------------------------------
    def entry_state(self):
        st = State()
        if self.entry_facts:
            st.facts = frozenset(self.entry_facts(self))
        for i in range(1, self.mir["arg_count"] + 1):
            ty = self.local_ty(i)
            key = (("local", i), ())
            if is_ptr_ty(ty):
                ln = Poly.atom(("len", ("arg", i))) if is_slice_ptr_ty(ty) else None
                st.mem[key] = ("P", ("arg", i), Poly.const(0), ln)
            elif is_int_ty(ty):
                st.mem[key] = ("I", Poly.atom(("arg", i)))
            elif ty.get("k") == "prim" and ty["n"] == "bool":
                st.mem[key] = ("B", ("opaque", ("arg", i)))
            else:
                st.mem[key] = ("V", "arg", i)
        return st

    def _rpo(self):
        """Reverse post-order numbering of the static CFG (all edges)."""
        succs = {}
        for i, blk in enumerate(self.blocks):
            t = blk["term"]
            out = []
            for key in ("target", "otherwise"):
                if t.get(key) is not None and isinstance(t.get(key), int):
                    out.append(t[key])
            for v, b_ in t.get("targets", []) if t["k"] == "switch" else []:
                out.append(b_)
            u = t.get("unwind")
            if isinstance(u, dict):
                out.append(u["cleanup"])
            succs[i] = out
        seen, order = set(), []
        stack = [(0, iter(succs.get(0, [])))]
        seen.add(0)
        while stack:
            n, it = stack[-1]
            adv = False
            for s_ in it:
                if s_ not in seen:
                    seen.add(s_)
                    stack.append((s_, iter(succs.get(s_, []))))
                    adv = True
                    break
            if not adv:
                order.append(n)
                stack.pop()
        order.reverse()
        return {b_: i for i, b_ in enumerate(order)}

    def _is_phi_of(self, v, bb, depth=0):
        """v mentions a phi atom created at block bb (anywhere inside the term)."""
        if depth > 10:
            return False
        if isinstance(v, Poly):
            return any(self._is_phi_of(a, bb, depth + 1) for a in v.atoms())
        if isinstance(v, tuple):
            if len(v) >= 2 and v[0] == "phi" and v[1] == bb:
                return True
            return any(self._is_phi_of(x, bb, depth + 1) for x in v if isinstance(x, (tuple, Poly)))
        return False

    def _flags_only(self, st):
        mem = {}
        for k, v in st.mem.items():
            if (v[0] == "B" and v[1][0] == "const") or (v[0] == "I" and v[1].is_const()):
                mem[k] = v
        return State(mem, frozenset())

    def run(self):
        """Worklist fixpoint.  Out-states are kept per CFG edge and a block's in-state is recomputed as the join
        over its incoming edges, so single-predecessor blocks receive their predecessor's state exactly."""
        from . import poly as _poly
        _saved_split = _poly.SPLIT_DEPTH
        _poly.SPLIT_DEPTH = 0  # joins only need the cheap prover; rules prove their goals afterwards with case splits
        try:
            return self._run()
        finally:
            _poly.SPLIT_DEPTH = _saved_split

    def _run(self):
        entry = self.entry_state()
        self.block_in = {0: entry}
        edge_out = {}  # (pred, idx) -> (succ, state)
        widened = {}
        recomputed = {}
        rpo = self._rpo()
        work = [0]
        iters = 0
        import time as _time
        t_start = _time.process_time()
        budget = float(os.environ.get("GAV_ANALYSIS_BUDGET", "25"))
        # a process-wide allowance on top: once the analyses of one check have used it up, further bodies are not analysed at all (they would
        # be the pathological ones) - the check then ends with UNKNOWN verdicts instead of running for an unbounded time
        total = float(os.environ.get("GAV_TOTAL_BUDGET", "150"))
        if _SPENT[0] > total:
            self.unknown.append(("fixpoint", None, "the check's analysis time allowance (%ds) is used up" % total))
            work = []
        from . import poly as _poly
        _poly.DEADLINE[0] = t_start + budget   # proofs attempted inside joins give up at once after the budget: the iteration then ends quickly
        exp0 = _poly.EXPIRED[0]
        while work:
            iters += 1
            if iters > 6000:
                self.unknown.append(("fixpoint", None, "iteration bound"))
                break
            if _time.process_time() - t_start > budget:
                # a body whose fixpoint does not settle within the budget is NOT analysed: every rule that depends on it must say so
                self.unknown.append(("fixpoint", None, "time bound (%ds) after %d iterations" % (budget, iters)))
                break
            work.sort(key=lambda b_: rpo.get(b_, 1 << 30))
            bb = work.pop(0)
            outs = self.exec_block(bb, self.block_in[bb].copy(), False)
            if not self.blocks[bb]["cleanup"]:
                # cleanup blocks only need the drop flags (constant bools / ints): project the state on unwind edges
                outs = [(succ, self._flags_only(s2) if self.blocks[succ]["cleanup"] else s2) for succ, s2 in outs]
            dirty = set()
            for idx, (succ, s2) in enumerate(outs):
                old = edge_out.get((bb, idx))
                if old is None or old[0] != succ or old[1].mem != s2.mem or old[1].facts != s2.facts:
                    if old is not None and old[0] != succ:
                        dirty.add(old[0])
                    edge_out[(bb, idx)] = (succ, s2)
                    dirty.add(succ)
            idx = len(outs)
            while (bb, idx) in edge_out:
                dirty.add(edge_out[(bb, idx)][0])
                del edge_out[(bb, idx)]
                idx += 1
            for succ in sorted(dirty):
                incoming = [st for (p, i), (t, st) in sorted(edge_out.items()) if t == succ]
                if succ == 0:
                    incoming = [entry] + incoming
                if not incoming:
                    if succ in self.block_in and succ != 0:
                        del self.block_in[succ]
                    continue
                acc = incoming[0].copy()
                for st in incoming[1:]:
                    acc, _ = self.join(succ, acc, st)
                # widening: a cell that has once been merged into this block's phi stays merged (keeps the iteration monotone)
                recomputed[succ] = recomputed.get(succ, 0) + 1
                if recomputed[succ] > int(os.environ.get("GAV_WIDEN", "40")):
                    w = widened.setdefault(succ, {})
                    for k, v in list(acc.mem.items()):
                        if self._is_phi_of(v, succ):
                            w[k] = v
                    for k, v in w.items():
                        if k in acc.mem and acc.mem[k] != v:
                            acc.mem[k] = v
                prev = self.block_in.get(succ)
                if prev is not None and len(incoming) > 1 and recomputed[succ] > int(os.environ.get("GAV_WIDEN", "40")):
                    acc.facts = acc.facts & prev.facts  # delayed widening: facts at a merge point only shrink from here on
                if os.environ.get("GAV_OSC") and prev is not None and recomputed[succ] > 6 and recomputed[succ] < 10 and (prev.mem != acc.mem or prev.facts != acc.facts):
                    from .dump import fs as _fs, vs as _vs
                    print("OSC %s bb%d #%d: facts- %s | facts+ %s | mem %s" % (self.body.get("key", "?")[-12:], succ, recomputed[succ], _fs(prev.facts - acc.facts)[:300], _fs(acc.facts - prev.facts)[:300],
                          [(k, _vs(prev.mem.get(k))[:80], _vs(v)[:80]) for k, v in acc.mem.items() if prev.mem.get(k) != v][:3]))
                if prev is None or prev.mem != acc.mem or prev.facts != acc.facts:
                    self.block_in[succ] = acc
                    if succ not in work:
                        work.append(succ)
        _SPENT[0] += _time.process_time() - t_start
        if os.environ.get("GAV_TIMELOG"):
            with open(os.environ["GAV_TIMELOG"], "a") as fh_:
                fh_.write("%.2f %d %d %s\n" % (_time.process_time() - t_start, iters, len(self.blocks), self.body.get("key", "?") if isinstance(self.body, dict) else "?"))
        _poly.DEADLINE[0] = None
        if _poly.EXPIRED[0] != exp0 and not any(u and u[0] == "fixpoint" for u in self.unknown):
            self.unknown.append(("fixpoint", None, "time bound (%ds): proofs inside merges were cut short" % budget))
        # recording pass
        self.edges = {}
        self.edge_facts = {}  # (pred, succ) -> list of fact sets, one per CFG edge
        for bb in sorted(self.block_in):
            outs = self.exec_block(bb, self.block_in[bb].copy(), True)
            self.edges[bb] = [s for s, _ in outs]
            for s, st2 in outs:
                self.edge_facts.setdefault((bb, s), []).append(st2.facts)
        return self

    # ---- extents ---------------------------------------------------------------------------
    def base_extent(self, base):
        """Size in bytes (Poly) of the object a base denotes, when its type says so; else None."""
        te = self.tenv
        if base[0] == "arg":
            ty = self.local_ty(base[1])
            pt = pointee(ty)
            if pt is None:
                return None
            if pt.get("k") == "slice":
                return Poly.atom(("len", ("arg", base[1]))) * te.size(pt["t"])
            return te.size(pt)
        if base[0] == "local":
            return te.size(self.local_ty(base[1]))
        return None

    # ---- dominance -------------------------------------------------------------------------
    def dominators(self):
        if getattr(self, "_dom", None) is not None:
            return self._dom
        nodes = sorted(self.block_in)
        preds = {n: set() for n in nodes}
        for n, succs in self.edges.items():
            for s2 in succs:
                if s2 in preds:
                    preds[s2].add(n)
        dom = {n: set(nodes) for n in nodes}
        dom[0] = {0}
        changed = True
        while changed:
            changed = False
            for n in nodes:
                if n == 0:
                    continue
                ps = [dom[p] for p in preds[n]]
                new = (set.intersection(*ps) if ps else set()) | {n}
                if new != dom[n]:
                    dom[n] = new
                    changed = True
        self._dom = dom
        return dom

    def dominates(self, a, b):
        """block a dominates block b"""
        return a in self.dominators().get(b, set())

    def reaches(self, a, b):
        """b is reachable from a (a != b) along recorded edges."""
        seen, work = set(), [a]
        while work:
            n = work.pop()
            for s2 in self.edges.get(n, []):
                if s2 not in seen:
                    seen.add(s2)
                    work.append(s2)
        return b in seen

    # ---- queries ---------------------------------------------------------------------------
    def reachable(self, bb):
        return bb in self.block_in

    def calls_to(self, *names):
        return [c for c in self.calls if c.fn in names or c.res in names or (c.key is not None and c.key in names)]

    def calls_matching(self, pred):
        return [c for c in self.calls if pred(c)]


def analyze(db, body, models=None, entry_facts=None):
    return Analysis(db, body, models, entry_facts).run()
