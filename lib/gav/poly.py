"""Integer polynomials over opaque non-negative atoms + a small inequality prover.

Atoms are hashable tuples.  All atoms denote non-negative integers (lengths, sizes, indices,
usize values).  Arithmetic is over mathematical integers (usize wrap-around is excluded by
assumption, stated in the evidence).
"""

import time as _time
from fractions import Fraction


def _mkey(a):
    try:
        return _MKEY_CACHE[a]
    except KeyError:
        r = repr(a)
        if len(_MKEY_CACHE) < 200000:
            _MKEY_CACHE[a] = r
        return r
    except TypeError:
        return repr(a)


_MKEY_CACHE = {}


class Poly:
    __slots__ = ("t", "_k", "_h", "_r")

    def __init__(self, t=None):
        self.t = {k: v for k, v in (t or {}).items() if v != 0}
        self._k = None
        self._h = None
        self._r = None

    @staticmethod
    def const(n):
        return Poly({(): n})

    @staticmethod
    def atom(a):
        return Poly({(a,): 1})

    def __add__(self, o):
        o = as_poly(o)
        t = dict(self.t)
        for k, v in o.t.items():
            t[k] = t.get(k, 0) + v
        return Poly(t)

    def __neg__(self):
        return Poly({k: -v for k, v in self.t.items()})

    def __sub__(self, o):
        return self + (-as_poly(o))

    def sub_scaled(self, o, c):
        """self - c * o for an integer c (one pass)."""
        t = dict(self.t)
        for k, v in o.t.items():
            t[k] = t.get(k, 0) - c * v
        return Poly(t)

    def __mul__(self, o):
        o = as_poly(o)
        if len(o.t) == 1 and () in o.t:
            c = o.t[()]
            return Poly({k: v * c for k, v in self.t.items()})
        t = {}
        for k1, v1 in self.t.items():
            for k2, v2 in o.t.items():
                k = tuple(sorted(k1 + k2, key=_mkey))
                t[k] = t.get(k, 0) + v1 * v2
        return Poly(t)

    def is_const(self):
        return all(k == () for k in self.t)

    def const_value(self):
        return self.t.get((), 0)

    def atoms(self):
        s = set()
        for k in self.t:
            s.update(k)
        return s

    def key(self):
        if self._k is None:
            self._k = tuple(sorted(((tuple(_mkey(a) for a in k), v) for k, v in self.t.items())))
        return self._k

    def __eq__(self, o):
        return isinstance(o, Poly) and self.t == o.t

    def __hash__(self):
        if self._h is None:
            self._h = hash(self.key())
        return self._h

    def subst(self, mapping):
        """mapping: atom -> Poly"""
        out = Poly.const(0)
        for k, v in self.t.items():
            term = Poly.const(v)
            for a in k:
                term = term * (mapping[a] if a in mapping else Poly.atom(a))
            out = out + term
        return out

    def __repr__(self):
        if self._r is None:
            self._r = self._repr()   # a Poly is never mutated after construction
        return self._r

    def _repr(self):
        if not self.t:
            return "0"
        parts = []
        for k, v in sorted(self.t.items(), key=lambda kv: (len(kv[0]), repr(kv[0]))):
            m = "*".join(atom_s(a) for a in k)
            if not k:
                parts.append(str(v))
            elif v == 1:
                parts.append(m)
            elif v == -1:
                parts.append("-" + m)
            else:
                parts.append("%d*%s" % (v, m))
        return " + ".join(parts).replace("+ -", "- ")


def atom_s(a):
    if isinstance(a, tuple):
        if not a:
            return "()"
        if not isinstance(a[0], str):
            return "(" + ",".join(atom_s(x) if isinstance(x, tuple) else repr(x) for x in a) + ")"
        if a and a[0] in ("L", "C", "S"):
            return "%s(%s)" % (a[0], a[1])
        return "%s(%s)" % (a[0], ",".join(atom_s(x) if isinstance(x, tuple) else repr(x) if isinstance(x, Poly) else str(x) for x in a[1:]))
    return str(a)


UMAX = ("umax",)
_USIZE_TAGS = ("L", "cell", "cell@", "arg", "len", "proj", "ret", "phi", "C")


def _flatten_min(p):
    """p == min(a1..ak) + rest  ->  [a1 + rest, .., ak + rest]; otherwise [p]."""
    mins = [(m, v) for m, v in p.t.items() if len(m) == 1 and isinstance(m[0], tuple) and m[0] and m[0][0] == "min"]
    if len(mins) == 1 and mins[0][1] == 1 and not any(isinstance(a, tuple) and a and a[0] == "min" for m, v in p.t.items() if m != mins[0][0] for a in m):
        atom = mins[0][0][0]
        rest = p - Poly.atom(atom)
        out = []
        for a in atom[1:]:
            out += _flatten_min(a + rest)
        return out
    return [p]


def _is_usize_quantity(p):
    """A single usize-valued atom (a length, parameter, loaded field, ...): bounded by usize::MAX."""
    if len(p.t) != 1:
        return False
    (m, v), = p.t.items()
    return v == 1 and len(m) == 1 and isinstance(m[0], tuple) and m[0] and m[0][0] in _USIZE_TAGS


def mk_min(x, y):
    """Canonical polynomial for min(x, y).  Nested minima are flattened (min(a, min(b, c)) = min(a, b, c)), usize::MAX is dropped next to
    a plain usize quantity, arguments are shifted so that no monomial is negative and share no common part, so min(i + n, b),
    i + min(n, b - i) and min(b, min(i + n, usize::MAX)) all normalise to the same form."""
    x, y = as_poly(x), as_poly(y)
    args = []
    for q in _flatten_min(x) + _flatten_min(y):
        if q not in args:
            args.append(q)
    um = Poly.atom(UMAX)
    if um in args and any(_is_usize_quantity(q) for q in args if q != um):
        args.remove(um)
    if len(args) == 1:
        return args[0]
    shift = {}
    for q in args:
        for m, v in q.t.items():
            if v < 0:
                shift[m] = max(shift.get(m, 0), -v)
    s = Poly(shift)
    args2 = [q + s for q in args]
    common = {}
    for m in set.intersection(*[set(q.t) for q in args2]):
        c = min(q.t[m] for q in args2)
        if c > 0:
            common[m] = c
    c = Poly(common)
    args3 = [q - c for q in args2]
    if any(not q.t for q in args3):
        return c - s  # min(0, nonneg, ..) = 0
    args3 = sorted(args3, key=lambda q: repr(q.key()))
    return Poly.atom(("min",) + tuple(args3)) + c - s


def as_poly(x):
    if isinstance(x, Poly):
        return x
    if isinstance(x, int):
        return Poly.const(x)
    raise TypeError(x)


# ---------------------------------------------------------------------------------------------
# Facts and prover.  A fact is (rel, Poly) meaning  Poly rel 0  with rel in {">=", "==", "!="}.
# (a < b  is  b - a - 1 >= 0;  a <= b is b - a >= 0.)


def fact_cmp(op, a, b):
    """Return the fact for `a op b` (op in Eq Ne Lt Le Gt Ge) as (rel, poly)."""
    if op == "Eq":
        return ("==", a - b)
    if op == "Ne":
        return ("!=", a - b)
    if op == "Lt":
        return (">=", b - a - 1)
    if op == "Le":
        return (">=", b - a)
    if op == "Gt":
        return (">=", a - b - 1)
    if op == "Ge":
        return (">=", a - b)
    raise ValueError(op)


NEG = {"Eq": "Ne", "Ne": "Eq", "Lt": "Ge", "Ge": "Lt", "Le": "Gt", "Gt": "Le"}


def norm_fact(f):
    rel, p = f
    if rel in ("==", "!="):
        # canonical sign: first nonzero coefficient positive
        items = sorted(p.t.items(), key=lambda kv: repr(kv[0]))
        if items and items[0][1] < 0:
            p = -p
    return (rel, p)


def axioms_for(atoms):
    """Facts that hold by the meaning of interpreted atoms (all as >= facts)."""
    out = []
    for a in atoms:
        if not isinstance(a, tuple):
            continue
        if a[0] == "min":
            for x in a[1:]:
                out.append((">=", x - Poly.atom(a)))
        elif a[0] == "div":  # floor(x / y), y > 0 at the use site (checked by the rule)
            x, y = a[1], a[2]
            q = Poly.atom(a)
            out.append((">=", x - q * y))  # q*y <= x
            out.append((">=", q * y + y - x - 1))  # x < q*y + y
        elif a[0] == "shr1":  # x >> 1
            x = a[1]
            h = Poly.atom(a)
            out.append((">=", x - h * Poly.const(2)))  # 2h <= x
            out.append((">=", h * Poly.const(2) + 1 - x))  # x <= 2h+1
        elif a[0] == "chunklen":  # length of a chunk produced by slice.chunks(n): 1 <= len <= n
            n = a[2]
            out.append((">=", n - Poly.atom(a)))
            out.append((">=", Poly.atom(a) - Poly.const(1)))
        elif a[0] == "and1":  # x & 1  (with shr1(x): x = 2*shr1 + and1)
            b = Poly.atom(a)
            out.append((">=", Poly.const(1) - b))
        elif a[0] == "band" and len(a) == 3:  # x & (2^k - 1)
            out.append((">=", Poly.const(a[2]) - Poly.atom(a)))
        elif a[0] == "vlen" and isinstance(a[1], tuple) and len(a[1]) == 5 and a[1][:2] == ("V", "vecext"):
            # the length of a Vec after `extend(pipeline)`: at least what it was, at most that plus what the pipeline can yield
            old, mx = a[1][2], a[1][3]
            oldlen = Poly.const(0) if (isinstance(old, tuple) and len(old) == 3 and old[:2] == ("V", "vecnew")) else Poly.atom(("vlen", old))
            out.append((">=", Poly.atom(a) - oldlen))
            if mx is not None:
                out.append((">=", oldlen + mx - Poly.atom(a)))
        elif a[0] == "ridx" and len(a) == 4:  # index yielded by `lo..hi`
            out.append((">=", Poly.atom(a) - a[2]))
            out.append((">=", a[3] - Poly.atom(a) - Poly.const(1)))
    # usize::MAX bounds every quantity that is itself a usize value: lengths, parameters, loaded fields, slice lengths
    um = UMAX
    if um in atoms:
        for a in atoms:
            if isinstance(a, tuple) and a and a[0] in _USIZE_TAGS and a != um:
                out.append((">=", Poly.atom(um) - Poly.atom(a)))
    return out


def and1_identities(atoms):
    """x = 2*(x>>1) + (x&1) whenever both atoms occur."""
    out = []
    for a in atoms:
        if isinstance(a, tuple) and a[0] == "and1":
            x = a[1]
            out.append(("==", x - Poly.atom(("shr1", x)) * Poly.const(2) - Poly.atom(a)))
        if isinstance(a, tuple) and a[0] == "band" and len(a) == 3:
            x, k = a[1], (a[2] + 1).bit_length() - 1
            if ("shr", x, k) in atoms:  # x = 2^k * (x >> k) + (x & (2^k - 1))
                out.append(("==", x - Poly.atom(("shr", x, k)) * Poly.const(1 << k) - Poly.atom(a)))
    return out


def _nonneg_syntactic(p):
    return all(v >= 0 for v in p.t.values())


class _Budget:
    def __init__(self, n):
        self.n = n
        self.fail = {}   # key of a polynomial -> greatest depth at which the search for it failed (within this one top-level attempt)


DEADLINE = [None]   # CPU time (time.process_time) after which every proof attempt gives up at once (set by the abstract interpreter per analysis)
EXPIRED = [0]


def prove_ge0(p, facts, depth=3, _seen=None, _budget=None):
    """Try to prove p >= 0 given facts (list of (rel, Poly)); atoms are >= 0."""
    if _nonneg_syntactic(p):
        return True
    if depth == 0:
        return False
    if DEADLINE[0] is not None and _time.process_time() > DEADLINE[0]:
        EXPIRED[0] += 1
        return False   # "not proved" is always a sound answer
    if _budget is None:
        _budget = _Budget(1500)
    _budget.n -= 1
    if _budget.n <= 0:
        return False
    _seen = _seen or set()
    k = p.key()
    if k in _seen:
        return False
    # the same polynomial is reached along many orders of subtracting the same facts: a search that failed with at least this much depth
    # left fails again (a shortest derivation never passes through one of its own ancestors, so the cycle cut above loses nothing)
    if _budget.fail.get(k, 0) >= depth:
        return False
    _seen = _seen | {k}
    patoms = p.atoms()
    neg_monos = [m for m, v in p.t.items() if v < 0]
    cands = []
    for rel, f in facts:
        if not f.t:
            continue
        if rel == ">=":
            cands.append(f)
        elif rel == "==":
            cands.append(f)
            cands.append(-f)
    # only facts that can cancel a negative monomial of p are useful: f must have a positive coefficient on an
    # atom occurring in a negative monomial of p
    negatoms = set()
    for m in neg_monos:
        negatoms.update(m)
    useful = []
    for f in cands:
        hit = any(v < 0 and (not m or (set(m) & negatoms) or not negatoms) for m, v in f.t.items())
        if () in f.t and f.t[()] < 0 and any(m == () for m in neg_monos):
            hit = True
        if hit or any(v < 0 and m in p.t and p.t[m] < 0 for m, v in f.t.items()):
            useful.append(f)
    # p - c*f >= 0 with f >= 0  =>  p >= 0 ; c may be a constant or a single atom
    for f in useful:
        for c in (1, 2):
            q = p.sub_scaled(f, c)
            if len(q.t) <= len(p.t) + 1 and prove_ge0(q, facts, depth - 1, _seen, _budget):
                return True
        # multiply by an atom occurring in p (for products like q*N)
        for a in patoms:
            q = p - f * Poly.atom(a)
            if len(q.t) < len(p.t) + 1 and prove_ge0(q, facts, depth - 1, _seen, _budget):
                return True
    if _budget.n > 0 and _budget.fail.get(k, 0) < depth:
        _budget.fail[k] = depth
    return False


_PROVE_CACHE = {}


def prove(goal, facts, budget=1500):
    """goal: (rel, Poly) with rel in >= == !=.  Sound, incomplete.  Memoised on (goal, facts, budget)."""
    facts = list(facts)
    try:
        ck = (goal[0], goal[1].key(), frozenset((r, f.key()) for r, f in facts), budget, SPLIT_DEPTH)
    except Exception:
        ck = None
    if ck is not None and ck in _PROVE_CACHE:
        return _PROVE_CACHE[ck]
    r = _prove(goal, facts, budget)
    if ck is not None and len(_PROVE_CACHE) < 200000:
        _PROVE_CACHE[ck] = r
    return r


SPLIT_DEPTH = 3  # case-split depth on min atoms; the abstract interpreter's own joins run with 0 (see absint.Analysis.run)


def _prove(goal, facts, budget=1500, _split=None):
    if _split is None:
        _split = SPLIT_DEPTH
    if _prove1(goal, facts, budget):
        return True
    # case split on a min atom: min(x, y) = x when x <= y, = y when y <= x (both cases must go through)
    if _split <= 0:
        return False
    rel, p = goal
    mins = [a for a in p.atoms() if isinstance(a, tuple) and a and a[0] == "min"]
    if not mins:
        for _, f in facts:
            mins += [a for a in f.atoms() if isinstance(a, tuple) and a and a[0] == "min"]
    for a in mins[:3]:
        ok = True
        for keep in a[1:]:
            others = [o for o in a[1:] if o is not keep]
            mp = {a: keep}
            g2 = (rel, p.subst(mp))
            f2 = [(r, f.subst(mp)) for r, f in facts] + [(">=", o - keep) for o in others]
            # a case whose hypothesis contradicts the facts holds vacuously
            if any(_prove1((">=", keep - o - 1), list(facts), min(budget, 300)) for o in others):
                continue
            if not _prove(g2, f2, budget, _split - 1):
                ok = False
                break
        if ok:
            return True
    return False


def _const_bindings(facts):
    """atom -> constant for equality facts of the form  atom - c == 0  (or c - atom == 0)."""
    out = {}
    for r, f in facts:
        if r != "==" or len(f.t) > 2:
            continue
        atoms = [(m, v) for m, v in f.t.items() if m]
        if len(atoms) != 1 or len(atoms[0][0]) != 1 or atoms[0][1] not in (1, -1):
            continue
        c = f.t.get((), 0)
        a = atoms[0][0][0]
        val = -c if atoms[0][1] == 1 else c
        if val >= 0:
            out[a] = Poly.const(val)
    return out


def _prove1(goal, facts, budget=1500):
    rel, p = goal
    facts = list(facts)
    # an atom known to equal a constant is replaced by it everywhere (makes products like N * q linear when q == 1)
    bind = _const_bindings(facts)
    if bind:
        p = p.subst(bind)
        facts = [(r, f.subst(bind)) for r, f in facts]
        facts = [(r, f) for r, f in facts if f.t]
    atoms = set(p.atoms())
    for _, f in facts:
        atoms |= f.atoms()
    # atoms nested inside interpreted atoms
    more = set()
    for a in atoms:
        if isinstance(a, tuple) and a[0] in ("min", "div", "shr1", "and1", "shr", "band", "chunklen", "ridx"):
            for x in a[1:]:
                if isinstance(x, Poly):
                    more |= x.atoms()
    atoms |= more
    # the strengthened hypothesis set depends on the facts and the atoms only, not on the goal: one computation per (facts, atoms)
    try:
        pk = (frozenset((r, f.key()) for r, f in facts), frozenset(atoms))
    except Exception:
        pk = None
    if pk is not None and pk in _PREP_CACHE:
        facts = list(_PREP_CACHE[pk])
    else:
        exp0 = EXPIRED[0]
        facts = _strengthen(facts, atoms)
        if pk is not None and EXPIRED[0] == exp0 and len(_PREP_CACHE) < 50000:
            _PREP_CACHE[pk] = tuple(facts)   # (only a result no deadline cut short)
    return _prove2(rel, p, facts, budget, pk)


_PREP_CACHE = {}


def _strengthen(facts, atoms):
    base_facts = facts
    facts = facts + axioms_for(atoms) + and1_identities(atoms)
    # q != 0 together with q >= 0 (resp. q <= 0) is q >= 1 (resp. q <= -1) over the integers
    # (iterated to a fixpoint, in a canonical order, so that `len != 0` and `len - 1 != 0` give `len >= 2` whatever order the facts arrive in)
    nes = sorted([f for r2, f in facts if r2 == "!=" and f.t and not f.is_const()], key=repr)
    done_ne = set()
    for _round in range(3):
        progress = False
        for f in nes:
            if repr(f) in done_ne:
                continue
            if prove_ge0(f, facts, 2, None, _Budget(120)):
                facts.append((">=", f - Poly.const(1)))
                done_ne.add(repr(f))
                progress = True
            elif prove_ge0(-f, facts, 2, None, _Budget(120)):
                facts.append((">=", -f - Poly.const(1)))
                done_ne.add(repr(f))
                progress = True
        if not progress:
            break
    # lower bounds of min atoms: min(x, y) >= z whenever x >= z and y >= z (z ranges over the positive monomials of x, y)
    for a in atoms:
        if isinstance(a, tuple) and a and a[0] == "min":
            cands = []
            for q in a[1:]:
                for m, v in q.t.items():
                    if v > 0 and m:
                        z = Poly({m: 1})
                        if z not in cands:
                            cands.append(z)
            for z in cands:
                if all(prove_ge0(x - z, base_facts, 2, None, _Budget(80)) for x in a[1:]):
                    facts.append((">=", Poly.atom(a) - z))
    return facts


_NNE_CACHE = {}


def _nonneg_ne(facts, pk, budget):
    """The disequality facts q != 0 (both signs) whose q is provably >= 0 from `facts` - independent of the goal: once per hypothesis set."""
    ck = (pk, budget) if pk is not None else None
    if ck is not None and ck in _NNE_CACHE:
        return _NNE_CACHE[ck]
    exp0 = EXPIRED[0]
    out = []
    for r2, f in facts:
        if r2 == "!=":
            for q in (f, -f):
                if prove_ge0(q, facts, _budget=_Budget(budget)):
                    out.append(q)
    if ck is not None and EXPIRED[0] == exp0 and len(_NNE_CACHE) < 50000:
        _NNE_CACHE[ck] = out
    return out


def _prove2(rel, p, facts, budget, pk=None):
    if rel == ">=":
        if prove_ge0(p, facts, _budget=_Budget(budget)):
            return True
        # q >= 0 and q != 0 give q - 1 >= 0: try each disequality fact q != 0 with p = (+-q) - 1 + (something >= 0)
        for q in _nonneg_ne(facts, pk, min(budget, 200)):
            if prove_ge0(p - q + Poly.const(1), facts, _budget=_Budget(min(budget, 300))):
                return True
        # integer rounding: 2p + 1 >= 0 implies p >= 0 over the integers
        return prove_ge0(p * Poly.const(2) + Poly.const(1), facts, 4, None, _Budget(budget))
    if rel == "==":
        if not p.t:
            return True
        return prove_ge0(p, facts, _budget=_Budget(budget)) and prove_ge0(-p, facts, _budget=_Budget(budget))
    if rel == "!=":
        if p.is_const():
            return p.const_value() != 0
        for r2, f in facts:
            if r2 == "!=" and (f == p or f == -p):
                return True
        return prove_ge0(p - 1, facts, _budget=_Budget(budget)) or prove_ge0(-p - 1, facts, _budget=_Budget(budget))
    raise ValueError(rel)


def refute(goal, facts):
    """True if the negation of goal is provable."""
    rel, p = goal
    if rel == ">=":
        return prove((">=", -p - 1), facts)
    if rel == "==":
        return prove(("!=", p), facts)
    if rel == "!=":
        return prove(("==", p), facts)
    return False
