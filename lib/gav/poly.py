"""Integer polynomials over opaque non-negative atoms + a small inequality prover.

Atoms are hashable tuples.  All atoms denote non-negative integers (lengths, sizes, indices,
usize values).  Arithmetic is over mathematical integers (usize wrap-around is excluded by
assumption, stated in the evidence).
"""

from fractions import Fraction


def _mkey(a):
    return repr(a)


class Poly:
    __slots__ = ("t",)

    def __init__(self, t=None):
        self.t = {k: v for k, v in (t or {}).items() if v != 0}

    @staticmethod
    def const(n):
        return Poly({(): n})

    @staticmethod
    def atom(a):
        return Poly({(a,): 1})

    def __add__(self, o):
        o = as_poly(o)
        t = dict(self.t)
        for k, v in o.t.items():
            t[k] = t.get(k, 0) + v
        return Poly(t)

    def __neg__(self):
        return Poly({k: -v for k, v in self.t.items()})

    def __sub__(self, o):
        return self + (-as_poly(o))

    def __mul__(self, o):
        o = as_poly(o)
        t = {}
        for k1, v1 in self.t.items():
            for k2, v2 in o.t.items():
                k = tuple(sorted(k1 + k2, key=_mkey))
                t[k] = t.get(k, 0) + v1 * v2
        return Poly(t)

    def is_const(self):
        return all(k == () for k in self.t)

    def const_value(self):
        return self.t.get((), 0)

    def atoms(self):
        s = set()
        for k in self.t:
            s.update(k)
        return s

    def key(self):
        return tuple(sorted(((tuple(_mkey(a) for a in k), v) for k, v in self.t.items())))

    def __eq__(self, o):
        return isinstance(o, Poly) and self.t == o.t

    def __hash__(self):
        return hash(self.key())

    def subst(self, mapping):
        """mapping: atom -> Poly"""
        out = Poly.const(0)
        for k, v in self.t.items():
            term = Poly.const(v)
            for a in k:
                term = term * (mapping[a] if a in mapping else Poly.atom(a))
            out = out + term
        return out

    def __repr__(self):
        if not self.t:
            return "0"
        parts = []
        for k, v in sorted(self.t.items(), key=lambda kv: (len(kv[0]), repr(kv[0]))):
            m = "*".join(atom_s(a) for a in k)
            if not k:
                parts.append(str(v))
            elif v == 1:
                parts.append(m)
            elif v == -1:
                parts.append("-" + m)
            else:
                parts.append("%d*%s" % (v, m))
        return " + ".join(parts).replace("+ -", "- ")


def atom_s(a):
    if isinstance(a, tuple):
        if not a:
            return "()"
        if not isinstance(a[0], str):
            return "(" + ",".join(atom_s(x) if isinstance(x, tuple) else repr(x) for x in a) + ")"
        if a and a[0] in ("L", "C", "S"):
            return "%s(%s)" % (a[0], a[1])
        return "%s(%s)" % (a[0], ",".join(atom_s(x) if isinstance(x, tuple) else repr(x) if isinstance(x, Poly) else str(x) for x in a[1:]))
    return str(a)


def as_poly(x):
    if isinstance(x, Poly):
        return x
    if isinstance(x, int):
        return Poly.const(x)
    raise TypeError(x)


# ---------------------------------------------------------------------------------------------
# Facts and prover.  A fact is (rel, Poly) meaning  Poly rel 0  with rel in {">=", "==", "!="}.
# (a < b  is  b - a - 1 >= 0;  a <= b is b - a >= 0.)


def fact_cmp(op, a, b):
    """Return the fact for `a op b` (op in Eq Ne Lt Le Gt Ge) as (rel, poly)."""
    if op == "Eq":
        return ("==", a - b)
    if op == "Ne":
        return ("!=", a - b)
    if op == "Lt":
        return (">=", b - a - 1)
    if op == "Le":
        return (">=", b - a)
    if op == "Gt":
        return (">=", a - b - 1)
    if op == "Ge":
        return (">=", a - b)
    raise ValueError(op)


NEG = {"Eq": "Ne", "Ne": "Eq", "Lt": "Ge", "Ge": "Lt", "Le": "Gt", "Gt": "Le"}


def norm_fact(f):
    rel, p = f
    if rel in ("==", "!="):
        # canonical sign: first nonzero coefficient positive
        items = sorted(p.t.items(), key=lambda kv: repr(kv[0]))
        if items and items[0][1] < 0:
            p = -p
    return (rel, p)


def axioms_for(atoms):
    """Facts that hold by the meaning of interpreted atoms (all as >= facts)."""
    out = []
    for a in atoms:
        if not isinstance(a, tuple):
            continue
        if a[0] == "min":
            x, y = a[1], a[2]
            out.append((">=", x - Poly.atom(a)))
            out.append((">=", y - Poly.atom(a)))
        elif a[0] == "div":  # floor(x / y), y > 0 at the use site (checked by the rule)
            x, y = a[1], a[2]
            q = Poly.atom(a)
            out.append((">=", x - q * y))  # q*y <= x
            out.append((">=", q * y + y - x - 1))  # x < q*y + y
        elif a[0] == "shr1":  # x >> 1
            x = a[1]
            h = Poly.atom(a)
            out.append((">=", x - h * Poly.const(2)))  # 2h <= x
            out.append((">=", h * Poly.const(2) + 1 - x))  # x <= 2h+1
        elif a[0] == "and1":  # x & 1  (with shr1(x): x = 2*shr1 + and1)
            b = Poly.atom(a)
            out.append((">=", Poly.const(1) - b))
    return out


def and1_identities(atoms):
    """x = 2*(x>>1) + (x&1) whenever both atoms occur."""
    out = []
    for a in atoms:
        if isinstance(a, tuple) and a[0] == "and1":
            x = a[1]
            out.append(("==", x - Poly.atom(("shr1", x)) * Poly.const(2) - Poly.atom(a)))
    return out


def _nonneg_syntactic(p):
    return all(v >= 0 for v in p.t.values())


def prove_ge0(p, facts, depth=3, _seen=None):
    """Try to prove p >= 0 given facts (list of (rel, Poly)); atoms are >= 0."""
    if _nonneg_syntactic(p):
        return True
    if depth == 0:
        return False
    _seen = _seen or set()
    k = p.key()
    if k in _seen:
        return False
    _seen = _seen | {k}
    cands = []
    for rel, f in facts:
        if rel == ">=":
            cands.append(f)
        elif rel == "==":
            cands.append(f)
            cands.append(-f)
    # p - c*f >= 0 with f >= 0  =>  p >= 0 ; c may be a constant or a single atom
    for f in cands:
        if not f.t:
            continue
        for c in (1, 2):
            q = p - f * Poly.const(c)
            if len(q.t) <= len(p.t) + 1 and prove_ge0(q, facts, depth - 1, _seen):
                return True
        # multiply by an atom occurring in p (for products like q*N)
        for a in p.atoms():
            q = p - f * Poly.atom(a)
            if len(q.t) < len(p.t) + 1 and prove_ge0(q, facts, depth - 1, _seen):
                return True
    return False


def prove(goal, facts):
    """goal: (rel, Poly) with rel in >= == !=.  Sound, incomplete."""
    rel, p = goal
    facts = list(facts)
    atoms = set(p.atoms())
    for _, f in facts:
        atoms |= f.atoms()
    # atoms nested inside interpreted atoms
    more = set()
    for a in atoms:
        if isinstance(a, tuple) and a[0] in ("min", "div", "shr1", "and1"):
            for x in a[1:]:
                if isinstance(x, Poly):
                    more |= x.atoms()
    atoms |= more
    facts = facts + axioms_for(atoms) + and1_identities(atoms)
    if rel == ">=":
        return prove_ge0(p, facts)
    if rel == "==":
        if not p.t:
            return True
        return prove_ge0(p, facts) and prove_ge0(-p, facts)
    if rel == "!=":
        if p.is_const():
            return p.const_value() != 0
        for r2, f in facts:
            if r2 == "!=" and (f == p or f == -p):
                return True
        return prove_ge0(p - 1, facts) or prove_ge0(-p - 1, facts)
    raise ValueError(rel)


def refute(goal, facts):
    """True if the negation of goal is provable."""
    rel, p = goal
    if rel == ">=":
        return prove((">=", -p - 1), facts)
    if rel == "==":
        return prove(("!=", p), facts)
    if rel == "!=":
        return prove(("==", p), facts)
    return False
