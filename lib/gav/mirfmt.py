"""Pretty-printer for the exported MIR (debugging aid and evidence samples)."""

def ty_s(t):
    if t is None:
        return "?"
    k = t.get("k")
    if k == "prim":
        return t["n"]
    if k == "param":
        return t["n"]
    if k == "cparam":
        return t["n"]
    if k == "adt":
        a = ", ".join(ty_s(x) for x in t["args"])
        return t["def"].split("::")[-1] + ("<" + a + ">" if a else "")
    if k == "alias":
        a = t["args"]
        nm = t["def"].split("::")
        return "<" + ty_s(a[0]) + " as " + nm[-2] + ("<" + ", ".join(ty_s(x) for x in a[1:]) + ">" if len(a) > 1 else "") + ">::" + nm[-1] if a else t["def"]
    if k == "ref":
        return "&" + ("mut " if t["mut"] else "") + ty_s(t["t"])
    if k == "ptr":
        return "*" + ("mut " if t["mut"] else "const ") + ty_s(t["t"])
    if k == "slice":
        return "[" + ty_s(t["t"]) + "]"
    if k == "array":
        return "[" + ty_s(t["t"]) + "; " + ty_s(t["n"]) + "]"
    if k == "tuple":
        return "(" + ", ".join(ty_s(x) for x in t["ts"]) + ")"
    if k == "fndef":
        return "fn " + t["def"]
    if k == "closure":
        return "closure " + t["def"]
    if k == "region":
        return t["s"]
    if k == "int":
        return str(t["v"])
    if k == "uneval":
        return t["def"] + "<" + ", ".join(ty_s(x) for x in t["args"]) + ">"
    return t.get("s", str(t))


def place_s(p):
    s = "_%d" % p["l"]
    for e in p["p"]:
        if e == "*":
            s = "(*" + s + ")"
        elif "f" in e:
            s = s + "." + str(e["f"])
        elif "idx" in e:
            s = s + "[_%d]" % e["idx"]
        elif "down" in e:
            s = "(" + s + " as " + e["name"] + ")"
        else:
            s = s + str(e)
    return s


def op_s(o):
    k = o["k"]
    if k in ("copy", "move"):
        return k + " " + place_s(o["p"])
    if k == "const":
        c = o["c"]
        if c.get("k") == "int":
            return "const %d" % c["v"]
        if c.get("k") == "uneval":
            return "const " + ty_s(c)
        if c.get("k") == "fn":
            return "fn " + c["def"]
        return "const " + o.get("s", "?")
    return str(o)


def rv_s(r):
    k = r["k"]
    if k == "use":
        return op_s(r["op"])
    if k == "ref":
        return "&" + ("mut " if r["mut"] else "") + place_s(r["p"])
    if k == "rawptr":
        return "&raw " + ("mut " if r["mut"] else "const ") + place_s(r["p"])
    if k == "cast":
        return op_s(r["op"]) + " as " + ty_s(r["ty"]) + " (" + r["ck"] + ")"
    if k == "bin":
        return r["op"] + "(" + op_s(r["a"]) + ", " + op_s(r["b"]) + ")"
    if k == "un":
        return r["op"] + "(" + op_s(r["a"]) + ")"
    if k == "discr":
        return "discriminant(" + place_s(r["p"]) + ")"
    if k == "agg":
        x = r["x"]
        nm = r["ak"]
        if nm == "Adt":
            nm = x["def"].split("::")[-1] + "#%d" % x["variant"]
        elif nm == "Closure":
            nm = "closure " + x
        return nm + "[" + ", ".join(op_s(o) for o in r["ops"]) + "]"
    if k == "repeat":
        return "[" + op_s(r["op"]) + "; " + ty_s(r["n"]) + "]"
    return r.get("s", str(r))


def callee_s(f):
    if f["k"] != "fn":
        return "indirect " + op_s(f["op"])
    s = f["def"] + "<" + ", ".join(ty_s(a) for a in f["args"]) + ">"
    if "res" in f and f["res"] != f["def"]:
        s += "  [=> " + f["res"] + "]"
    return s


def unwind_s(u):
    if isinstance(u, dict):
        return "cleanup bb%d" % u["cleanup"]
    return u


def term_s(t):
    k = t["k"]
    if k == "goto":
        return "goto bb%d" % t["target"]
    if k == "switch":
        return "switchInt(" + op_s(t["discr"]) + ") " + ", ".join("%d:bb%d" % (v, b) for v, b in t["targets"]) + ", otherwise bb%d" % t["otherwise"]
    if k == "call":
        tg = "bb%d" % t["target"] if t["target"] is not None else "!"
        return place_s(t["dest"]) + " = " + callee_s(t["f"]) + "(" + ", ".join(op_s(a) for a in t["args"]) + ") -> [" + tg + ", unwind " + unwind_s(t["unwind"]) + "]"
    if k == "drop":
        return "drop(" + place_s(t["p"]) + ": " + t["tys"] + ") -> [bb%d, unwind %s]" % (t["target"], unwind_s(t["unwind"]))
    if k == "assert":
        return "assert(" + ("" if t["expected"] else "!") + op_s(t["cond"]) + ", " + t["msg"] + ") -> [bb%d, unwind %s]" % (t["target"], unwind_s(t["unwind"]))
    if k == "termother":
        return t["s"]
    return k


def body_s(b):
    out = []
    m = b["mir"]
    out.append("// %s  [%s] %s" % (b["path"], b["kind"], b["at"]))
    for i, l in enumerate(m["locals"]):
        tag = "ret" if i == 0 else ("arg" if i <= m["arg_count"] else "   ")
        out.append("  let _%d: %s;  // %s" % (i, l["s"], tag))
    for d in m["debug"]:
        if "l" in d["v"]:
            out.append("  debug %s => %s" % (d["name"], place_s(d["v"])))
    for i, blk in enumerate(m["blocks"]):
        out.append("  bb%d%s:" % (i, " (cleanup)" if blk["cleanup"] else ""))
        for s in blk["stmts"]:
            if s["k"] == "assign":
                out.append("    %s = %s;%s" % (place_s(s["lhs"]), rv_s(s["rv"]), "  // exp" if s.get("exp") else ""))
            else:
                out.append("    " + s.get("s", s["k"]))
        out.append("    " + term_s(blk["term"]))
    return "\n".join(out)


if __name__ == "__main__":
    import json, sys
    d = json.load(open(sys.argv[1]))
    pat = sys.argv[2] if len(sys.argv) > 2 else ""
    for b in d["bodies"]:
        if pat in b["path"]:
            print(body_s(b))
            print()
