"""C05 - a panicking element destructor never causes a second drop or a stale read."""

from ..core import PROVED, REFUTED, UNKNOWN, MISSING
from ..poly import Poly, prove
from ..ownership import owner_adts
from ..models import verify_models
from ..rules import vstr, fstr
from ..tys import pointee, tstr
from ..typestate import has_generic, Classifier

EXPLANATION = (
    "Range-owner typestate on the MIR (configs F0+F1). The tracked owners are the crate's types whose Drop impl releases a range of a storage "
    "described by their own fields (derived, rule C05.R: ArrayBuilder / IntrusiveArrayBuilder release [0, position), ArrayConsumer [position, N), "
    "GenericArrayIter [index, index_back); the storage field itself has no drop glue). Rule C05.X (exclude before destroy): in every `&mut self` method of "
    "such a type (C05.Y: and at every call that can unwind after an element was read out of the storage, that slot must already be excluded from the claimed range), at each drop_in_place(range) call - the only place an element destructor runs while the owner stays alive - the fields stored so far must "
    "make the owner's claimed range provably disjoint from the range being destroyed, so that if a destructor unwinds the owner's own Drop cannot release those "
    "elements again. In Drop::drop itself and in by-value methods the owner cannot be dropped again (checked: the storage field has no drop glue, and the by-value "
    "methods only call &mut self primitives). A sweep reports any other drop_in_place / generic drop reached while a duplicated element is unaccounted (shared with C04).")


def owner_range(a, db, adt_path, info, mem, base):
    """(lo, hi) element range the owner's Drop releases, evaluated on the field values stored in `mem`."""
    adt = db.adts[adt_path]
    names = info["names"]

    def fld(name):
        i = names.index(name)
        v = mem.get((base, (i,)))
        if v is None:
            whole = mem.get((base, ()))
            if whole is not None and whole[0] == "A":
                v = whole[2][i]
        if v is None:
            ep = mem.get((base, ("__epoch__",)))
            key = ((base, (i,)), ep) if ep is not None else (base, (i,))
            return Poly.atom(("cell@" if ep is not None else "cell", key))
        return v[1] if v[0] == "I" else None
    return fld


DROP_SPEC = {
    # adt tail -> (lo expr, hi expr) over field accessor f and N
    "ArrayBuilder": lambda f, N: (Poly.const(0), f("position")),
    "IntrusiveArrayBuilder": lambda f, N: (Poly.const(0), f("position")),
    "ArrayConsumer": lambda f, N: (f("position"), N),
    "GenericArrayIter": lambda f, N: (f("index"), f("index_back")),
}


def storage_base(adt_tail, info):
    if info["array_is_ref"]:
        return ("obj", ("cell", (("arg", 1), (info["array"],))))
    return ("field", ("arg", 1), (info["array"],))


def check_drop_ranges(ctx, cfg):
    """C05.R / C03.R: each Drop impl releases exactly the spec range of its own storage."""
    rule = "C05.R"
    db = ctx.db(cfg)
    owners = owner_adts(db)
    n = 0
    for path, info in owners.items():
        tail = path.split("::")[-1]
        key = "<%s<$0,$1> as core::ops::Drop>::drop" % tail
        if db.get(key) is None:
            # an owner type with another number of type parameters: take its Drop impl as it is named in this build
            alt = [b_["key"] for b_ in db.bodies if b_["key"].startswith("<%s<" % tail) and b_["key"].endswith(" as core::ops::Drop>::drop")]
            if len(alt) == 1:
                key = alt[0]
        b = ctx.body(cfg, key, rule)
        if b is None:
            continue
        if tail not in DROP_SPEC:
            # a type that owns element storage and releases a cursor-described range of it in Drop, which none of the range specifications
            # covers: what it releases, and whether its methods exclude before they destroy, is not judged - reported, not passed over
            ctx.ob(rule, key, UNKNOWN, "owner type %s (a Drop impl that releases a range of element storage described by its own cursor fields) has no range specification: its ownership discipline is not decided" % tail, at=b["at"], cfg=cfg)
            continue
        a = ctx.analysis_inl(cfg, key)
        dips = a.calls_to("core::ptr::drop_in_place")
        N = a.tenv.length({"k": "param", "n": b["generics"][-1]["n"]})
        T = {"k": "param", "n": [g for g in b["generics"] if g["kind"] == "type"][0]["n"]}
        S = a.tenv.size(T)
        ok = len(dips) == 1 and len([c for c in a.calls if Classifier(db).classify(c, b) == "foreign"]) == 1
        det = "expected exactly one drop_in_place and no other foreign call"
        if ok:
            c = dips[0]
            p = c.args[0]
            # the range the owner claims is the one its fields describe when drop() is ENTERED (a Drop impl may move its cursors before it
            # destroys - "shrink first" - which changes nothing about what it owes)
            fld = owner_range(a, db, path, info, a.entry_state().mem, ("arg", 1))
            lo, hi = DROP_SPEC[tail](fld, N)
            sb = storage_base(tail, info)
            ok = p[0] == "P" and p[1] == sb and p[3] is not None and prove(("==", p[2] - lo * S), a.poly_facts(c.facts)) and prove(("==", p[3] - (hi - lo)), a.poly_facts(c.facts))
            det = "drop_in_place(%s); spec: elements [%r, %r) of the owner's own storage" % (vstr(p), lo, hi)
        # storage field has no drop glue of its own
        sf = db.adts[path]["fields"][info["array"]]["s"]
        glue_free = sf.startswith("core::mem::ManuallyDrop<") or sf.startswith("&") or "GenericArray<core::mem::MaybeUninit<" in sf
        ctx.ob(rule, key, ok and glue_free, det + "; storage field type `%s` has no drop glue: %s" % (sf, glue_free), at=b["at"], cfg=cfg)
        ctx.sample({"rule": rule, "fn": key, "cfg": cfg, "detail": det})
        n += 1
    return n


def check_exclude_before_destroy(ctx, cfg):
    rule = "C05.X"
    db = ctx.db(cfg)
    owners = owner_adts(db)
    n = 0
    # private helpers are judged inside the exported methods that call them (analysis_inl); one that no caller expanded is judged on its own
    expanded = set()
    todo = []
    for b in db.bodies:
        if b["kind"] != "AssocFn" or "impl_self" not in b:
            continue
        st = b["impl_self"]
        if st.get("k") != "adt" or st["def"] not in owners:
            continue
        if b.get("impl_trait") == "core::ops::Drop":
            continue
        todo.append(b)
    exported = [b for b in todo if (b.get("vis") or {}).get("exported", True)]
    private = [b for b in todo if not (b.get("vis") or {}).get("exported", True)]
    for b in exported:
        a = ctx.analysis_inl(cfg, b["key"])
        expanded |= {x["callee"] for x in a.body.get("inlined", [])}
    # a private helper also called from Drop::drop is covered there by C05.R
    for path in owners:
        kd = "<%s<$0,$1> as core::ops::Drop>::drop" % path.split("::")[-1]
        if db.get(kd) is not None:
            expanded |= {x["callee"] for x in ctx.analysis_inl(cfg, kd).body.get("inlined", [])}
    called = set()
    for b2 in db.bodies:
        for blk in b2["mir"]["blocks"]:
            t = blk["term"]
            if t["k"] == "call" and t["f"].get("k") == "fn":
                for pth in (t["f"].get("res"), t["f"].get("def")):
                    cb = db.by_path.get(pth) if pth else None
                    if cb is not None:
                        called.add(cb["key"])
    for b in exported + [p_ for p_ in private if p_["key"] not in expanded and p_["key"] in called]:
        st = b["impl_self"]
        info = owners[st["def"]]
        tail = st["def"].split("::")[-1]
        sig = b.get("sig")
        if not sig or not sig["inputs"]:
            continue
        first = sig["inputs"][0]
        by_ref_mut = first.get("k") == "ref" and first["mut"] and tstr(first["t"]) == tstr(st)
        by_value = tstr(first) == tstr(st)
        a = ctx.analysis_inl(cfg, b["key"])
        dips = a.calls_to("core::ptr::drop_in_place")
        if by_ref_mut:
            N = a.tenv.length({"k": "param", "n": b["generics"][len([g for g in b["generics"]]) - 1]["n"]}) if False else a.tenv.length([x for x in st["args"] if x.get("k") != "region"][-1])
            T = [x for x in st["args"] if x.get("k") != "region"][0]
            S = a.tenv.size(T)
            for i, c in enumerate(dips):
                p = c.args[0]
                fld = owner_range(a, db, st["def"], info, c.mem, ("arg", 1))
                lo, hi = DROP_SPEC[tail](fld, N)
                sb = storage_base(tail, info)
                ok = False
                det = ""
                if p[0] == "P" and p[1] == sb and p[3] is not None and lo is not None and hi is not None:
                    pf = a.poly_facts(c.facts)
                    d_lo, d_hi = p[2], p[2] + p[3] * S  # destroyed bytes
                    before = prove((">=", lo * S - d_hi), pf)   # destroyed range ends at or before the claimed range starts
                    after = prove((">=", d_lo - hi * S), pf)    # destroyed range starts at or after the claimed range ends
                    ok = before or after
                    det = "drop_in_place of bytes [%r, %r) while the owner still claims elements [%r, %r): disjoint=%s" % (d_lo, d_hi, lo, hi, ok)
                    if not ok:
                        det = "a destructor that unwinds here leaves the range claimed by the owner, whose Drop would release it again; " + det
                else:
                    det = "drop_in_place target %s is not a range of the owner's storage" % vstr(p)
                ctx.ob(rule, "%s#drop_in_place#%d" % (b["key"], i), ok, det, at=c.at, cfg=cfg)
                ctx.sample({"rule": rule, "fn": b["key"], "cfg": cfg, "detail": det})
                n += 1
        elif by_value and dips:
            # a by-value method: `self` is a local, and while the unwind path of the destroying call still drops it, the owner's Drop runs after
            # a destructor that unwinds - the same exclude-before-destroy obligation, read off the local's fields
            from ..ownership import unwind_drops
            from ..absint import State as _St
            N = a.tenv.length([x for x in st["args"] if x.get("k") != "region"][-1])
            T = [x for x in st["args"] if x.get("k") != "region"][0]
            S = a.tenv.size(T)
            for i, c in enumerate(dips):
                dropped, _hu = unwind_drops(a, c)
                if 1 not in dropped:
                    ctx.ob(rule, "%s#drop_in_place#%d" % (b["key"], i), PROVED, "by-value method: `self` is not dropped on the unwind path of this drop_in_place (already disarmed)", at=c.at, cfg=cfg)
                    n += 1
                    continue
                stt = _St(c.mem, c.facts)

                def fld(name, stt=stt):
                    v = a.read_cell(stt, ("local", 1), (info["names"].index(name),), {"k": "prim", "n": "usize"})
                    return v[1] if v is not None and v[0] == "I" else None
                lo, hi = DROP_SPEC[tail](fld, N) if tail in DROP_SPEC else (None, None)
                arrv = a.read_cell(stt, ("local", 1), (info["array"],), None) if info["array_is_ref"] else None
                if arrv is not None and arrv[0] == "P" and not arrv[2].t:
                    sb = arrv[1]
                elif arrv is not None and arrv[0] == "V" and len(arrv) == 3:
                    sb = ("obj", arrv[1:])   # the pointee of a reference held as an opaque value
                else:
                    sb = ("field", ("local", 1), (info["array"],))
                p = c.args[0]
                ok = False
                if p[0] == "P" and p[1] == sb and p[3] is not None and lo is not None and hi is not None:
                    pf = a.poly_facts(c.facts)
                    d_lo, d_hi = p[2], p[2] + p[3] * S
                    ok = prove((">=", lo * S - d_hi), pf) or prove((">=", d_lo - hi * S), pf)
                    det = "by-value method, `self` still dropped if this call unwinds: drop_in_place of bytes [%r, %r) while the owner claims elements [%r, %r): disjoint=%s" % (d_lo, d_hi, lo, hi, ok)
                    if not ok:
                        det = "a destructor that unwinds here leaves the range claimed by `self`, whose Drop would release it again; " + det
                else:
                    det = "by-value method, `self` still dropped if this call unwinds: drop_in_place target %s is not a range of the owner's storage / the owner has no range specification" % vstr(p)
                ctx.ob(rule, "%s#drop_in_place#%d" % (b["key"], i), ok, det, at=c.at, cfg=cfg)
                n += 1
    return n


def check_duplicate_window(ctx, cfg, rule="C05.Y"):
    """An element read out of a tracked owner's storage (a bitwise duplicate) must already be excluded from the owner's claimed range at every
    later call that can unwind while the owner is live - otherwise the unwinding drop of the duplicate and the owner's Drop release it twice.
    Applies to every method of a tracked owner, with a `&mut self` receiver (the owner outlives the call) or a by-value one (the owner is a
    local that the unwind path drops); private helpers are judged expanded in their callers; element-moving closures are C04.P's subject."""
    from ..ownership import unwind_drops
    db = ctx.db(cfg)
    owners = owner_adts(db)
    cl_ = Classifier(db)
    n = 0
    for b in db.bodies:
        if b["kind"] != "AssocFn" or "impl_self" not in b or b.get("impl_trait") == "core::ops::Drop":
            continue
        st = b["impl_self"]
        if st.get("k") != "adt" or st["def"] not in owners or not (b.get("vis") or {}).get("exported", True):
            continue
        sig = b.get("sig")
        if not sig or not sig["inputs"]:
            continue
        first = sig["inputs"][0]
        by_ref_mut = first.get("k") == "ref" and first["mut"] and tstr(first["t"]) == tstr(st)
        by_value = tstr(first) == tstr(st)
        if not (by_ref_mut or by_value):
            continue
        info = owners[st["def"]]
        tail = st["def"].split("::")[-1]
        if tail not in DROP_SPEC:
            continue
        root = ("arg", 1) if by_ref_mut else ("local", 1)
        sb = ("field", root, (info["array"],)) if not info["array_is_ref"] else None
        if sb is None:
            continue
        a_y = ctx.analysis_inl(cfg, b["key"], split=True)  # tree-shaped where loop-free: "read before" is dominance on each path
        N = a_y.tenv.length([x for x in st["args"] if x.get("k") != "region"][-1])
        S = a_y.tenv.size([x for x in st["args"] if x.get("k") != "region"][0])
        reads = [c for c in a_y.calls if c.fn in ("core::ptr::read", "core::ptr::read_unaligned") and c.args[0][0] == "P" and c.args[0][1] == sb]
        if not reads:
            continue
        foreign = [c for c in a_y.calls if cl_.classify(c, b) == "foreign" and not getattr(c, "no_effects", False)]
        verdicts = {}
        for r_ in reads:
            off = r_.args[0][2]
            bad = []
            for f_ in foreign:
                if f_ is r_ or not (a_y.dominates(r_.bb, f_.bb) and f_.bb != r_.bb):
                    continue
                if by_value:
                    dropped, _ = unwind_drops(a_y, f_)
                    if 1 not in dropped:
                        continue  # the owner is not released on this call's unwind path (already forgotten / moved)
                fld = owner_range(a_y, db, st["def"], info, f_.mem, root)
                lo, hi = DROP_SPEC[tail](fld, N)
                if lo is None or hi is None:
                    bad.append("%s (claimed range unknown)" % f_.fn.split("::")[-1])
                    continue
                pf = a_y.poly_facts(f_.facts)
                out_ = prove((">=", lo * S - off - S), pf) or prove((">=", off - hi * S), pf)
                if not out_:
                    bad.append("%s with the owner still claiming [%r, %r)" % (f_.fn.split("::")[-1], lo, hi))
            site = (r_.at, a_y.blocks[r_.bb].get("split_of", r_.bb))
            prev = verdicts.get(site, (True, [], off, r_.at))
            verdicts[site] = (prev[0] and not bad, prev[1] + bad, off, r_.at)
        for j, (site, (ok_, bad, off, at_)) in enumerate(sorted(verdicts.items(), key=lambda kv: repr(kv[0]))):
            ctx.ob(rule, "%s#read#%d" % (b["key"], j), ok_,
                   ("the element read out at byte %r is excluded from the owner's claimed range before every later call that can unwind" % (off,)) if ok_ else
                   ("the element read out at byte %r is still claimed by the owner when a later call can unwind (dropped twice on unwind): %s" % (off, "; ".join(sorted(set(bad))))), at=at_, cfg=cfg)
            n += 1
    return n


BY_VALUE = ["<GenericArrayIter<$0,$1> as core::iter::Iterator>::count", "<GenericArrayIter<$0,$1> as core::iter::Iterator>::last"]


def check_by_value(ctx, cfg):
    """count / last take self by value: they only call &mut-self primitives and then let `self` drop once."""
    rule = "C05.V"
    db = ctx.db(cfg)
    for key in BY_VALUE:
        b = db.get(key)
        if b is None:
            ctx.ob(rule, key, PROVED, "no override: core's default is safe code over next()", cfg=cfg)
            continue
        a = ctx.analysis(cfg, key)
        names = [c.key or c.fn for c in a.calls]
        raw = [c.fn for c in a.calls if c.fn.startswith("core::ptr::") or c.fn.startswith("core::mem::forget") or c.fn.startswith("core::mem::ManuallyDrop")]
        drops_self = [d for d in a.drops if d["place"]["l"] == 1 and not d["place"]["p"] and not d["cleanup"]]
        # an explicit `drop(self)` is the same single drop, performed by core::mem::drop::<GenericArrayIter<..>> on the moved value
        moved = [c for c in a.calls if c.fn == "core::mem::drop" and c.targs and c.targs[0].get("def", "").split("::")[-1] == "GenericArrayIter"]
        once = len(drops_self) + len(moved) == 1
        allowed = ("<GenericArrayIter<$0,$1> as core::iter::ExactSizeIterator>::len", "<GenericArrayIter<$0,$1> as core::iter::DoubleEndedIterator>::next_back")
        ok = not raw and once and all(k in allowed or c in moved for k, c in zip(names, a.calls))
        det = "calls %s; raw operations: %s; self dropped exactly once on the normal path: %s" % (names, raw, once)
        if not ok:
            # written out instead of delegating: judged per return path of the tree-shaped body (helpers expanded, iterator invariant assumed at
            # entry) - the entry range is exactly partitioned into slots moved out to the caller, ranges destroyed in place and the range `self`
            # still claims, and `self` is dropped exactly once, after the last raw operation (the exclusion precedes the destruction)
            from . import c06
            itx = c06.It(db)
            at = ctx.analysis_inl(cfg, key, itx.inv_facts(True), split=True, tag="inv1")
            if at is not None and not c06.has_cycle(at) and at.returns:
                okp, n_p, dets = True, 0, []
                for r in at.returns:
                    ps = c06.acyclic_paths(at, r["bb"])
                    if ps is None:
                        okp = False
                        continue
                    for pth in ps:
                        n_p += 1
                        st_, det_ = c06.ownership_path(at, itx, "", pth, r, byval=True, forgotten=False)
                        ds = [d for d in at.drops if d["bb"] in pth and d["place"]["l"] == 1 and not d["place"]["p"] and not d["cleanup"]]
                        mv = [c for c in at.calls if c.bb in pth and c.fn == "core::mem::drop" and c.targs and c.targs[0].get("def", "").split("::")[-1] == "GenericArrayIter"]
                        rawc = [c for c in at.calls if c.bb in pth and c.fn in ("core::ptr::read", "core::ptr::drop_in_place")]
                        last_raw = max([pth.index(c.bb) for c in rawc], default=-1)
                        one_drop = len(ds) + len(mv) == 1 and all(pth.index(x["bb"]) >= last_raw for x in ds) and all(pth.index(c.bb) >= last_raw for c in mv)
                        if st_ != PROVED or not one_drop:
                            okp = False
                            dets.append("%s; self dropped once, last: %s" % (det_, one_drop))
                ok = okp and n_p > 0
                det = ("%d return path(s): on each the entry range is exactly partitioned into moved-out slots, destroyed ranges and what `self` still claims when it is dropped (once, last)" % n_p) if ok else "; ".join(sorted(set(dets)))[:900]
        ctx.ob(rule, key, ok, det, at=b["at"], cfg=cfg)


def check(ctx):
    ctx.explanation = EXPLANATION
    ctx.trusted = ["core: drop_in_place of a slice continues with the remaining elements after one destructor unwinds and never drops an element twice",
                   "rustc drop elaboration"]
    ctx.assumptions = ["elements that unwinding abandons may leak (allowed by the property)"]
    cfgs = ["F0", "F1", "F1N"] if ctx.tier == "quick" else ["F0", "F1", "F1N", "F2", "F0N", "F2N"]
    ctx.need(*cfgs)
    for cfg in cfgs:
        verify_models(ctx, cfg, ["<GenericArrayIter<$0,$1> as core::iter::ExactSizeIterator>::len", "GenericArrayIter<$0,$1>::as_slice", "GenericArrayIter<$0,$1>::as_mut_slice"])
        n = check_drop_ranges(ctx, cfg)
        ctx.floor("C05.R", "Drop impls of tracked owners (%s)" % cfg, n, 4)
        m = check_exclude_before_destroy(ctx, cfg)
        check_duplicate_window(ctx, cfg)
        # no site-count floor: nth / nth_back are optional overrides; the drop_in_place matcher is witnessed on this run by C05.R (one per mandatory Drop impl)
        ctx.extra.setdefault("C05.X sites", {})[cfg] = m
        check_by_value(ctx, cfg)
        # a foreign callable that is handed an element by value may drop it, and that destructor may panic: the unwind edge of every such call is a
        # point at which the owners' claimed ranges must already exclude what has been moved out (the clause "an intermediate value of any operation
        # is being torn down"); this is C04's per-call-site state rule, judged here under C05's name (S151)
        from . import c04
        c04.check_closures(ctx, cfg, rule_p="C05.P", rule_o="C05.O")
