"""C09 - lengthen / shorten / split / concat / remove equal the corresponding Vec operations."""

from ..core import PROVED, REFUTED, UNKNOWN, MISSING
from ..poly import Poly, prove
from ..rules import transfers, tiling, peq, in_bounds, vstr, fstr, lifetime_linkage, payload_calls, ub_hints
from ..tys import tstr, adt_args, is_ga, strip_wrappers, pointee

EXPLANATION = (
    "Symbolic byte-provenance analysis of the polymorphic MIR (N, K, M and the index symbolic; configs F0+F1). For each of the eight owned operations the body is fully expanded "
    "(crate-local callees inlined, loop-free code tree-shaped) and the raw operations of every return path - ptr::read / write / copy, transmute_copy, const_transmute, slice::swap, assume_init, "
    "repr(C) pairs - are replayed on segment lists with symbolic, provably ordered boundaries; the provenance of every result component is compared with the Vec-operation specification "
    "(which input bytes land where: nothing lost, duplicated or out of bounds), the by-value inputs must be moved (never dropped afterwards) and no foreign call may run - whatever unsafe idiom the body uses. "
    "remove/swap_remove reach the unchecked body only under idx < N with self still an ordinary owned value (C09.A), the unreachable_unchecked hints are infeasible under that precondition (C09.U), "
    "and the by-reference split halves are disjoint, adjacent and covering views of the same storage with no copy (C09.S). Result lengths are fixed by the types (Add1/Sub1/Diff/Sum) and checked by rustc.")

SEQ = "<GenericArray<$0,$1> as %s>::%s"
ARG1 = ("V", "arg", 1)
ARG2 = ("V", "arg", 2)


def _IDX_LT_N(an):
    return [("poly", ">=", selfN(an) - Poly.atom(("arg", 2)) - 1)]


def selfN(a):
    return a.tenv.length(adt_args(a.body["impl_self"])[1]) if is_ga(a.body["impl_self"]) else None


def provenance_rule(ctx, cfg, key, spec, pre=None, cases=None, rule="C09.M", elem_len=None):
    """Decide an owned sequence operation by byte provenance (segmap): on every return path, each component of the result is made of
    exactly the bytes of the inputs the Vec-operation specification names, the inputs are moved (never dropped afterwards) and no foreign code runs.
    spec(a, S, N) -> list over result components of [(size, origin arg, origin offset), ...]; cases: alternative extra fact lists that together
    cover the precondition (each case is decided separately with its own expected map)."""
    from ..segmap import Engine, same_map, path_calls
    from ..typestate import Classifier, may_run_drop_code
    b = ctx.body(cfg, key, rule)
    if b is None:
        return 0
    a = ctx.analysis_inl(cfg, key, split=True, force="*", keep=("const_transmute",), tag="prov")
    if elem_len is not None:
        T, N = elem_len(a)   # a method of another type (a builder): which of its parameters are the element type and the length
    else:
        T = adt_args(b["impl_self"])[0]
        N = selfN(a)
    S = a.tenv.size(T)
    cl = Classifier(ctx.db(cfg))
    problems, notes = [], []
    if not a.returns:
        problems.append("no return path")
    foreign = [c.fn for c in a.calls if cl.classify(c, a.body) == "foreign" and not getattr(c, "no_effects", False)]
    if foreign:
        problems.append("calls that can run foreign code inside a pure regrouping: %s" % sorted(set(foreign)))
    # the inputs are moved out bytewise: dropping one of them afterwards would drop the elements a second time
    dropped = [d["place"]["l"] for d in a.drops if not d["cleanup"] and not d["place"]["p"] and d["place"]["l"] in range(1, a.mir["arg_count"] + 1) and may_run_drop_code(d["ty"])]
    if dropped:
        problems.append("by-value input(s) _%s are dropped on the normal path although their elements were moved into the result" % sorted(set(dropped)))
    case_list = cases(a, S, N) if cases else [("", [], None)]
    decided = set()
    for r in a.returns:
        calls = path_calls(a, r)
        if calls is None:
            problems.append("return path not unique (loop or too many paths)")
            continue
        rty = a.local_ty(0)
        comps = list(zip(r["val"][2], rty["ts"])) if r["val"][0] == "A" and r["val"][1] == "tuple" and rty.get("k") == "tuple" else [(r["val"], rty)]
        for cname, cfacts, cspec in case_list:
            facts = set(r["facts"]) | set(pre(a, S, N) if pre else []) | set(cfacts)
            for c in calls:
                facts |= set(c.facts)
            if prove((">=", Poly.const(-1)), a.poly_facts(facts)):
                notes.append("path at bb%s infeasible under%s" % (r["site"][0] if "site" in r else "?", cname or " the precondition"))
                continue  # this return path is not taken in this case (its branch conditions contradict the case): nothing to show
            decided.add(cname)
            eng = Engine(a, facts)
            if not eng.replay(calls):
                problems.append("provenance not decided%s: %s" % (cname, eng.fail))
                continue
            want_all = (cspec or spec)(a, S, N)
            if len(want_all) != len(comps):
                problems.append("result has %d component(s), the specification %d" % (len(comps), len(want_all)))
                continue
            for i, ((v, ty), want) in enumerate(zip(comps, want_all)):
                pv = eng.prov(v, ty)
                if pv is None:
                    problems.append("provenance of result component %d%s unknown (%s)" % (i, cname, eng.fail or vstr(v)))
                elif not same_map(eng, pv[0], want):
                    problems.append("result component %d%s is made of %r; specification: %s" % (
                        i, cname, pv[0], "; ".join("%r bytes of arg%d+%r" % (sz, o[1], f) for sz, o, f in want)))
                else:
                    notes.append("component %d%s <- %r" % (i, cname, pv[0]))
    for cname, _f, _s in case_list:
        if cname not in decided and a.returns:
            problems.append("no feasible return path%s" % (cname or " under the precondition"))
    st = PROVED if not problems else (UNKNOWN if all(p.startswith("provenance not decided") or "unknown" in p for p in problems) else REFUTED)
    det = "; ".join(sorted(set(problems))) if problems else "every result byte comes from the input byte the specification names: " + " | ".join(sorted(set(notes)))
    ctx.ob(rule, key, st, det[:1400], at=b["at"], cfg=cfg)
    ctx.sample({"rule": rule, "fn": key, "cfg": cfg, "piece_map": det[:500]})
    return 1


A1, A2 = ("arg", 1), ("arg", 2)
Z = Poly.const(0)


def len_of_local(a, n):
    t = strip_wrappers(a.local_ty(n))
    return a.tenv.length(adt_args(t)[1]) if is_ga(t) else None


def check_owned_ops(ctx, cfg, rule="C09.M"):
    """The eight owned sequence operations against their Vec-operation specifications, by byte provenance."""
    n = 0
    K_of = lambda a: a.tenv.length({"k": "param", "n": a.body["generics"][2]["n"]})
    idx = Poly.atom(("arg", 2))
    n += provenance_rule(ctx, cfg, SEQ % ("Lengthen<$0>", "append"), lambda a, S, N: [[(N * S, A1, Z), (S, A2, Z)]], rule=rule)
    n += provenance_rule(ctx, cfg, SEQ % ("Lengthen<$0>", "prepend"), lambda a, S, N: [[(S, A2, Z), (N * S, A1, Z)]], rule=rule)
    n += provenance_rule(ctx, cfg, SEQ % ("Shorten<$0>", "pop_back"), lambda a, S, N: [[((N - 1) * S, A1, Z)], [(S, A1, (N - 1) * S)]],
                         pre=lambda a, S, N: [("poly", ">=", N - 1)], rule=rule)
    n += provenance_rule(ctx, cfg, SEQ % ("Shorten<$0>", "pop_front"), lambda a, S, N: [[(S, A1, Z)], [((N - 1) * S, A1, S)]],
                         pre=lambda a, S, N: [("poly", ">=", N - 1)], rule=rule)
    n += provenance_rule(ctx, cfg, SEQ % ("Split<$0,$2>", "split"), lambda a, S, N: [[(K_of(a) * S, A1, Z)], [((N - K_of(a)) * S, A1, K_of(a) * S)]],
                         pre=lambda a, S, N: [("poly", ">=", N - K_of(a))], rule=rule)
    n += provenance_rule(ctx, cfg, "<GenericArray<$0,$1> as Concat<$0,$2>>::concat", lambda a, S, N: [[(N * S, A1, Z), (len_of_local(a, 2) * S, A2, Z)]], rule=rule)
    # remove(idx): (self[idx], self[0,idx) ++ self[idx+1,N))      precondition idx < N (established by C09.A at the only callers)
    n += provenance_rule(ctx, cfg, "<GenericArray<$0,$1> as Remove<$0,$1>>::remove_unchecked",
                         lambda a, S, N: [[(S, A1, idx * S)], [(idx * S, A1, Z), ((N - 1 - idx) * S, A1, (idx + 1) * S)]],
                         pre=lambda a, S, N: [("poly", ">=", N - idx - 1)], rule=rule)
    # swap_remove(idx): (self[idx], self with slot idx taken by the last element, truncated)   - two cases of the precondition idx < N
    n += provenance_rule(ctx, cfg, "<GenericArray<$0,$1> as Remove<$0,$1>>::swap_remove_unchecked", None,
                         pre=lambda a, S, N: [("poly", ">=", N - idx - 1)],
                         cases=lambda a, S, N: [
                             (" (case idx < N-1)", [("poly", ">=", N - idx - 2)], lambda a, S, N: [[(S, A1, idx * S)], [(idx * S, A1, Z), (S, A1, (N - 1) * S), ((N - 2 - idx) * S, A1, (idx + 1) * S)]]),
                             (" (case idx == N-1)", [("poly", "==", N - idx - 1)], lambda a, S, N: [[(S, A1, idx * S)], [((N - 1) * S, A1, Z)]]),
                         ], rule=rule)
    return n


def check_unreachable_hints(ctx, cfg):
    n = 0
    for name in ("remove_unchecked", "swap_remove_unchecked"):
        key = "<GenericArray<$0,$1> as Remove<$0,$1>>::" + name
        b = ctx.db(cfg).get(key)
        if b is None:
            continue
        a = ctx.analysis(cfg, key)
        N = selfN(a)
        idx = Poly.atom(("arg", 2))
        pre = frozenset([("poly", ">=", N - idx - 1)])
        for i, (c, bad) in enumerate(ub_hints(a)):
            infeasible = bad is not None and prove((">=", Poly.const(-1)), a.poly_facts(bad | pre))
            ctx.ob("C09.U", "%s#unreachable#%d" % (key, i), infeasible, "hint violated under %s; infeasible given idx < N: %s" % (fstr(bad) if bad is not None else "?", infeasible), at=b["at"], cfg=cfg)
        n += 1
    return n


def check_lengthen(ctx, cfg, name, first_is_self):
    rule = "C09.M"
    key = SEQ % ("Lengthen<$0>", name)
    b = ctx.body(cfg, key, rule)
    if b is None:
        return 0
    a = ctx.analysis(cfg, key)
    tr = transfers(a)
    T = adt_args(b["impl_self"])[0]
    S = a.tenv.size(T)
    N = selfN(a)
    ws = tr["write"]
    bases = {repr(w["base"]) for w in ws}
    ok = len(ws) == 2 and len(bases) == 1 and ws[0]["base"][0] == "local"
    det = "writes: " + "; ".join("[%r,+%r) <- %s" % (w["off"], w["size"], vstr(w["val"])) for w in ws)
    if ok:
        total = a.base_extent(ws[0]["base"])
        st, tdet = tiling(a, [(w["off"], w["size"]) for w in ws], total, frozenset())
        by_val = {repr(w["val"]): w for w in ws}
        w_self, w_elem = by_val.get(repr(ARG1)), by_val.get(repr(ARG2))
        ok = st == PROVED and w_self is not None and w_elem is not None
        if ok:
            if first_is_self:  # append: self at 0, element at N
                ok = peq(a, frozenset(), w_self["off"], Poly.const(0)) and peq(a, frozenset(), w_elem["off"], N * S)
            else:  # prepend: element at 0, self at 1
                ok = peq(a, frozenset(), w_elem["off"], Poly.const(0)) and peq(a, frozenset(), w_self["off"], S)
        det += "; " + tdet
        # the output is the assume_init of that storage and no foreign code runs in between
        ai = a.calls_to("core::mem::MaybeUninit::<T>::assume_init")
        ok = ok and len(ai) == 1 and all(r["val"] == ai[0].ret for r in a.returns)
    ctx.ob(rule, key, ok, det + ("; spec: self at [0,N), element at N" if first_is_self else "; spec: element at 0, self at [1,N+1)"), at=b["at"], cfg=cfg)
    ctx.sample({"rule": rule, "fn": key, "cfg": cfg, "piece_map": det})
    return 1


def check_reads(ctx, cfg, key, spec_name, spec):
    """spec(a, S, N) -> list of (offset Poly, result position); generic owned-source split into two reads."""
    rule = "C09.M"
    b = ctx.body(cfg, key, rule)
    if b is None:
        return 0
    a = ctx.analysis(cfg, key)
    tr = transfers(a)
    T = adt_args(b["impl_self"])[0]
    S = a.tenv.size(T)
    N = selfN(a)
    rs = tr["read"]
    det = "reads: " + "; ".join("[%r,+%r) -> %s" % (r["off"], r["size"], tstr(r["ty"])) for r in rs)
    ok = len(rs) == 2 and rs[0]["base"] == rs[1]["base"] and rs[0]["base"][0] == "local"
    if ok:
        src = rs[0]["base"]
        # the source is the ManuallyDrop-wrapped self
        src_val = None
        for s in a.assigns:
            if s["cell"] == (src, ()):
                src_val = s["val"]
        md = a.calls_to("core::mem::ManuallyDrop::<T>::new")
        ok = len(md) == 1 and md[0].args[0] == ARG1 and tstr(a.local_ty(src[1])).startswith("core::mem::ManuallyDrop<")
        total = a.base_extent(src)
        st, tdet = tiling(a, [(r["off"], r["size"]) for r in rs], total, frozenset())
        ok = ok and st == PROVED
        det += "; " + tdet
        want = spec(a, S, N)
        rets = [r["val"] for r in a.returns]
        okpos = bool(rets)
        for (off, pos) in want:
            m = [r for r in rs if peq(a, frozenset(), r["off"], off)]
            okpos = okpos and len(m) == 1 and all(v[0] == "A" and v[1] == "tuple" and v[2][pos] == m[0]["val"] for v in rets)
        ok = ok and okpos
        det += "; result positions match spec %s: %s" % (spec_name, okpos)
    ctx.ob(rule, key, ok, det, at=b["at"], cfg=cfg)
    ctx.sample({"rule": rule, "fn": key, "cfg": cfg, "piece_map": det})
    return 1


def check_concat(ctx, cfg):
    rule = "C09.M"
    key = "<GenericArray<$0,$1> as Concat<$0,$2>>::concat"
    b = ctx.body(cfg, key, rule)
    if b is None:
        return 0
    a = ctx.analysis(cfg, key)
    tr = transfers(a)
    T = adt_args(b["impl_self"])[0]
    S = a.tenv.size(T)
    N = selfN(a)
    ws = tr["write"]
    det = "writes: " + "; ".join("[%r,+%r) <- %s" % (w["off"], w["size"], vstr(w["val"])) for w in ws)
    ok = len(ws) == 2 and ws[0]["base"] == ws[1]["base"] and ws[0]["base"][0] == "local"
    if ok:
        total = a.base_extent(ws[0]["base"])
        st, tdet = tiling(a, [(w["off"], w["size"]) for w in ws], total, frozenset())
        by_val = {repr(w["val"]): w for w in ws}
        w1, w2 = by_val.get(repr(ARG1)), by_val.get(repr(ARG2))
        ok = st == PROVED and w1 is not None and w2 is not None and peq(a, frozenset(), w1["off"], Poly.const(0)) and peq(a, frozenset(), w2["off"], N * S)
        ai = a.calls_to("core::mem::MaybeUninit::<T>::assume_init")
        ok = ok and len(ai) == 1 and all(r["val"] == ai[0].ret for r in a.returns)
        det += "; " + tdet
    ctx.ob(rule, key, ok, det + "; spec: self at [0,N), rest at [N,N+M)", at=b["at"], cfg=cfg)
    return 1


def check_ref_split(ctx, cfg, key):
    rule = "C09.S"
    b = ctx.body(cfg, key, rule)
    if b is None:
        return 0
    a = ctx.analysis(cfg, key)
    tr = transfers(a)
    moved = sum(len(v) for v in tr.values())
    ds = [d for d in a.derefs if d["ref"] and d["ptr"][0] == "P" and d["ptr"][1] == ("arg", 1)]
    via_views = ""
    if len(ds) != 2:
        # built through the crate's own checked view functions (as_slice, split_at, from_slice ..): judged with those expanded - the two
        # reborrows are then in this body - and none of their length checks may be able to fail (the halves exist for every K <= N)
        from ..rules import reachable_panics
        ax = ctx.analysis_inl(cfg, key, force="*", tag="refsplit")
        dx = [d for d in ax.derefs if d["ref"] and d["ptr"][0] == "P" and d["ptr"][1] == ("arg", 1) and is_ga(strip_wrappers(d["pointee"]))]
        pan = reachable_panics(ax)
        if len(dx) == 2 and not pan:
            a, ds = ax, dx
            tr = transfers(a)
            moved = sum(len(v) for v in tr.values())
            via_views = " (through the crate's checked view functions, expanded; no length check in them can fail)"
        elif pan:
            via_views = " (expanded view functions can panic: %s)" % pan
    total = a.base_extent(("arg", 1))
    det = "halves: " + "; ".join("[%r,+%r) as %s" % (d["ptr"][2], a.tenv.size(d["pointee"]), tstr(d["pointee"])) for d in ds)
    ok = len(ds) == 2 and moved == 0
    if ok:
        st, tdet = tiling(a, [(d["ptr"][2], a.tenv.size(d["pointee"])) for d in ds], total, frozenset())
        ok = st == PROVED
        det += "; " + tdet
        rets = [r["val"] for r in a.returns]
        # first result is the half at offset 0, of K elements
        T = adt_args(b["impl_self"]["t"])[0]
        first = [d for d in ds if peq(a, frozenset(), d["ptr"][2], Poly.const(0))]
        ok = ok and len(first) == 1 and all(v[0] == "A" and v[1] == "tuple" and v[2][0][0] == "P" and peq(a, frozenset(), v[2][0][2], Poly.const(0))
                                           and v[2][1][0] == "P" and peq(a, frozenset(), v[2][1][2], a.tenv.size(first[0]["pointee"])) for v in rets)
    ctx.ob(rule, key, ok, det + via_views + "; no raw read/write/copy in the body: %s" % (moved == 0), at=b["at"], cfg=cfg)
    st, ldet = lifetime_linkage(ctx.db(cfg), b)
    ctx.ob("C09.L", key, st if st is not None else UNKNOWN, ldet, at=b["at"], cfg=cfg)
    return 1


def check_remove_wrappers(ctx, cfg):
    """remove / swap_remove (the trait-default bodies, or an override in the GenericArray impl if one exists):
    the unchecked body - and any neutralisation of self (ManuallyDrop::new / forget / raw read) - is reached only under idx < N,
    and every panic exit is taken under idx >= N with self still the ordinary by-value parameter."""
    rule = "C09.A"
    n = 0
    db = ctx.db(cfg)
    for name, unchecked in (("remove", "remove_unchecked"), ("swap_remove", "swap_remove_unchecked")):
        okey = "<GenericArray<$0,$1> as Remove<$0,$1>>::" + name
        key = okey if db.get(okey) is not None else "trait Remove::" + name
        b = ctx.body(cfg, key, rule)
        if b is None:
            continue
        a = ctx.analysis(cfg, key)
        if key == okey:
            N = selfN(a)
        else:
            N = a.tenv.length({"k": "param", "n": b["generics"][2]["n"]})
        idx = Poly.atom(("arg", 2))
        problems = []
        # sites that neutralise self or hand it to the unchecked body
        neut = [c for c in a.calls if c.fn.endswith("::" + unchecked) or c.fn.startswith("core::mem::ManuallyDrop::<T>::new") or c.fn in ("core::mem::forget", "core::ptr::read", "core::mem::transmute_copy")]
        if not neut:
            problems.append("no call of %s and no inline implementation found" % unchecked)
        for c in neut:
            if not a.prove(c.facts, "Lt", idx, N):
                problems.append("%s is reached under %s, i.e. without idx < N being established (an out-of-range index then panics or misbehaves with self already neutralised)" % (c.fn.split("::")[-1], fstr(c.facts)))
        uc = [c for c in a.calls if c.fn.endswith("::" + unchecked)]
        for c in uc:
            if not (c.args[0] == ARG1 and a.as_poly(c.args[1]) == idx):
                problems.append("%s is not called with (self, idx) unchanged" % unchecked)
        pan = [p for p in a.calls if p.fn.startswith("core::panicking::")]
        if not pan:
            # a bounds-checked std call may play the role of the assert only if it happens before self is neutralised - covered by the rule above
            if not any(a.prove(c.facts, "Lt", idx, N) for c in neut):
                problems.append("no bounds check dominates the neutralisation of self")
        for p in pan:
            if not a.prove(p.facts, "Ge", idx, N):
                problems.append("a panic exit is reachable under %s (required idx >= N)" % fstr(p.facts))
        if uc and not all(r["val"] == uc[0].ret for r in a.returns):
            problems.append("the result of %s is not returned unchanged" % unchecked)
        ctx.ob(rule, key, not problems, "; ".join(problems) if problems else
               "%s: bounds check idx < N dominates every neutralisation of self / the call of %s; panic exits only under idx >= N with self untouched" % (key.split("::")[-1], unchecked), at=b["at"], cfg=cfg)
        n += 1
    return n


def check_unchecked(ctx, cfg, name):
    rule = "C09.M"
    key = "<GenericArray<$0,$1> as Remove<$0,$1>>::" + name
    b = ctx.body(cfg, key, rule)
    if b is None:
        return 0
    a = ctx.analysis(cfg, key)
    tr = transfers(a)
    T = adt_args(b["impl_self"])[0]
    S = a.tenv.size(T)
    N = selfN(a)
    idx = Poly.atom(("arg", 2))
    pre = frozenset([("poly", ">=", N - idx - 1)])  # caller's contract: idx < N (established by C09.A)
    # unreachable hints are infeasible under the precondition
    for i, (c, bad) in enumerate(ub_hints(a)):
        infeasible = bad is not None and prove((">=", Poly.const(-1)), a.poly_facts(bad | pre))
        ctx.ob("C09.U", "%s#unreachable#%d" % (key, i), infeasible, "hint violated under %s; infeasible given idx < N: %s" % (fstr(bad) if bad is not None else "?", infeasible), at=b["at"], cfg=cfg)
    rs, cps, tcs, sws = tr["read"], tr["copy"], tr["tcopy"], tr["swap"]
    md = a.calls_to("core::mem::ManuallyDrop::<T>::new")
    ok = len(md) == 1 and md[0].args[0] == ARG1 and len(rs) == 1 and len(tcs) == 1
    det = ""
    if ok:
        r, tc = rs[0], tcs[0]
        total = a.base_extent(r["base"])
        facts = r["c"].facts | pre
        okb = in_bounds(a, facts, r["off"], r["size"], total)
        # final piece: [0, (N-1)*S) of the same object, read last
        okt = tc["base"] == r["base"] and peq(a, facts, tc["off"], Poly.const(0)) and peq(a, facts, tc["size"], (N - 1) * S) and peq(a, facts, tc["src_size"], N * S)
        okt = okt and a.dominates(r["bb"], tc["bb"])
        rets = [x["val"] for x in a.returns]
        okr = bool(rets) and all(v[0] == "A" and v[1] == "tuple" and v[2][0] == r["val"] and v[2][1] == tc["val"] for v in rets)
        det = "read [%r,+%r) in bounds: %s; truncating copy [0,%r) of %r bytes after it: %s; returns (removed, truncated): %s" % (r["off"], r["size"], okb, tc["size"], tc["src_size"], okt, okr)
        ok = okb and okt and okr
        if name == "remove_unchecked":
            okc = len(cps) == 1 and not sws
            if okc:
                cp = cps[0]
                f2 = cp["c"].facts | pre
                okc = (peq(a, f2, r["off"], idx * S) and cp["dst"][1] == r["base"] and cp["src"][1] == r["base"]
                       and peq(a, f2, cp["dst"][2], r["off"]) and peq(a, f2, cp["src"][2], r["off"] + S)
                       and cp["count"] is not None and peq(a, f2, cp["src"][2] + cp["count"] * cp["esize"], N * S)
                       and prove((">=", cp["count"]), a.poly_facts(f2))
                       and a.dominates(r["bb"], cp["bb"]) and a.dominates(cp["bb"], tc["bb"]))
                det += "; shift: copy %r elements from byte %r to byte %r (spec: [idx+1,N) -> [idx,N-1), after the read, before the truncating copy): %s" % (cp["count"], cp["src"][2], cp["dst"][2], okc)
            ok = ok and okc
        else:
            okc = len(sws) == 1 and not cps
            if okc:
                sw = sws[0]
                f2 = sw["c"].facts | pre
                full = sw["slice"][1] == r["base"] and peq(a, f2, sw["slice"][2], Poly.const(0)) and sw["slice"][3] is not None and peq(a, f2, sw["slice"][3], N)
                ij = {repr(sw["i"]), repr(sw["j"])} == {repr(idx), repr(N - 1)}
                okc = full and ij and peq(a, f2, r["off"], (N - 1) * S) and a.dominates(sw["bb"], r["bb"])
                det += "; swap(%r, %r) on the full array before reading the last slot (spec: swap(idx, N-1), read N-1): %s" % (sw["i"], sw["j"], okc)
            ok = ok and okc
    else:
        det = "expected ManuallyDrop::new(self), one ptr::read and one transmute_copy; found reads=%d tcopy=%d" % (len(rs), len(tcs))
    ctx.ob(rule, key, ok, det, at=b["at"], cfg=cfg)
    ctx.sample({"rule": rule, "fn": key, "cfg": cfg, "piece_map": det})
    return 1


def check(ctx):
    ctx.explanation = EXPLANATION
    ctx.trusted = ["rustc MIR construction and type checking of the result lengths (Add1/Sub1/Diff/Sum)", "ptr::read/write/copy, slice::swap, transmute_copy semantics",
                   "C01: element i of GenericArray<T, N> lives at byte i*size_of T"]
    ctx.assumptions = ["typenum implements Sub only for non-negative results (Diff<N,K> exists => K <= N)"]
    cfgs = ["F0", "F1", "F1N"] if ctx.tier == "quick" else ["F0", "F1", "F1N", "F2", "F0N", "F2N"]
    ctx.need(*cfgs)
    for cfg in cfgs:
        # C09.N: the Vec operations these functions stand for do not fail for a valid position, so no path of the owned operations may end in a
        # panic of their own - an arithmetic check that can fail (`Sub1::<N>::USIZE - 1` for N == 1), an index out of range, an unwrap. The
        # unchecked removals are judged under their precondition idx < N (the checked wrappers assert it: C09.A).
        from ..rules import reachable_panics as _rp
        # judged where debug assertions do not exist but the arithmetic checks do (the F*N configurations): a `debug_assert!` of an internal
        # invariant is not a way of answering the caller, an overflow check is
        if cfg.endswith("N"):
            for nm_, tr_ in (("append", "Lengthen<$0>"), ("prepend", "Lengthen<$0>"), ("pop_back", "Shorten<$0>"), ("pop_front", "Shorten<$0>"),
                             ("concat", "Concat<$0,$2>"), ("split", "Split<$0,$2>"), ("remove_unchecked", "Remove<$0,$1>"), ("swap_remove_unchecked", "Remove<$0,$1>")):
                k_ = SEQ % (tr_, nm_)
                b_ = ctx.db(cfg).get(k_)
                if b_ is None:
                    continue
                pre_ = None
                if nm_.endswith("_unchecked"):
                    pre_ = _IDX_LT_N
                a_ = ctx.analysis_inl(cfg, k_, pre_, split=True, tag="c09n") if pre_ is not None else ctx.analysis_inl(cfg, k_, split=True, tag="c09n")
                # the impl exists only where the shorter length does (`N: Sub<B1>`, `N: Sub<K>`): make the type-level side facts (N >= 1, N >= K)
                # of the signature's types known before the checks are judged
                for t_ in list((b_.get("sig") or {}).get("inputs", [])) + [(b_.get("sig") or {}).get("output")] + [a_.local_ty(i_) for i_ in range(len(a_.locals))]:
                    if isinstance(t_, dict):
                        try:
                            a_.tenv.size(t_)
                        except Exception:
                            pass
                pan_ = _rp(a_)
                ctx.ob("C09.N", k_, not pan_, "no path of the operation ends in a panic of its own (compiler-inserted checks included)%s: %s" % (
                    " under idx < N" if pre_ is not None else "", (not pan_) or pan_), at=b_["at"], cfg=cfg)
        from ..rules import check_no_generic_zeroed as _cz
        _cz(ctx, cfg, "C09.Z0")
        n = 0
        n += check_owned_ops(ctx, cfg)
        n += check_ref_split(ctx, cfg, "<&GenericArray<$0,$1> as Split<$0,$2>>::split")
        n += check_ref_split(ctx, cfg, "<&mut GenericArray<$0,$1> as Split<$0,$2>>::split")
        n += check_remove_wrappers(ctx, cfg)
        n += check_unreachable_hints(ctx, cfg)
        ctx.floor("C09", "sequence-operation bodies analysed (%s)" % cfg, n, 12)
