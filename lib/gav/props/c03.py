"""C03 - every element is dropped exactly once across any (panic-free) history of ownership moves."""

from ..core import PROVED, REFUTED, UNKNOWN, MISSING
from ..poly import Poly, prove
from ..ownership import owner_adts, local_adt, find_in
from ..models import verify_models
from ..rules import vstr, fstr, transfers, tiling, check_const_transmute, peq, pipe_len
from ..typestate import Classifier, check_closure_protocol
from ..absint import State
from ..tys import tstr, strip_wrappers, adt_args
from . import c04, c05, c06, c09

EXPLANATION = (
    "Reduction: 'exactly once over all histories' holds if every operation taken alone is ownership-linear (what it is handed = what it hands back or destroys); "
    "linearity of safe code is rustc's job, so the checker covers the places where the crate steps outside it. C03.T/C09.M (tiling): in each by-value sequence operation the "
    "pieces duplicated out of a drop-suppressed source (or written into MaybeUninit output) tile it exactly once (symbolic offsets/extents, N, K, M, idx symbolic). "
    "C03.P (position discipline): every element-moving closure performs exactly one read (or write) of its slot and exactly one advance of each owner position per invocation on every path. "
    "C03.R: each owner's Drop releases exactly its field-described range and its storage field has no drop glue. C03.F (finishers): forget/finish/assume_init of a builder or iterator "
    "happen only where the owner is provably complete - position == N under the dominating facts, or after a full traversal of the owner's storage by a protocol closure. "
    "C03.S: every drop-suppression site (ManuallyDrop::new / mem::forget of a value with element drop glue) in the crate belongs to one of the accounted patterns. "
    "C03.I: on every return path of the by-value iterator's next/next_back/nth/nth_back (private helpers inlined) the range claimed at entry, [index, index_back), is exactly partitioned into the ranges destroyed in place, the slots moved out to the caller and the range still claimed - at the return or at the delegation to next()/next_back(). C03.A: assume_init family reinterprets the whole storage (equal symbolic sizes). Per-operation linearity composes over any chain of operations by induction.")

FINISH_KEYS = {"IntrusiveArrayBuilder<$0,$1>::finish", "ArrayBuilder<$0,$1>::assume_init"}

# functions whose ManuallyDrop::new / forget sites are accounted by another rule (frozen table, one reason each)
SUPPRESSION_TABLE = {
    "ArrayConsumer<$0,$1>::new": "stored in the consumer, whose Drop releases [position, N) (C03.R)",
    "<GenericArray<$0,$1> as core::iter::IntoIterator>::into_iter": "stored in the iterator with (0, N), whose Drop releases [index, index_back) (C03.R)",
    "<GenericArray<$0,$1> as Shorten<$0>>::pop_back": "pieces tile the source (C09.M)",
    "<GenericArray<$0,$1> as Shorten<$0>>::pop_front": "pieces tile the source (C09.M)",
    "<GenericArray<$0,$1> as Split<$0,$2>>::split": "pieces tile the source (C09.M)",
    "<GenericArray<$0,$1> as Remove<$0,$1>>::remove_unchecked": "read + shift + truncating copy (C09.M)",
    "<GenericArray<$0,$1> as Remove<$0,$1>>::swap_remove_unchecked": "swap + read last + truncating copy (C09.M)",
    "const_transmute": "whole value re-read through the union under the size guard (C01.T)",
    "<GenericArray<$0,$1> as GenericSequence<$0>>::inverted_zip": "no-drop branch, entered only under needs_drop == false (C04.O)",
    "<GenericArray<$0,$1> as GenericSequence<$0>>::inverted_zip2": "no-drop branch, entered only under needs_drop == false (C04.O)",
    "<GenericArrayIter<$0,$1> as core::iter::Iterator>::fold": "forget after complete traversal (C03.F)",
    "<GenericArrayIter<$0,$1> as core::iter::DoubleEndedIterator>::rfold": "forget after complete traversal (C03.F)",
    "IntrusiveArrayBuilder<$0,$1>::finish": "finisher definition; call sites checked by C03.F",
    "ArrayBuilder<$0,$1>::assume_init": "finisher definition: whole storage read out, then forget",
}


def owner_value_position(a, db, owners, c, argv):
    """Position polynomial of the tracked owner passed by value as argv at call c (None if unknown)."""
    pos = None
    if argv[0] == "A" and isinstance(argv[1], tuple) and argv[1][0] == "adt" and argv[1][1] in owners:
        o = owners[argv[1][1]]
        names = o["names"]
        if "position" in names:
            v = argv[2][names.index("position")]
            pos = v[1] if v[0] == "I" else None
    # find the local that holds it (MIR moves the owner into a temporary before the call: prefer the non-temporary, i.e. lowest, local)
    st = State(c.mem, c.facts)
    for n in range(len(a.locals)):
        adt = local_adt(a, n)
        if adt in owners:
            whole = a.read_cell(st, ("local", n), (), a.local_ty(n))
            if whole == argv:
                if pos is None and "position" in owners[adt]["names"]:
                    i = owners[adt]["names"].index("position")
                    v = a.read_cell(st, ("local", n), (i,), {"k": "prim", "n": "usize"})
                    pos = v[1] if v[0] == "I" else None
                return pos, n
    return pos, None
    return None, None


def full_traversal_driver(ctx, cfg, a, body, owners, cl, owner_local, finisher_bb):
    """A foreign call dominating the finisher whose pipeline iterates the owner's whole (claimed) storage with a protocol closure advancing it."""
    db = ctx.db(cfg)
    adt = local_adt(a, owner_local)
    o = owners.get(adt)
    if o is None:
        return None
    for d in a.calls:
        if d.bb == finisher_bb or not a.dominates(d.bb, finisher_bb):
            continue
        if cl.classify(d, body) != "foreign":
            continue
        from ..ownership import never_breaks, resolved_args
        if not never_breaks(d):
            continue  # a short-circuiting driver may stop before the storage is covered
        d_args = resolved_args(a, d)
        # index-driven form: the driver folds directly over `lo..hi` == the owner's claimed range and the closure moves out slot i of the owner's
        # storage per index, disowning it (ownership.indexed_traversal states the conditions)
        from ..ownership import range_driver, indexed_traversal
        if range_driver(d, a) is not None:
            for cv in [t for x in d_args for t in find_in(x, lambda t: isinstance(t, tuple) and len(t) == 3 and t[0] == "A" and isinstance(t[1], tuple) and t[1][0] == "closure")]:
                cb = db.by_path.get(cv[1][1])
                if cb is None:
                    continue
                ca = ctx.analysis(cfg, cb["key"])
                role, ok, det, info = check_closure_protocol(ca, cl)
                if role not in ("consumer", "builder") or info["normal_problems"] or not info.get("indexed"):
                    continue
                bases, _why = indexed_traversal(a, d, {"ops": cv[2]}, info, role, owners)
                if bases is None:
                    continue
                store_ok = all(bse == ("field", ("local", owner_local), (o["array"],)) for bse in bases) if not o["array_is_ref"] else False
                pos_ok = any((cv[2][k][0] == "P" and cv[2][k][1][0] == "field" and cv[2][k][1][1] == ("local", owner_local) and cv[2][k][1][2][0] in o["pos"]) for k in info["positions"] if k < len(cv[2]))
                if store_ok and pos_ok:
                    return d, cb["key"]
        slices = []
        closures = []
        for x in d_args:
            slices += find_in(x, lambda t: isinstance(t, tuple) and len(t) == 5 and t[0] == "V" and t[1] == "iter" and t[2] == "slice")
            closures += find_in(x, lambda t: isinstance(t, tuple) and len(t) == 3 and t[0] == "A" and isinstance(t[1], tuple) and t[1][0] == "closure")
            badadapt = find_in(x, lambda t: isinstance(t, tuple) and len(t) >= 3 and t[0] == "V" and t[1] == "iter" and t[2] in ("skip", "take", "step_by", "filter", "skip_while", "take_while", "chain", "peekable"))
            if badadapt:
                slices = []
                break
        for sl in slices:
            p = sl[3]
            st = State(d.mem, d.facts)
            # a zip partner that may be shorter ends the traversal early: the storage is only known to be covered when every partner yields
            # exactly as many items as the slice has slots
            short = False
            for x in d_args:
                for z in find_in(x, lambda t: isinstance(t, tuple) and len(t) == 5 and t[0] == "V" and t[1] == "iter" and t[2] == "zip"):
                    for mine, other in ((z[3], z[4]), (z[4], z[3])):
                        if find_in(mine, lambda t: t is sl or t == sl):
                            ol = pipe_len(a, other)
                            if ol is None or p[3] is None or not peq(a, d.facts, ol, p[3]):
                                short = True
            if short:
                continue
            if o["array_is_ref"]:
                arr = a.read_cell(st, ("local", owner_local), (o["array"],), None)
                base_ok = arr[0] == "P" and arr[1] == p[1]
                full = base_ok and peq(a, d.facts, p[2], Poly.const(0)) and p[3] is not None
                n_ok = full
            else:
                base_ok = p[1] == ("field", ("local", owner_local), (o["array"],))
                full = base_ok and p[3] is not None
            if not full:
                continue
            # extent: the whole array for builders/consumers, the claimed range for the iterator
            names = o["names"]
            T_S = None
            ok_extent = False
            lt = a.local_ty(owner_local)
            targs = [x for x in lt["args"] if x.get("k") != "region"]
            N = a.tenv.length(targs[-1])
            S = a.tenv.size(targs[0])
            if "index" in names:
                lo = a.read_cell(st, ("local", owner_local), (names.index("index"),), {"k": "prim", "n": "usize"})
                hi = a.read_cell(st, ("local", owner_local), (names.index("index_back"),), {"k": "prim", "n": "usize"})
                if lo[0] == "I" and hi[0] == "I":
                    ok_extent = peq(a, d.facts, p[2], lo[1] * S) and peq(a, d.facts, p[3], hi[1] - lo[1])
            else:
                ok_extent = peq(a, d.facts, p[2], Poly.const(0)) and peq(a, d.facts, p[3], N)
            if not ok_extent:
                continue
            # a protocol closure that advances a position of this owner
            for cv in closures:
                cb = db.by_path.get(cv[1][1])
                if cb is None:
                    continue
                ca = ctx.analysis(cfg, cb["key"])
                role, ok, det, info = check_closure_protocol(ca, cl)
                if role not in ("consumer", "builder") or info["normal_problems"]:
                    continue
                for k in info["positions"]:
                    op = cv[2][k] if k < len(cv[2]) else None
                    if op is not None and op[0] == "P" and op[1][0] == "field" and op[1][1] == ("local", owner_local) and op[1][2][0] in o["pos"]:
                        return d, cb["key"]
    return None


def full_traversal_loop(ctx, cfg, a, body, owners, cl, owner_local, finisher_bb):
    """Loop form of full_traversal_driver: a loop over an unadapted pipeline covering the owner's whole (claimed) storage, left only when
    next() returns None, each step advancing a position of this owner exactly once, whose None exit dominates the finisher."""
    from ..loops import find_loops, slices_of
    adt = local_adt(a, owner_local)
    o = owners.get(adt)
    if o is None:
        return None
    for lp in find_loops(a):
        if not lp.none_targets or not all(a.dominates(t, finisher_bb) for t in lp.none_targets):
            continue
        if any(y == finisher_bb or a.reaches(y, finisher_bb) for (x, y) in lp.breaks):
            continue  # the loop can be left early on a path that still reaches the finisher
        if find_in(lp.pipe, lambda t: isinstance(t, tuple) and len(t) >= 3 and t[0] == "V" and t[1] == "iter" and t[2] in ("skip", "take", "step_by", "filter", "skip_while", "take_while", "chain", "peekable", "rev")):
            continue
        d = lp.nxt
        st = State(d.mem, d.facts)
        lt = a.local_ty(owner_local)
        targs = [x for x in lt["args"] if x.get("k") != "region"]
        N = a.tenv.length(targs[-1])
        S = a.tenv.size(targs[0])
        names = o["names"]
        for sl in slices_of(lp.pipe):
            p = sl[3]
            if o["array_is_ref"]:
                arr = a.read_cell(st, ("local", owner_local), (o["array"],), None)
                base_ok = arr[0] == "P" and arr[1] == p[1]
            else:
                base_ok = p[1] == ("field", ("local", owner_local), (o["array"],))
            if not base_ok or p[3] is None:
                continue
            if "index" in names:
                continue  # the by-value iterator's own loops start from its current indices: judged by C03.I / C06
            if not (peq(a, d.facts, p[2], Poly.const(0)) and peq(a, d.facts, p[3], N)):
                continue
            role, ok, det, info = check_closure_protocol(a, cl, lp)
            if role not in ("consumer", "builder") or info["normal_problems"]:
                continue
            if any(pid[0] == ("local", owner_local) and pid[1] in o["pos"] for pid in info["positions"]):
                return lp
    return None


def loc_is_self(a, c, argv):
    """The forgotten value is the by-value receiver `self` (local 1) of the method."""
    try:
        return argv in (("V", "arg", 1), ("V", "cell", (("local", 1), ()))) or argv == a.read_cell(State(c.mem, c.facts), ("local", 1), (), a.local_ty(1))
    except Exception:
        return False


def check_finishers(ctx, cfg):
    rule = "C03.F"
    db = ctx.db(cfg)
    owners = owner_adts(db)
    cl = Classifier(db)
    n = 0
    for b in db.bodies:
        if b["kind"] not in ("Fn", "AssocFn"):
            continue
        if ctx.is_helper(cfg, b):
            continue  # judged inlined in its callers
        a = ctx.analysis(cfg, b["key"])
        for c in a.calls:
            is_fin = c.key in FINISH_KEYS
            is_forget = c.fn == "core::mem::forget" and c.targs and c.targs[0].get("k") == "adt" and c.targs[0]["def"] in owners
            if not (is_fin or is_forget):
                continue
            site = "%s#%s" % (b["key"], (c.key or c.fn).split("::")[-1])
            if b["key"] in FINISH_KEYS and c.args and c.args[0] == ("V", "arg", 1):
                ctx.ob(rule, site, PROVED, "finisher definition: forgets its own by-value receiver (call sites carry the obligation)", at=c.at, cfg=cfg)
                n += 1
                continue
            argv = c.args[0]
            pos, loc = owner_value_position(a, db, owners, c, argv)
            targs = [x for x in c.targs if x.get("k") != "region"]
            # owner type args: (T, N) - from the owner type itself
            oty = None
            if is_forget:
                oty = c.targs[0]
            elif loc is not None:
                oty = a.local_ty(loc)
            evidence = None
            if pos is not None and oty is not None:
                N = a.tenv.length([x for x in oty["args"] if x.get("k") != "region"][-1])
                if a.prove(c.facts, "Eq", pos, N):
                    evidence = "position == N under the dominating facts %s" % fstr(c.facts)
            if evidence is None:
                # the fullness test may reach the finisher through a merged boolean (`match full && probe { true => finish .. }`): judge the tree-shaped
                # body, where every copy of this finisher lies on one path with that path's own facts
                at_ = ctx.analysis_inl(cfg, b["key"], split=True, tag="fin")
                sites_ = [x for x in (at_.calls if at_ is not None else []) if (x.key or x.fn) == (c.key or c.fn) and x.at == c.at and x.args]
                good_ = bool(sites_)
                for x in sites_:
                    p2, l2 = owner_value_position(at_, db, owners, x, x.args[0])
                    oty2 = x.targs[0] if is_forget else (at_.local_ty(l2) if l2 is not None else None)
                    if p2 is None or oty2 is None or oty2.get("k") != "adt":
                        good_ = False
                        break
                    N2 = at_.tenv.length([y for y in oty2["args"] if y.get("k") != "region"][-1])
                    if not at_.prove(x.facts, "Eq", p2, N2):
                        good_ = False
                        break
                if good_:
                    evidence = "position == N under the path facts of each of the %d path(s) that reach this finisher (tree-shaped body)" % len(sites_)
            if evidence is None:
                # locate the owner local
                if loc is None:
                    st = State(c.mem, c.facts)
                    for i in range(len(a.locals)):
                        if local_adt(a, i) in owners and a.read_cell(st, ("local", i), (), a.local_ty(i)) == argv:
                            loc = i
                if loc is not None:
                    r = full_traversal_driver(ctx, cfg, a, b, owners, cl, loc, c.bb)
                    if r is not None:
                        evidence = "dominated by %s driving protocol closure %s over the owner's whole claimed storage" % (r[0].fn, r[1].split("::")[-1])
                    else:
                        lp = full_traversal_loop(ctx, cfg, a, b, owners, cl, loc, c.bb)
                        if lp is not None:
                            evidence = "dominated by the None exit of a loop over the owner's whole storage whose every step advances the owner's position exactly once (no break)"
            if evidence is None and is_forget and c.targs[0]["def"].split("::")[-1] == "GenericArrayIter" and (argv in (("V", "arg", 1), ("V", "cell", (("local", 1), ()))) or argv == a.read_cell(State(c.mem, c.facts), ("local", 1), (), a.local_ty(1))):
                # a by-value method of the iterator that forgets `self`: on every path through this forget the range claimed at entry is exactly
                # partitioned into ranges destroyed in place and slots moved out to the caller (nothing left to release, nothing released twice)
                itx = c06.It(db)
                at = ctx.analysis_inl(cfg, b["key"], itx.inv_facts(True), split=True, tag="inv1")
                if not c06.has_cycle(at):
                    okp, n_p = True, 0
                    for r in at.returns:
                        for pth in (c06.acyclic_paths(at, r["bb"]) or [None]):
                            if pth is None:
                                okp = False
                                continue
                            if not any(x.fn == "core::mem::forget" and x.bb in pth for x in at.calls):
                                continue
                            n_p += 1
                            st_, det_ = c06.ownership_path(at, itx, "", pth, r, byval=True, forgotten=True)
                            okp = okp and st_ == PROVED
                    if okp and n_p:
                        evidence = "on each of the %d path(s) through this forget the iterator's claimed range is exactly partitioned into destroyed ranges and moved-out slots" % n_p
            if evidence is None and is_forget and c.targs[0]["def"].split("::")[-1] == "GenericArrayIter" and loc_is_self(a, c, argv):
                # the iterator claims nothing any more where it is forgotten: index == index_back under the invariant and the facts of the path
                # (what left its claim was moved out or destroyed under the rules for those sites - C03.K, C04.Y, C06.S)
                itx = c06.It(db)
                ai = ctx.analysis_inl(cfg, b["key"], itx.inv_facts(True), tag="inv1")
                fg = [x for x in ai.calls if x.fn == "core::mem::forget" and x.at == c.at]
                if fg and not ai.unknown:
                    st_ = State(fg[0].mem, fg[0].facts)
                    i0v = ai.read_cell(st_, ("local", 1), (itx.i0,), {"k": "prim", "n": "usize"})
                    i1v = ai.read_cell(st_, ("local", 1), (itx.i1,), {"k": "prim", "n": "usize"})
                    # .. and how the claim got empty is the judged cursor loop (every iteration gives up exactly the slot it moves out, C06.S)
                    nm_ = "fold" if b["key"] == c06.K["fold"] else ("rfold" if b["key"] == c06.K["rfold"] else None)
                    if nm_ is not None and i0v[0] == "I" and i1v[0] == "I" and all(prove(("==", i1v[1] - i0v[1]), ai.poly_facts(x.facts)) for x in fg) \
                            and c06.fold_by_cursor_loop(ai, itx, nm_)[0]:
                        evidence = "the iterator claims nothing where it is forgotten (index == index_back under the invariant and the path's facts), emptied by a judged loop over its own cursors (C06.S)"
            if evidence is None and is_forget and c.targs[0]["def"].split("::")[-1] == "GenericArrayIter":
                # `while let Some(v) = self.next() { .. }` (or next_back): the iterator's own primitive returns None exactly when its claimed range
                # is empty (C06.S / C03.I), so past the None exit of a loop that cannot be left any other way nothing is left to release
                from ..loops import method_loops
                own_next = {"<GenericArrayIter<$0,$1> as core::iter::Iterator>::next", "<GenericArrayIter<$0,$1> as core::iter::DoubleEndedIterator>::next_back"}
                for lp in method_loops(a, own_next):
                    recv = lp.nxt.args[0]
                    mine = recv[0] == "P" and not recv[2].t and (recv[1] == ("local", loc) if loc is not None else recv[1] == ("local", 1))
                    after = any(t_ == c.bb or a.dominates(t_, c.bb) for t_ in lp.none_targets)
                    refilled = [x for x in a.calls if x is not c and x.bb not in lp.blocks and x is not lp.nxt and a.dominates(lp.nxt.bb, x.bb) and a.reaches(x.bb, c.bb)
                                and any(y[0] == "P" and y[1] == recv[1] for y in x.args if isinstance(y, tuple) and y)]
                    if mine and after and not lp.breaks and not refilled:
                        evidence = "dominated by the None exit of a loop driven by the iterator's own %s (None exactly when nothing is left: C06.S), which cannot be left any other way" % lp.nxt.fn.split("::")[-1]
            if evidence is None and is_forget and c.targs[0]["def"].split("::")[-1] == "GenericArrayIter":
                # the provided try_fold / try_rfold on self with an uninhabited residual is that same loop (std: `while let Some(x) = self.next()`)
                for nm_ in ("fold", "rfold"):
                    pv_ = c06.provided_try_fold(db, a, nm_)
                    if pv_ is not None and a.dominates(pv_[0].bb, c.bb):
                        evidence = "dominated by the provided %s over the iterator's own primitive with a residual that cannot exist: it returns only when nothing is left" % pv_[0].fn.split("::")[-1]
            if evidence is None and loc is not None:
                # extend(&mut owner, X.into_iter()) with len(X) == N proven
                for e in a.calls:
                    if e.key in ("IntrusiveArrayBuilder<$0,$1>::extend", "ArrayBuilder<$0,$1>::extend") and a.dominates(e.bb, c.bb) and e.args[0][0] == "P" and e.args[0][1] == ("local", loc):
                        src = e.args[1]
                        oN_ = a.tenv.length([x for x in a.local_ty(loc)["args"] if x.get("k") != "region"][-1])
                        pl = pipe_len(a, src)
                        if pl is not None and pl == oN_:
                            evidence = "filled by extend() from a pipeline that yields exactly N items (%s); Zip stores min(N, N) = N items" % vstr(src)[:120]
                        if isinstance(src, tuple) and len(src) == 4 and src[:3] == ("V", "iter", "into_iter"):
                            vecv = src[3]
                            for l in a.calls:
                                if l.fn == "alloc::vec::Vec::<T, A>::len" and l.ret[0] == "I" and a.dominates(l.bb, e.bb):
                                    st = State(l.mem, l.facts)
                                    held = a.read_cell(st, l.args[0][1], (), None) if l.args[0][0] == "P" else None
                                    oN = a.tenv.length([x for x in a.local_ty(loc)["args"] if x.get("k") != "region"][-1])
                                    if held == vecv and a.prove(c.facts, "Eq", l.ret[1], oN):
                                        evidence = "filled by extend() from a Vec whose len == N is proven (%s); Zip stores min(N, len) = N items" % fstr(c.facts)
            ctx.ob(rule, site, evidence is not None, evidence or "no evidence that the owner is complete at this finisher (neither position == N nor a dominating full traversal)", at=c.at, cfg=cfg)
            ctx.sample({"rule": rule, "site": site, "cfg": cfg, "evidence": evidence})
            n += 1
    return n


def check_suppression_sites(ctx, cfg):
    rule = "C03.S"
    db = ctx.db(cfg)
    n = 0
    seen = set()
    from ..typestate import has_generic
    for b in db.bodies:
        for blk in b["mir"]["blocks"]:
            t = blk["term"]
            if t["k"] != "call" or t["f"].get("k") != "fn":
                continue
            fn = t["f"]["def"]
            if fn not in ("core::mem::ManuallyDrop::<T>::new", "core::mem::forget"):
                continue
            targs = [x for x in t["f"]["args"] if x.get("k") != "region"]
            if not targs or not has_generic(targs[0]):
                continue
            key = b["key"] if b["kind"] != "Closure" else db.by_path[b["root"]]["key"]
            n += 1
            if key in SUPPRESSION_TABLE:
                seen.add(key)
            else:
                ctx.ob(rule, "%s#%s" % (b["key"], fn.split("::")[-1]), UNKNOWN, "drop-suppression site of `%s` outside the accounted patterns" % tstr(targs[0]), at=t.get("at"), cfg=cfg, frozen=False)
    for key, why in SUPPRESSION_TABLE.items():
        if db.get(key) is None:
            continue
        ctx.ob(rule, key, key in seen, "suppression site accounted by: %s" % why if key in seen else "the function no longer suppresses a drop here - table entry stale (harmless)" , cfg=cfg, frozen=False) if key in seen else None
    return n


UNINIT_MAKERS = ("core::mem::MaybeUninit::<T>::uninit", "core::mem::MaybeUninit::<T>::zeroed", "alloc::boxed::Box::<T>::new_uninit", "alloc::boxed::Box::<T>::new_zeroed",
                 "alloc::boxed::Box::<T, A>::new_uninit_in", "core::mem::MaybeUninit::<[T; N]>::uninit_array")


def bare_generic(t, depth=0):
    """The type mentions a generic parameter that is NOT under MaybeUninit / PhantomData: a value of it contains real elements."""
    if t is None or depth > 8:
        return False
    k = t.get("k")
    if k == "param":
        return True
    if k == "adt":
        if t["def"] in ("core::mem::MaybeUninit", "core::marker::PhantomData"):
            return False
        if t["def"].split("::")[-1] == "GenericArray":
            # GenericArray<X, N>: N is a type-level length, not data
            xs = [x for x in t.get("args", []) if x.get("k") not in ("region", "const", "cparam")]
            return bool(xs) and bare_generic(xs[0], depth + 1)
        return any(bare_generic(x, depth + 1) for x in t.get("args", []) if x.get("k") not in ("region", "const", "cparam"))
    if k in ("array", "slice"):
        return bare_generic(t["t"], depth + 1)
    if k == "tuple":
        return any(bare_generic(x, depth + 1) for x in t["ts"])
    if k == "alias":
        if t.get("def", "").endswith("ArrayLength::ArrayType"):
            # <N as ArrayLength>::ArrayType<X>: the storage of N values of X (N is a length, not data) - real elements only if X has them
            xs = [x for x in t.get("args", []) if x.get("k") not in ("region", "const", "cparam")]
            return len(xs) < 2 or bare_generic(xs[1], depth + 1)
        return True
    return False


def check_no_conjured_elements(ctx, cfg, rule="C03.U"):
    """No element out of nothing: `assume_init` that turns FRESH uninitialised storage (the direct result of MaybeUninit::uninit / Box::new_uninit ..)
    into a type holding real elements must be preceded by a builder's finish() - whose completeness is C03.F's obligation. Storage whose element
    type is still MaybeUninit (`GenericArray::uninit`) and values derived from an argument (reinterpretations) are not concerned."""
    db = ctx.db(cfg)
    n = 0
    for b in db.bodies:
        if b["kind"] not in ("Fn", "AssocFn", "Closure"):
            continue
        if b["kind"] != "Closure" and ctx.is_helper(cfg, b):
            continue
        if not any(t["term"]["k"] == "call" and t["term"]["f"].get("k") == "fn" and t["term"]["f"]["def"].endswith(("::assume_init", "::assume_init_read")) for t in b["mir"]["blocks"]):
            continue
        a = ctx.analysis(cfg, b["key"])
        makers = [c for c in a.calls if c.fn in UNINIT_MAKERS]
        fins = [c for c in a.calls if c.key in FINISH_KEYS]
        for j, c in enumerate([c for c in a.calls if c.fn.endswith(("::assume_init", "::assume_init_read")) and c.fn.startswith(("core::mem::MaybeUninit", "alloc::boxed::Box"))]):
            inner = c.targs[0] if c.targs else None
            n += 1
            if not bare_generic(inner):
                continue
            fresh = [m for m in makers if m.ret == c.args[0] or (c.args[0][0] == "P" and m.ret[0] == "P" and m.ret[1] == c.args[0][1])]
            if not fresh:
                continue
            filled = any(a.dominates(f.bb, c.bb) for f in fins)
            ctx.ob(rule, "%s#assume_init#%d" % (b["key"], j), filled,
                   "assume_init::<%s> of storage freshly made by %s: %s" % (tstr(inner), fresh[0].fn.split("::")[-1], "after a builder's finish()" if filled else
                      "nothing initialised it (elements out of nothing: whatever owned the real elements still drops them, and so does the result)"), at=c.at, cfg=cfg)
    ctx.ob(rule, "assume_init sweep (%s)" % cfg, n >= 1, "assume_init call sites examined: %d" % n, cfg=cfg)
    return n


def check_assume_init(ctx, cfg):
    rule = "C03.A"
    n = 0
    # array_assume_init: ptr::read of the whole array as MaybeUninit<GenericArray<T,N>>
    key = "IntrusiveArrayBuilder<$0,$1>::array_assume_init"
    b = ctx.body(cfg, key, rule)
    if b is not None:
        a = ctx.analysis(cfg, key)
        tr = transfers(a)
        ok = len(tr["read"]) == 1
        det = "expected one whole-array read"
        if ok:
            r = tr["read"][0]
            total = a.base_extent(r["base"])
            ok = r["base"] == ("local", 1) and peq(a, frozenset(), r["off"], Poly.const(0)) and peq(a, frozenset(), r["size"], total)
            src_glue_free = "core::mem::MaybeUninit<" in tstr(a.local_ty(1))
            ai = a.calls_to("core::mem::MaybeUninit::<T>::assume_init")
            ok = ok and src_glue_free and len(ai) == 1 and ai[0].args[0] == r["val"] and all(x["val"] == ai[0].ret for x in a.returns)
            det = "reads [%r,+%r) of the %r-byte parameter (no drop glue: %s) and returns its assume_init" % (r["off"], r["size"], total, src_glue_free)
        if ok:
            ctx.ob(rule, key, ok, det, at=b["at"], cfg=cfg)
        else:
            # written with another idiom (transmute_copy, a cast read ..): decided by byte provenance - the result is the parameter's N*S bytes,
            # in place, the parameter (which has no drop glue) is not released, no foreign code runs
            _builder_tn = lambda a_: ([x for x in adt_args(a_.body["impl_self"])][0], a_.tenv.length([x for x in adt_args(a_.body["impl_self"])][1]))
            c09.provenance_rule(ctx, cfg, key, lambda a_, S, N: [[(N * S, c09.A1, c09.Z)]], rule=rule, elem_len=_builder_tn)
        n += 1
    key = "GenericArray<$0,$1>::assume_init"
    b = ctx.body(cfg, key, rule)
    if b is not None:
        a = ctx.analysis(cfg, key)
        cs = a.calls_to("const_transmute")
        ok = len(cs) == 1 and cs[0].args[0] == ("V", "arg", 1)
        det = "expected const_transmute(array)"
        if ok:
            sa, sb = a.tenv.size(cs[0].targs[0]), a.tenv.size(cs[0].targs[1])
            ok = prove(("==", sa - sb), a.poly_facts(cs[0].facts))
            det = "const_transmute::<%s, %s>: sizes %r == %r" % (tstr(cs[0].targs[0]), tstr(cs[0].targs[1]), sa, sb)
        if ok:
            ctx.ob(rule, key, ok, det, at=b["at"], cfg=cfg)
        else:
            c09.provenance_rule(ctx, cfg, key, lambda a_, S, N: [[(N * S, c09.A1, c09.Z)]], rule=rule)
        n += 1
    key = "ArrayBuilder<$0,$1>::assume_init"
    b = ctx.body(cfg, key, rule)
    if b is not None:
        a = ctx.analysis(cfg, key)
        tr = transfers(a)
        fg = a.calls_to("core::mem::forget")
        ok = len(tr["read"]) == 1 and len(fg) == 1 and fg[0].args[0] == ("V", "arg", 1)
        if ok:
            r = tr["read"][0]
            ok = r["base"][0] == "field" and r["base"][1] == ("local", 1) and peq(a, frozenset(), r["off"], Poly.const(0)) and a.dominates(r["bb"], fg[0].bb)
        if ok:
            ctx.ob(rule, key, ok, "reads the whole array field out of self, then forgets self (so the builder's Drop cannot release the moved elements)", at=b["at"], cfg=cfg)
        else:
            # another order / idiom (disarm with ManuallyDrop first, then move the field out): by byte provenance the result is the N*S bytes of
            # self's array field, and self is never dropped on the normal path
            from ..ownership import owner_adts
            o = owner_adts(ctx.db(cfg)).get(b["impl_self"]["def"])
            _builder_tn = lambda a_: (adt_args(a_.body["impl_self"])[0], a_.tenv.length(adt_args(a_.body["impl_self"])[1]))
            if o is None:
                ctx.ob(rule, key, MISSING, "ArrayBuilder is not a tracked owner", at=b["at"], cfg=cfg)
            else:
                c09.provenance_rule(ctx, cfg, key, lambda a_, S, N: [[(N * S, ("field", ("arg", 1), (o["array"],)), c09.Z)]], rule=rule, elem_len=_builder_tn)
        n += 1
    return n


def check_position_stores(ctx, cfg, rule="C03.Q"):
    """The position of a builder / consumer says which slots hold live elements; it may only move as part of a judged step - a closure of the
    element-moving protocol (its stores are the closure's own `inc` events) or one iteration of a loop the protocol gives a role to. A store to a
    position anywhere else (`self.position = source.take(N).count()`: elements counted, dropped by `count`, and then claimed) changes what the
    owner will drop without an element having been moved. Stores to the by-value iterator's cursors inside the iterator's own methods are
    judged against the deque specification (C06.I / C06.S / C06.E) and the ownership path rules (C03.I); anywhere else they are reported here."""
    from ..loops import find_loops
    from ..tys import pointee
    db = ctx.db(cfg)
    owners = owner_adts(db)
    cl = Classifier(db)
    n = 0

    def pos_of(a, cell):
        base, path = cell
        if base[0] == "field" and not path:
            obase, opath = base[1], base[2]
        else:
            obase, opath = base, path
        if len(opath) != 1 or not isinstance(opath[0], int):
            return None
        adt = None
        if obase[0] == "local":
            adt = local_adt(a, obase[1])
        elif obase[0] == "arg":
            pt = pointee(a.local_ty(obase[1]))
            adt = pt["def"] if pt is not None and pt.get("k") == "adt" else None
        if adt in owners and opath[0] in owners[adt]["pos"]:
            return adt, owners[adt]["names"][opath[0]]
        return None
    for b in db.bodies:
        if b["kind"] not in ("Fn", "AssocFn") or ctx.is_helper(cfg, b):
            continue
        if not any(st_.get("k") == "assign" for blk in b["mir"]["blocks"] for st_ in blk.get("stmts", [])):
            continue
        a = ctx.analysis(cfg, b["key"])
        cands = [(s_, pos_of(a, s_["cell"])) for s_ in a.stores + [x for x in a.assigns if x["cell"][0][0] == "local" and x["cell"][1]]]
        cands = [(s_, p_) for s_, p_ in cands if p_ is not None and not a.blocks[s_["site"][0]]["cleanup"]]
        if not cands:
            continue
        judged = set()
        for lp in find_loops(a):
            role, _ok, _det, _info = check_closure_protocol(a, cl, lp)
            if role != "none":
                judged |= set(lp.blocks)
        bad = []
        own_impl = b.get("impl_self") or {}
        for s_, (adt, fname) in cands:
            if s_["site"][0] in judged:
                continue
            if adt.endswith("::GenericArrayIter") and own_impl.get("k") == "adt" and own_impl.get("def") == adt:
                continue   # the iterator's own methods: every store to a cursor is judged by C06.I/S/E and C03.I
            bad.append("`%s` of %s is assigned %s at %s outside any judged element-moving step" % (fname, adt.split("::")[-1], vstr(s_["val"])[:80], s_.get("at") or s_["site"]))
        ctx.ob(rule, b["key"], not bad, "; ".join(sorted(set(bad))) if bad else "%d store(s) to a builder / consumer position, each inside a judged loop step" % len(cands), at=b["at"], cfg=cfg, frozen=False)
        n += 1
    return n


def check_owner_constructions(ctx, cfg, rule="C03.C"):
    """Wherever a tracked owner is put together (an aggregate of its type, in any body of the crate), its cursors describe its storage: a builder
    starts with nothing written (position 0), a consumer with nothing consumed (position 0: it claims the whole array it was given), the
    by-value iterator claims either everything (index 0, index_back N) or nothing (index == index_back: storage still to be filled). A second
    constructor that starts anywhere else leaks, or claims, elements that were never accounted for."""
    db = ctx.db(cfg)
    owners = owner_adts(db)
    n = 0
    for b in db.bodies:
        if b["kind"] not in ("Fn", "AssocFn", "Closure"):
            continue
        if not any(st_.get("k") == "assign" and isinstance(st_.get("rv"), dict) and st_["rv"].get("k") == "agg" for blk in b["mir"]["blocks"] for st_ in blk.get("stmts", [])):
            continue
        a = ctx.analysis(cfg, b["key"])
        for g in a.aggregates:
            kd = g["kind"]
            if not (isinstance(kd, tuple) and kd and kd[0] == "adt" and kd[1] in owners):
                continue
            if a.blocks[g["site"][0]]["cleanup"]:
                continue
            o = owners[kd[1]]
            tail = kd[1].split("::")[-1]
            sig = b.get("sig") or {}
            if sig.get("unsafe") and isinstance(sig.get("output"), dict) and sig["output"].get("k") == "adt" and sig["output"].get("def") == kd[1]:
                # an `unsafe fn` that returns the owner it builds: what its cursors must say is that function's safety contract with its caller
                ctx.note("%s %s: %s constructed in an unsafe constructor - its initial cursors are the caller's obligation, not judged" % (rule, b["key"], tail))
                continue
            vals = [g["ops"][f_] if f_ < len(g["ops"]) else None for f_ in o["pos"]]
            n += 1
            if not all(v is not None and v[0] == "I" for v in vals):
                ctx.ob(rule, "%s#%s@%s" % (b["key"], tail, g["site"][0]), UNKNOWN, "%s constructed with a cursor that is not an integer term: %s" % (tail, [vstr(v) if v is not None else None for v in vals]), at=b["at"], cfg=cfg, frozen=True)
                continue
            pf = a.poly_facts(g["facts"])
            lt = None
            for L in range(len(a.locals)):
                if local_adt(a, L) == kd[1]:
                    lt = a.local_ty(L)
                    break
            N_ = a.tenv.length([x for x in lt["args"] if x.get("k") != "region"][-1]) if lt is not None else None
            if len(vals) == 1:
                ok = prove(("==", vals[0][1]), pf)
                det = "position = %r at construction; required 0 (nothing written / nothing consumed yet)" % (vals[0][1],)
            else:
                lo, hi = vals[0][1], vals[1][1]
                empty = prove(("==", hi - lo), pf)
                whole = N_ is not None and prove(("==", lo), pf) and prove(("==", hi - N_), pf)
                ok = empty or whole
                det = "claims [%r, %r) at construction; required: everything [0, N) or nothing (index == index_back)" % (lo, hi)
            ctx.ob(rule, "%s#%s@%s" % (b["key"], tail, g["site"][0]), ok, det, at=b["at"], cfg=cfg, frozen=False)
    return n


def has_generic_ty(t):
    if not isinstance(t, dict):
        return False
    if t.get("k") in ("param", "proj", "alias"):
        return True
    return any(has_generic_ty(x) for x in t.get("args", []) if isinstance(x, dict)) or has_generic_ty(t.get("t")) or has_generic_ty(t.get("elem"))


def check_vec_disown(ctx, cfg, rule="C03.V"):
    """`Vec::set_len(k)` with k below the length makes the Vec forget elements [k, len) without dropping them: on every return path through it
    those elements must have been taken over - a raw copy out of the Vec's own buffer, from its start, of exactly the old length, into storage
    that then owns them - or they are dropped zero times. (A refusal path placed after the set_len leaks the refused elements.)"""
    from ..segmap import path_calls
    db = ctx.db(cfg)
    n = 0
    for b in db.bodies:
        if b["kind"] not in ("Fn", "AssocFn") or ctx.is_helper(cfg, b):
            continue
        if not any(t["term"]["k"] == "call" and t["term"]["f"].get("k") == "fn" and t["term"]["f"]["def"] in (
                "alloc::vec::Vec::<T, A>::set_len", "alloc::vec::Vec::<T, A>::as_ptr", "alloc::vec::Vec::<T, A>::as_mut_ptr") for t in ctx.inlined(db, b)["mir"]["blocks"]):
            continue
        at = ctx.analysis_inl(cfg, b["key"], split=True)
        bad, und = [], []
        for r in at.returns:
            calls = path_calls(at, r)
            if calls is None:
                und.append("return at bb%d: path not unique" % r["bb"])
                continue
            # the converse: elements copied out of a Vec's own buffer (a raw duplicate) must be forgotten by the Vec on the same path - emptied
            # by set_len(0), or the Vec itself put beyond dropping - or they are dropped once more when the Vec goes
            for ap_ in calls:
                if ap_.fn not in ("alloc::vec::Vec::<T, A>::as_ptr", "alloc::vec::Vec::<T, A>::as_mut_ptr") or ap_.args[0][0] != "P":
                    continue
                vec_ = ap_.args[0][1]
                outs_ = [c for c in calls if ((c.fn in ("core::ptr::read", "core::ptr::read_unaligned") and c.args[0] == ap_.ret)
                                              or (c.fn in ("core::ptr::copy_nonoverlapping", "core::ptr::copy") and c.args[0] == ap_.ret))]
                if not outs_:
                    continue
                vt_ = at.local_ty(vec_[1]) if vec_[0] in ("local", "arg") else None
                et_ = adt_args(vt_)[0] if vt_ is not None and vt_.get("k") == "adt" and adt_args(vt_) else None
                if et_ is not None and not has_generic_ty(et_):
                    continue   # a concrete element type without drop glue in this crate (u8 buffers)
                emptied = any(c.fn == "alloc::vec::Vec::<T, A>::set_len" and c.args[0][0] == "P" and c.args[0][1] == vec_ and c.args[1] == ("I", Poly.const(0)) for c in calls)
                gone = any(c.fn in ("core::mem::forget", "core::mem::ManuallyDrop::<T>::new") and (c.args[0] == ("V",) + vec_ or (c.args[0][0] == "P" and c.args[0][1] == vec_)) for c in calls)
                if not (emptied or gone):
                    bad.append("elements copied out of the Vec's buffer at %s are still the Vec's own when it is dropped on the path returning %s: dropped twice" % (outs_[0].at, vstr(r["val"])[:60]))
            for i, s_ in enumerate(calls):
                if s_.fn != "alloc::vec::Vec::<T, A>::set_len" or s_.args[0][0] != "P" or s_.args[1][0] != "I":
                    continue
                vec = s_.args[0][1]
                lens = [c for c in calls[:i] if c.fn == "alloc::vec::Vec::<T, A>::len" and c.args[0][0] == "P" and c.args[0][1] == vec and c.ret[0] == "I"]
                if not lens:
                    bad.append("set_len at %s without the old length being read first" % (s_.at,))
                    continue
                old = lens[-1].ret[1]
                pf = at.poly_facts(r["facts"])
                if prove(("==", old - s_.args[1][1]), pf):
                    continue   # nothing is forgotten on this path
                ptrs = [c for c in calls if c.fn in ("alloc::vec::Vec::<T, A>::as_ptr", "alloc::vec::Vec::<T, A>::as_mut_ptr") and c.args[0][0] == "P" and c.args[0][1] == vec]
                took = [c for c in calls if c.fn in ("core::ptr::copy_nonoverlapping", "core::ptr::copy") and any(c.args[0] == p_.ret for p_ in ptrs)
                        and at.as_poly(c.args[2]) is not None and prove(("==", at.as_poly(c.args[2]) - (old - s_.args[1][1])), pf)]
                if not took and vec[0] in ("local", "arg"):
                    # the same as one whole-value read: `ptr::read(v.as_ptr() as *const GenericArray<T, N>)` - as many bytes as the forgotten
                    # elements occupy, from the buffer's start
                    vt = at.local_ty(vec[1])
                    et = adt_args(vt)[0] if vt is not None and vt.get("k") == "adt" and adt_args(vt) else None
                    if et is not None:
                        want = at.tenv.size(et) * (old - s_.args[1][1])
                        took = [c for c in calls if c.fn in ("core::ptr::read", "core::ptr::read_unaligned") and any(c.args[0] == p_.ret for p_ in ptrs) and c.targs
                                and prove(("==", at.tenv.size(c.targs[0]) - want), pf)]
                if not (took and s_.args[1][1].is_const() and s_.args[1][1].const_value() == 0):
                    bad.append("the elements the Vec forgets at %s (set_len(%r) of %r) are not taken over on the path returning %s: dropped zero times" % (s_.at, s_.args[1][1], old, vstr(r["val"])[:60]))
        st = REFUTED if bad else (UNKNOWN if und else PROVED)
        ctx.ob(rule, b["key"], st, "; ".join(sorted(set(bad + und))) if (bad or und) else "every path through a Vec::set_len either forgets nothing or copies the forgotten elements out first", at=b["at"], cfg=cfg, frozen=False)
        n += 1
    return n


def check(ctx):
    ctx.explanation = EXPLANATION
    ctx.trusted = ["rustc ownership/borrow checking of all safe code", "ptr::read/write/copy, MaybeUninit, ManuallyDrop semantics",
                   "core iterators: for_each / fold / from_iter run to exhaustion; Zip stores min(len) items"]
    ctx.assumptions = ["panic-free histories (panics are C04/C05)", "the claim is ownership-linearity of every operation w.r.t. the interpreted primitives, not an observation of destructor calls"]
    cfgs = ["F0", "F1", "F1N"] if ctx.tier == "quick" else ["F0", "F1", "F1N", "F2", "F0N", "F2N"]
    ctx.need(*cfgs)
    for cfg in cfgs:
        from ..rules import check_no_generic_zeroed as _cz
        _cz(ctx, cfg, "C03.Z0")
        verify_models(ctx, cfg)
        check_const_transmute(ctx, cfg)
        # tiling instances (shared with C09)
        n = 0
        n += c09.check_owned_ops(ctx, cfg, rule="C03.T")
        from . import c11 as _c11
        n += _c11.check_owned(ctx, cfg, rule="C03.T")   # by-value flatten / unflatten: every element moved exactly once, none dropped here
        n += check_assume_init(ctx, cfg)
        check_no_conjured_elements(ctx, cfg)
        check_vec_disown(ctx, cfg)
        check_position_stores(ctx, cfg)
        nc = check_owner_constructions(ctx, cfg)
        if not cfg.startswith("F0"):
            # boxed forms: a block (and the elements in it) that leaves its Box is adopted again exactly once - the raw hand-over rules of C16
            # are ownership-linearity of the elements as much as of the allocation (a block adopted twice drops its elements twice)
            from . import c16 as _c16
            _c16.check_raw_sites(ctx, cfg)
            _c16.check_handover(ctx, cfg)
            _c16.check_release_taken_up(ctx, cfg)
        ctx.floor("C03.C", "constructions of tracked owners (%s)" % cfg, nc, 4)
        ctx.floor("C03.T", "tiling / whole-value reinterpretation instances (%s)" % cfg, n, 11)
        p = c04.check_closures(ctx, cfg, want_normal=True, rule_p="C03.P")
        ctx.floor("C03.P", "element-moving closures (%s)" % cfg, p, 1)
        r = c05.check_drop_ranges(ctx, cfg)
        ctx.floor("C03.R", "owner Drop impls (%s)" % cfg, r, 4)
        c04.check_finish_window(ctx, cfg, "C03.W")
        f = check_finishers(ctx, cfg)
        ctx.floor("C03.F", "finisher sites (%s)" % cfg, f, 1)
        # C03.I iterator primitives: next / next_back read exactly the slot their index update excludes, nth / nth_back destroy exactly
        # the skipped range [index, index+m) / [index_back-m, index_back) of the iterator's own storage (shared rules with C06)
        it = c06.It(ctx.db(cfg))
        for nm in ("next", "next_back", "nth", "nth_back"):
            c06.check_ownership(ctx, cfg, it, nm)
        c06.check_other_cursor_moves(ctx, cfg, it, "C03.I")
        # C03.K: no method of the iterator lets element-reading code see slots outside the live range (they were moved out or destroyed)
        c06.check_live_range(ctx, cfg, it, "C03.K")
        s = check_suppression_sites(ctx, cfg)
        ctx.floor("C03.S", "drop-suppression sites (%s)" % cfg, s, 1)
