"""C02 - borrowed views alias the array's storage; reinterpretation needs exact length."""

from ..core import PROVED, REFUTED, UNKNOWN, MISSING
from ..poly import Poly
from ..rules import (check_views, payload_calls, is_full_view, vstr, fstr, self_len, is_panic_plumbing,
                     lifetime_linkage)
from ..tys import tstr, is_ga, adt_args, pointee, strip_wrappers

EXPLANATION = (
    "Static analysis of the polymorphic MIR (N symbolic), configs F0+F1. "
    "C02.V: as_slice/as_mut_slice/Deref/DerefMut return (address of self, N). "
    "C02.G/A/R: each slice-to-array reference conversion (inherent and TryFrom forms) is judged per path on its fully expanded, tree-shaped body: every success exit returns the source's own "
    "address (no copy) and is reached only with source extent == target extent (len == N exactly), every LengthError/panic exit is taken only under len != N, the fallible forms have no panicking exit, "
    "and every reborrow of the slice's pointer as an array inside has the exact extent at that point. C02.T: reinterpretations of [T; U] / &[T; U] have equal symbolic sizes under the "
    "where-clause Const<U>: IntoArrayLength<ArrayLength = N>. C02.D: the trait forms (AsRef/AsMut/Borrow/BorrowMut, IntoIterator for &/&mut, TryFrom, From) "
    "delegate to those on the unchanged receiver. C02.P: the 24 tuple conversions keep operand i at position i. C02.M: every returned reference's "
    "region occurs in the input it derives from, with matching mutability. A generic sweep applies the exact-extent rule to any other slice-to-array "
    "reborrow in the crate.")

K = "GenericArray<$0,$1>::"
SLICE_FNS = [K + "from_slice", K + "try_from_slice", K + "from_mut_slice"]
K_TRY_MUT = K + "try_from_mut_slice"

DELEGATES = [
    # key, payload callee (def path), what the argument must be, what is returned
    ("<&GenericArray<$0,$1> as core::iter::IntoIterator>::into_iter", "core::slice::<impl [T]>::iter", "view"),
    ("<&mut GenericArray<$0,$1> as core::iter::IntoIterator>::into_iter", "core::slice::<impl [T]>::iter_mut", "view"),
    ("<GenericArray<$0,<typenum::Const<$1>>::IntoArrayLength::ArrayLength> as core::convert::From<[$0;$1]>>::from", "GenericArray::<T, N>::from_array", "val"),
    ("<[$0;$1] as core::convert::From<GenericArray<$0,<typenum::Const<$1>>::IntoArrayLength::ArrayLength>>>::from", "GenericArray::<T, N>::into_array", "val"),
]
BORROWS = [
    "<GenericArray<$0,$1> as core::borrow::Borrow<[$0]>>::borrow",
    "<GenericArray<$0,$1> as core::borrow::BorrowMut<[$0]>>::borrow_mut",
    "<GenericArray<$0,$1> as core::convert::AsRef<[$0]>>::as_ref",
    "<GenericArray<$0,$1> as core::convert::AsMut<[$0]>>::as_mut",
]
CAL = "<typenum::Const<$1>>::IntoArrayLength::ArrayLength"
ARRAY_REFS = [
    "<&GenericArray<$0,%s> as core::convert::From<&[$0;$1]>>::from" % CAL,
    "<&mut GenericArray<$0,%s> as core::convert::From<&mut [$0;$1]>>::from" % CAL,
]
ARRAY_TRANSMUTES = [
    "<GenericArray<$0,%s> as core::convert::AsRef<[$0;$1]>>::as_ref" % CAL,
    "<GenericArray<$0,%s> as core::convert::AsMut<[$0;$1]>>::as_mut" % CAL,
]
LIFETIME_FNS = [K + n for n in ("as_slice", "as_mut_slice", "from_slice", "try_from_slice", "from_mut_slice", "try_from_mut_slice")] + \
    [d[0] for d in DELEGATES[:2]] + ["<&GenericArray<$0,$1> as core::convert::TryFrom<&[$0]>>::try_from", "<&mut GenericArray<$0,$1> as core::convert::TryFrom<&mut [$0]>>::try_from"] + BORROWS + [
        "<GenericArray<$0,$1> as core::ops::Deref>::deref", "<GenericArray<$0,$1> as core::ops::DerefMut>::deref_mut"]


def exact_extent(a, d):
    """Reborrow site d: pointer at offset 0 whose pointee size equals the extent of its base. Returns status, detail."""
    v = d["ptr"]
    if v[0] != "P":
        return UNKNOWN, "pointer value not tracked"
    ext = a.base_extent(v[1])
    if ext is None:
        return UNKNOWN, "extent of base %s unknown" % (vstr(v[1]),)
    need = a.tenv.size(d["pointee"])
    pf = a.poly_facts(d["facts"])
    from ..poly import prove
    ok_off = prove(("==", v[2]), pf)
    ok_ext = prove(("==", need - ext), pf)
    det = "reborrow as %s: offset %r, target extent %r, source extent %r, facts %s" % (tstr(d["pointee"]), v[2], need, ext, fstr(d["facts"]))
    if ok_off and ok_ext:
        return PROVED, det
    return REFUTED, "exact length NOT implied by the dominating guards; " + det


def slice_derived(a, d):
    v = d["ptr"]
    if v[0] != "P" or v[1][0] != "arg":
        return False
    pt = pointee(a.local_ty(v[1][1]))
    return pt is not None and pt.get("k") == "slice"


REF_CONVERSIONS = [
    # (key, kind of source, exits that may reject)
    (K + "from_slice", "slice", "panic"), (K + "try_from_slice", "slice", "err"),
    (K + "from_mut_slice", "slice", "panic"), (K_TRY_MUT, "slice", "err"),
    ("<&GenericArray<$0,$1> as core::convert::TryFrom<&[$0]>>::try_from", "slice", "err"),
    ("<&mut GenericArray<$0,$1> as core::convert::TryFrom<&mut [$0]>>::try_from", "slice", "err"),
]


def ok_payload_ty(t):
    if t is not None and t.get("k") == "adt" and t["def"] == "core::result::Result":
        return [x for x in t["args"] if x.get("k") != "region"][0]
    return t


def check_guards(ctx, cfg):
    """Reference conversions slice -> array, judged per path on the body with every crate-local callee expanded (so a constructor that
    delegates to another one, or to a private helper, is the code it runs) and the loop-free part tree-shaped (one verdict per exit)."""
    rule = "C02.G"
    n = 0
    from ..poly import prove
    known = set()
    for key, kind, rej in REF_CONVERSIONS:
        b = ctx.body(cfg, key, rule)
        if b is None:
            continue
        known.add(key)
        a = ctx.analysis_inl(cfg, key, split=True, force="*", tag="conv")
        rt = ok_payload_ty(a.local_ty(0))
        tgt = pointee(rt) if rt is not None else None
        N = a.tenv.length(adt_args(strip_wrappers(tgt))[1]) if tgt is not None and is_ga(strip_wrappers(tgt)) else None
        ln = Poly.atom(("len", ("arg", 1)))
        need = a.tenv.size(tgt) if tgt is not None else None
        ext = a.base_extent(("arg", 1))
        # success values: Ok payloads and plain pointer returns
        succ = []
        for g in a.aggregates:
            k = g["kind"]
            if isinstance(k, tuple) and k[0] == "adt" and k[1] == "core::result::Result" and k[2] == 0 and g["ops"] and g["ops"][0][0] == "P":
                succ.append((g["ops"][0], g["facts"]))
        if rej == "panic":
            succ += [(r["val"], r["facts"]) for r in a.returns]
        alias = bool(succ) and all(v[0] == "P" and v[1] == ("arg", 1) and not v[2].t for v, _ in succ)
        ctx.ob("C02.A", key, alias, "success value(s): " + ", ".join(sorted({vstr(v) for v, _ in succ})) + " (must be the source slice's own address: aliasing, no copy)", at=b["at"], cfg=cfg)
        exact = bool(succ) and need is not None and ext is not None and all(prove(("==", need - ext), a.poly_facts(f)) for _, f in succ)
        ctx.ob(rule, key + "#exact", exact, "every success exit is reached only with source extent %r == target extent %r (len == N exactly): %s" % (ext, need, exact), at=b["at"], cfg=cfg)
        n += 1
        # every reborrow of the slice's pointer as an array inside the expanded body has the exact extent at that point
        for i, d in enumerate([d for d in a.derefs if slice_derived(a, d) and is_ga(strip_wrappers(d["pointee"]))]):
            st, det = exact_extent(a, d)
            if st != PROVED:
                ctx.ob(rule, "%s#reborrow" % key, st, det, at=b["at"], cfg=cfg)
        # rejecting exits only under len != N
        sites = []
        for g in a.aggregates:
            k = g["kind"]
            if isinstance(k, tuple) and k[0] == "adt" and k[1] == "core::result::Result" and k[2] == 1:
                sites.append(("Err", g["facts"]))
        for c in a.calls:
            if c.fn.startswith("core::panicking::") or c.key in ("from_iter_length_fail",) or (c.term.get("target") is None and not c.fn.startswith("core::hint::")):
                sites.append(("panic", c.facts))
        if not sites:
            ctx.ob("C02.R", key, MISSING, "no rejecting exit (LengthError / panic) found", at=b["at"], cfg=cfg)
        bad = sorted({"%s exit reached under %s" % (w, fstr(f)) for w, f in sites if not (N is not None and a.prove(f, "Ne", ln, N))})
        if sites:
            ctx.ob("C02.R", key + "#rejects", not bad, "%d rejecting exit(s), each required to be reached only under len != N; violating: %s" % (len(sites), bad or "none"), at=b["at"], cfg=cfg)
        if rej == "err":
            from ..rules import reachable_panics
            pan = reachable_panics(a)
            ctx.ob("C02.R", key + "#no_panic", not pan, "the fallible form has no panicking exit (no explicit panic or compiler-inserted check that can fail, no std call whose panic condition is not excluded): %s" % ((not pan) or pan), at=b["at"], cfg=cfg)
        ctx.sample({"rule": rule, "fn": key, "cfg": cfg, "success": [vstr(v) for v, _ in succ][:3], "inlined": [x["callee"] for x in a.body.get("inlined", [])]})
    ctx.floor(rule, "slice-to-array reference conversions (%s)" % cfg, n, 4)
    # generic sweep: any other slice-derived reborrow as GenericArray anywhere in the crate
    db = ctx.db(cfg)
    for body in db.bodies:
        if body["key"] in known or body["kind"] not in ("Fn", "AssocFn", "Closure") or ctx.is_helper(cfg, body):
            continue
        if not any(s.get("k") == "assign" and s["rv"].get("k") == "cast" and s["rv"]["ck"] == "PtrToPtr" for blk in body["mir"]["blocks"] for s in blk["stmts"]):
            continue
        a = ctx.analysis(cfg, body["key"])
        for i, d in enumerate(a.derefs):
            if slice_derived(a, d) and is_ga(strip_wrappers(d["pointee"])) and d.get("ref"):
                # chunk functions reborrow nothing as a single array; a hit here is a new reinterpretation site
                st, det = exact_extent(a, d)
                if st != PROVED:
                    # not one of the conversions of the whole slice (those are anchored above and must be exact): a NEW function that views a part of
                    # a slice as an array (a `first_chunk`-style prefix) reinterprets nothing but that part - what it owes is that the part lies inside
                    # the slice: 0 <= offset and offset + N * size_of::<T>() <= len * size_of::<T>() under the guards that dominate the reborrow
                    v_ = d["ptr"]
                    need_ = a.tenv.size(d["pointee"])
                    ext_ = a.base_extent(v_[1]) if v_[0] == "P" else None
                    pf_ = a.poly_facts(d["facts"])
                    if ext_ is not None and prove((">=", v_[2]), pf_) and prove((">=", ext_ - v_[2] - need_), pf_):
                        st, det = PROVED, "a view of a part of the slice (not a conversion of the whole slice): the part lies inside the slice under the dominating guards; " + det
                ctx.ob("C02.G.sweep", "%s#reborrow#%d" % (body["key"], i), st, det, at=body["at"], cfg=cfg, frozen=False)


def success_values(a):
    """Values returned on the non-error paths: direct pointer returns and Ok(..) payloads."""
    out = []
    for g in a.aggregates:
        k = g["kind"]
        if isinstance(k, tuple) and k[0] == "adt" and k[1] == "core::result::Result" and k[2] == 0:
            out.append(g["ops"][0])
    if not out:
        for r in a.returns:
            out.append(r["val"])
    return out


def check_reject_exits(ctx, cfg, a, b, key):
    """Every LengthError construction and every panic is reached only under len != N."""
    rule = "C02.R"
    n = a.tenv.length({"k": "param", "n": b["generics"][1]["n"]}) if len(b["generics"]) > 1 else None
    ln = Poly.atom(("len", ("arg", 1)))
    sites = []
    for g in a.aggregates:
        k = g["kind"]
        if isinstance(k, tuple) and k[0] == "adt" and k[1] == "core::result::Result" and k[2] == 1:
            sites.append(("Err", g["facts"]))
    for c in a.calls:
        if c.fn.startswith("core::panicking::"):
            sites.append(("panic", c.facts))
    if not sites:
        ctx.ob(rule, key, MISSING, "no rejecting exit (LengthError / panic) found", at=b["at"], cfg=cfg)
        return
    for i, (what, facts) in enumerate(sites):
        ok = a.prove(facts, "Ne", ln, n)
        ctx.ob(rule, "%s#%s#%d" % (key, what, i), PROVED if ok else REFUTED,
               "%s exit reached under %s; required: len != N" % (what, fstr(facts)), at=b["at"], cfg=cfg)


def check_type_level(ctx, cfg):
    rule = "C02.T"
    from ..poly import prove
    # from_array / into_array: const_transmute between equal symbolic sizes
    # from_array / into_array: by byte provenance - the result is exactly the bytes of the argument (sizes equal under the where-clause
    # Const<U>: IntoArrayLength<ArrayLength = N>), the argument is moved and never dropped afterwards, no foreign call runs
    from .c09 import provenance_rule
    for key in (K + "from_array", K + "into_array"):
        provenance_rule(ctx, cfg, key, lambda a, S, N: [[(a.tenv.size(a.local_ty(1)), ("arg", 1), Poly.const(0))]], rule=rule)
    # reference reinterpretations between GenericArray<T, N> and the native array [T; U]: discovered from the impls (AsRef / AsMut<[T; U]> for
    # GenericArray, From<&[T; U]> / From<&mut [T; U]> for &GenericArray), not anchored by key - an impl restated with other generics is the same obligation
    db = ctx.db(cfg)
    found = []
    for bd in db.bodies:
        if bd["kind"] != "AssocFn" or bd.get("impl_trait") not in ("core::convert::AsRef", "core::convert::AsMut", "core::convert::From"):
            continue
        st = bd.get("impl_self")
        targs = [x for x in bd.get("impl_trait_args", []) if x.get("k") != "region"]
        tp = targs[1] if len(targs) > 1 else None
        if st is None or tp is None:
            continue

        def is_arr(t):
            return t is not None and t.get("k") == "array"
        if bd["impl_trait"] in ("core::convert::AsRef", "core::convert::AsMut") and is_ga(st) and is_arr(tp):
            found.append(bd["key"])
        elif bd["impl_trait"] == "core::convert::From" and st.get("k") == "ref" and is_ga(st["t"]) and tp.get("k") == "ref" and is_arr(tp["t"]):
            found.append(bd["key"])
    ctx.floor(rule, "GenericArray <-> native array reference conversions (%s)" % cfg, len(found), 4)
    for key in found:
        b = db.get(key)
        a = ctx.analysis_inl(cfg, key, split=True, force="*", tag="conv")
        src = pointee(a.local_ty(1))
        dst = pointee(a.local_ty(0))
        ok_sz = src is not None and dst is not None and prove(("==", a.tenv.size(src) - a.tenv.size(dst)), a.poly_facts(frozenset()))
        same = bool(a.returns) and all(r["val"][0] == "P" and r["val"][1] == ("arg", 1) and not r["val"][2].t for r in a.returns)
        mut = a.local_ty(1).get("mut") == a.local_ty(0).get("mut")
        eff = [c.fn for c in payload_calls(a) if not a.is_pure(c) and not getattr(c, "no_effects", False)]
        ctx.ob(rule, key, ok_sz and not eff, "reinterpretation &%s -> &%s: equal symbolic sizes under the where-clauses: %s; no effectful call: %s" % (tstr(src) if src else "?", tstr(dst) if dst else "?", ok_sz, not eff), at=b["at"], cfg=cfg)
        ctx.ob("C02.A", key, same and mut, "returns the source's own address (offset 0): %s; same mutability: %s" % (same, mut), at=b["at"], cfg=cfg)


def check_delegates(ctx, cfg):
    rule = "C02.D"
    for key in BORROWS:
        b = ctx.body(cfg, key, rule)
        if b is None:
            continue
        a = ctx.analysis(cfg, key)
        ln = self_len(a)
        ok = bool(a.returns) and all(is_full_view(r["val"], ("arg", 1), ln) for r in a.returns)
        ctx.ob(rule, key, ok, "returns " + ", ".join(vstr(r["val"]) for r in a.returns), at=b["at"], cfg=cfg)
    # the by-value conversions between `[T; U]` and the array are found by the shape of their impl headers (From with a GenericArray on one
    # side and a native array on the other), not by key: how the header spells the length tie - `GenericArray<T, ConstArrayLength<U>>` or
    # `GenericArray<T, N> where Const<U>: IntoArrayLength<ArrayLength = N>` - is the same impl (the tie itself: C02.T / C12.W)
    dels = list(DELEGATES[:2])
    db_ = ctx.db(cfg)
    found_ = {"to": 0, "from": 0}
    for imp in db_.impls:
        if imp.get("trait") != "core::convert::From":
            continue
        oth = [x for x in imp.get("trait_args", [])[1:] if isinstance(x, dict) and x.get("k") != "region"]
        if not oth:
            continue
        if is_ga(imp["self"]) and oth[0].get("k") == "array":
            dels.append((db_.impl_key(imp) + "::from", "GenericArray::<T, N>::from_array", "val"))
            found_["to"] += 1
        elif imp["self"].get("k") == "array" and is_ga(oth[0]):
            dels.append((db_.impl_key(imp) + "::from", "GenericArray::<T, N>::into_array", "val"))
            found_["from"] += 1
    ctx.ob(rule, "by-value native-array conversions (%s)" % cfg, found_["to"] >= 1 and found_["from"] >= 1, "From<[T; U]> for GenericArray impls: %d; From<GenericArray> for [T; U] impls: %d" % (found_["to"], found_["from"]), cfg=cfg)
    for key, callee, mode in dels:
        b = ctx.body(cfg, key, rule)
        if b is None:
            continue
        a = ctx.analysis(cfg, key)
        pc = payload_calls(a)
        if len(pc) != 1 or pc[0].fn != callee:
            ctx.ob(rule, key, REFUTED if pc else UNKNOWN, "expected exactly one call to %s; found %s" % (callee, [c.fn for c in pc]), at=b["at"], cfg=cfg)
            continue
        c = pc[0]
        if mode == "view":
            ln = self_len(a)
            okarg = is_full_view(c.args[0], ("arg", 1), ln)
        elif mode == "arg":
            okarg = c.args[0][0] == "P" and c.args[0][1] == ("arg", 1) and not c.args[0][2].t and c.args[0][3] == Poly.atom(("len", ("arg", 1)))
        else:
            okarg = c.args[0] == ("V", "arg", 1)
        okret = bool(a.returns) and all(r["val"] == c.ret for r in a.returns)
        ctx.ob(rule, key, okarg and okret, "%s(%s) -> returned unchanged: %s" % (callee, vstr(c.args[0]), okret), at=b["at"], cfg=cfg)


def literal_len(a, ty):
    p = a.tenv.length(ty)
    return p.const_value() if p.is_const() else None


def is_whole_array_conversion(c, to_ga):
    """The crate's by-value conversions between `[T; k]` and `GenericArray<T, U<k>>` (C02.T judges their bodies): the const fns from_array /
    into_array, or the `From` impls for native arrays reached through `From::from` / `Into::into` (std's blanket `Into` is `U::from(self)`)."""
    if c.fn == ("GenericArray::<T, N>::from_array" if to_ga else "GenericArray::<T, N>::into_array"):
        return True
    ta = [t for t in (c.targs or []) if t.get("k") != "region"]
    if c.fn == "core::convert::From::from" and len(ta) >= 2:
        dst, src = ta[0], ta[1]
    elif c.fn == "core::convert::Into::into" and len(ta) >= 2:
        src, dst = ta[0], ta[1]
    else:
        return False
    arr, ga = (src, dst) if to_ga else (dst, src)
    return arr.get("k") == "array" and is_ga(ga) and tstr(arr.get("t")) == tstr(adt_args(ga)[0])


def check_tuples(ctx, cfg):
    rule = "C02.P"
    db = ctx.db(cfg)
    n = 0
    for b in db.bodies:
        if b.get("impl_trait") != "core::convert::From" or b["kind"] != "AssocFn":
            continue
        st = b["impl_self"]
        targs = [x for x in b["impl_trait_args"] if x.get("k") != "region"]
        src = targs[1]
        if is_ga(st) and src.get("k") == "tuple" and src["ts"]:
            a = ctx.analysis(cfg, b["key"])
            arity = len(src["ts"])
            want_len = literal_len(a, adt_args(st)[1])
            pc = payload_calls(a)
            ok = False
            det = ""
            if len(pc) == 1 and is_whole_array_conversion(pc[0], to_ga=True) and pc[0].args[0][0] == "A" and pc[0].args[0][1] == "array":
                ops = pc[0].args[0][2]
                good = [ops[i] == ("V", "proj", ("proj", ("V", "arg", 1), (i,))) for i in range(len(ops))]
                ok = len(ops) == arity == want_len and all(good) and all(r["val"] == pc[0].ret for r in a.returns)
                det = "array operands %s from tuple fields in order: %s; arity %d, length literal %s" % (len(ops), all(good), arity, want_len)
            else:
                det = "expected from_array([t.0, t.1, ...]); found %s" % [c.fn for c in pc]
            ctx.ob(rule, b["key"], ok, det, at=b["at"], cfg=cfg)
            n += 1
        elif st.get("k") == "tuple" and st["ts"] and is_ga(src):
            a = ctx.analysis(cfg, b["key"])
            arity = len(st["ts"])
            want_len = literal_len(a, adt_args(src)[1])
            pc = payload_calls(a)
            ok = False
            if len(pc) == 1 and is_whole_array_conversion(pc[0], to_ga=False) and pc[0].args[0] == ("V", "arg", 1):
                ret = pc[0].ret
                rv = [r["val"] for r in a.returns]
                ok = bool(rv) and all(v[0] == "A" and v[1] == "tuple" and len(v[2]) == arity == want_len and
                                      all(v[2][i] == ("V", "proj", ("proj", ret, (i,))) for i in range(arity)) for v in rv)
                det = "tuple fields are elements 0..%d of into_array(self) in order: %s; length literal %s" % (arity, ok, want_len)
            else:
                det = "expected into_array(self) destructured in order; found %s" % [c.fn for c in pc]
            ctx.ob(rule, b["key"], ok, det, at=b["at"], cfg=cfg)
            n += 1
    ctx.floor(rule, "tuple conversion impls (%s)" % cfg, n, 24)


def check_lifetimes(ctx, cfg):
    rule = "C02.M"
    db = ctx.db(cfg)
    n = 0
    for key in LIFETIME_FNS:
        b = ctx.body(cfg, key, rule)
        if b is None:
            continue
        st, det = lifetime_linkage(db, b)
        if st is None:
            ctx.ob(rule, key, UNKNOWN, det, at=b["at"], cfg=cfg)
        else:
            ctx.ob(rule, key, st, det, at=b["at"], cfg=cfg)
        n += 1
    ctx.floor(rule, "reference-returning signatures (%s)" % cfg, n, len(LIFETIME_FNS))


def check(ctx):
    ctx.explanation = EXPLANATION
    ctx.trusted = ["rustc type/borrow checker and MIR construction", "core::slice::from_raw_parts / pointer cast semantics",
                   "C01 (size_of GenericArray<X, L> = L * size_of X) for symbolic sizes"]
    ctx.assumptions = ["usize arithmetic on element counts does not wrap (quantities count elements of existing objects)"]
    cfgs = ["F0", "F1", "F1N"] if ctx.tier == "quick" else ["F0", "F1", "F1N", "F2", "F0N", "F2N"]
    ctx.need(*cfgs)
    for cfg in cfgs:
        check_views(ctx, cfg)
        check_guards(ctx, cfg)
        check_type_level(ctx, cfg)
        check_delegates(ctx, cfg)
        check_tuples(ctx, cfg)
        check_lifetimes(ctx, cfg)
        # C02.M: the mutable views write through to the storage only if their pointers carry write permission (derived from `&mut` all the way)
        from ..rules import check_write_permission
        check_write_permission(ctx, cfg, "C02.M")
