"""C08 - generate/map/zip/fold/clone/default apply the function once per index, in order, for every receiver form."""

from ..core import PROVED, REFUTED, UNKNOWN, MISSING
from ..poly import Poly
from ..models import verify_models
from ..ownership import find_in, owner_adts, local_adt
from ..rules import vstr, fstr, payload_calls, peq, check_views
from ..typestate import Classifier
from ..tys import tstr, adt_args, is_ga

EXPLANATION = (
    "Pipeline-shape rules on the MIR (F0+F1). Parametricity (free, from rustc) fixes that a U can only come out of f, f's first argument can only come from the left operand and a result can "
    "only go into the output; what types do not fix - which index, how often, in which order - is decided here by matching the abstractly interpreted iterator pipeline term of each body against its "
    "specification: C08.G generate (stack and boxed) is for_each(enumerate(iter_mut over the builder's WHOLE array)) with a closure that calls F exactly once with the enumerate index and writes its "
    "result into the paired slot; C08.M map / fold are from_iter(map(iter over the consumer's whole array, cl)) / fold(iter, init, cl) with a closure calling f exactly once on the value read from the iterated slot "
    "(acc first for fold); C08.Z every zip body pairs two forward, full traversals by ONE zip and calls f exactly once per pair with (element of lhs, element of self), and zip dispatches to inverted_zip / inverted_zip2 with "
    "(rhs, self, f); C08.R reference receivers forward generate to the owned type and the &S / &mut S / Box receivers use the trait-default map/fold/zip bodies (no override), whose pipelines are from_iter(map(into_iter(self), f)) "
    "and fold(into_iter(self), init, f), with IntoIterator for &GA / &mut GA being the full forward slice iterators; C08.D Default = generate(|_| T::default()), Clone = map(&self, Clone::clone). Any reordering or "
    "skipping adaptor (rev, skip, step_by, take, chain, filter, ...) anywhere in these pipelines is a violation.")

BAD = {"rev", "skip", "take", "step_by", "chain", "filter", "skip_while", "take_while", "peekable", "cycle", "flat_map", "flatten", "filter_map", "scan", "inspect", "fuse", "by_ref", "cloned", "copied"}
GS = "<GenericArray<$0,$1> as GenericSequence<$0>>::"
# `pipeline.collect()` is `FromIterator::from_iter(pipeline)` (the provided body of Iterator::collect): one name for the rules
COLLECT = ("core::iter::FromIterator::from_iter", "core::iter::Iterator::collect")
FS = "<GenericArray<$0,$1> as FunctionalSequence<$0>>::"


def bad_adaptors(t):
    return [x[2] for x in find_in(t, lambda z: isinstance(z, tuple) and len(z) >= 3 and z[0] == "V" and z[1] == "iter" and z[2] in BAD)]


def full_slice(an, facts, t, N, base_pred=None):
    if N is None and isinstance(t, tuple) and len(t) == 5 and t[:3] == ("V", "iter", "slice"):
        # generic Self (trait-default body): "full" is relative to the declared length of the local that holds the array
        bse = t[3][1]
        loc = bse[1][1] if bse[0] == "field" and bse[1][0] == "local" else (bse[1] if bse[0] == "local" else None)
        if loc is not None:
            lt = an.local_ty(loc)
            while lt.get("k") == "adt" and lt["def"] in ("core::mem::ManuallyDrop",):
                lt = adt_args(lt)[0]
            if lt.get("k") == "adt":
                N = an.tenv.length(adt_args(lt)[-1])
    if N is None:
        return False
    return (isinstance(t, tuple) and len(t) == 5 and t[:3] == ("V", "iter", "slice") and t[3][3] is not None
            and peq(an, facts, t[3][2], Poly.const(0)) and peq(an, facts, t[3][3], N) and (base_pred is None or base_pred(t[3][1])))


def count_on_paths(an, pred):
    """Set of possible numbers of calls satisfying pred on a path from entry to a return (None if the CFG has a cycle through such a call)."""
    memo = {}
    blocks = an.blocks
    calls_by_bb = {}
    for c in an.calls:
        if pred(c):
            calls_by_bb[c.bb] = calls_by_bb.get(c.bb, 0) + 1

    def go(bb, stack):
        if bb in stack:
            return None
        if bb in memo:
            return memo[bb]
        here = calls_by_bb.get(bb, 0)
        t = blocks[bb]["term"]
        if t["k"] == "return":
            memo[bb] = {here}
            return memo[bb]
        out = set()
        succs = [s for s in an.edges.get(bb, []) if not blocks[s]["cleanup"]]
        if not succs:
            memo[bb] = set()  # diverges
            return memo[bb]
        for s in succs:
            r = go(s, stack | {bb})
            if r is None:
                return None
            out |= {here + x for x in r}
        memo[bb] = out
        return out
    return go(0, frozenset())


def closure_body(ctx, cfg, cv):
    if not (isinstance(cv, tuple) and cv[0] == "A" and isinstance(cv[1], tuple) and cv[1][0] == "closure"):
        return None, None
    cb = ctx.db(cfg).by_path.get(cv[1][1])
    if cb is None:
        return None, None
    return cb, ctx.analysis(cfg, cb["key"])


def slot_val(i=None):
    """Value of the closure's item parameter (arg 2), or of its tuple field i."""
    if i is None:
        return ("V", "arg", 2)
    return ("V", "proj", ("proj", ("V", "arg", 2), (i,)))


def read_of(ca, src):
    """The value obtained by ptr::read of the slot reference `src` (None if there is not exactly one such read)."""
    base = ("arg", 2) if src == ("V", "arg", 2) else ("obj", ("proj", src[2])) if src[0] == "V" else None
    rs = [c for c in ca.calls if c.fn == "core::ptr::read" and c.args[0][0] == "P" and c.args[0][1] == base and not c.args[0][2].t]
    return rs[0].ret if len(rs) == 1 else None


def check_f_call(ca, want_args):
    """f is called exactly once on every path, with exactly want_args, and its result is the closure's result."""
    calls = [c for c in ca.calls if c.fn == "core::ops::FnMut::call_mut"]
    cnt = count_on_paths(ca, lambda c: c.fn == "core::ops::FnMut::call_mut")
    once = cnt == {1}
    args_ok = len(calls) == 1 and calls[0].args[1] == ("A", "tuple", tuple(want_args))
    return once, args_ok, (calls[0] if calls else None)


def check_generate(ctx, cfg, key, boxed, rule="C08.G"):
    b = ctx.db(cfg).get(key)
    if b is None:
        if not boxed:
            ctx.ob(rule, key, MISSING, "generate not found", cfg=cfg)
        return 0
    an = ctx.analysis(cfg, key)
    owners = owner_adts(ctx.db(cfg))
    N = an.tenv.length([x for x in (b["impl_self"]["args"] if not boxed else adt_args(b["impl_self"])[0]["args"]) if x.get("k") != "region"][-1])
    from ..ownership import never_breaks, resolved_args
    fe = [c for c in an.calls if c.fn in ("core::iter::Iterator::for_each", "core::iter::Iterator::fold", "core::iter::Iterator::try_for_each")]
    # `try_for_each` whose residual is uninhabited (Result<(), Infallible>) visits every item exactly like for_each
    ok = len(fe) == 1 and (fe[0].fn == "core::iter::Iterator::for_each" or (fe[0].fn == "core::iter::Iterator::try_for_each" and never_breaks(fe[0])))
    det = "expected exactly one for_each over the destination; found %s" % [c.fn for c in fe]
    ext = [c for c in an.calls if c.key in ("IntrusiveArrayBuilder<$0,$1>::extend", "ArrayBuilder<$0,$1>::extend")]
    if not fe and len(ext) == 1:
        # generate = builder.extend((0..N).map(f)): extend zips the builder's slots (receiver, polled first) with the source and stores the k-th item
        # into slot k (C07.Z); the k-th item of map(0..N, f) is f(k), evaluated when slot k is reached; exactly N items, so f runs N times in index order
        e = ext[0]
        src = e.args[1]
        blds = [i for i in range(len(an.locals)) if local_adt(an, i) in owners]
        recv = e.args[0][0] == "P" and e.args[0][1][0] == "local" and e.args[0][1][1] in blds and not e.args[0][2].t
        shape = isinstance(src, tuple) and len(src) == 5 and src[:3] == ("V", "iter", "map")
        rng = shape and isinstance(src[3], tuple) and len(src[3]) == 3 and src[3][0] == "A" and isinstance(src[3][1], tuple) and src[3][1][:2] == ("adt", "core::ops::Range") \
            and src[3][2][0] == ("I", Poly.const(0)) and src[3][2][1] == ("I", N)
        # the mapping function is the generator itself (by value or by &mut): map calls it once per item with the item
        fpar = shape and (src[4] == ("V", "arg", 1) or (src[4][0] == "P" and src[4][1] == ("local", 1) and not src[4][2].t) or (src[4][0] == "P" and src[4][1] == ("arg", 1) and not src[4][2].t))
        fresh = recv and e.mem.get((("local", e.args[0][1][1]), ())) is not None and e.mem[(("local", e.args[0][1][1]), ())][0] == "A" and \
            any(x == ("I", Poly.const(0)) for x in e.mem[(("local", e.args[0][1][1]), ())][2])
        ok = bool(recv and shape and rng and fpar and fresh)
        det = "generate = builder.extend(map(0..N, F)): receiver is a fresh tracked builder: %s/%s; source is map over exactly 0..N: %s; the mapping function is the generator F itself: %s (slot k <- F(k) by C07.Z)" % (recv, fresh, rng, fpar)
    elif not fe:
        ok, det = generate_loop_form(an, owners, N)
    elif ok:
        pipe, cv = resolved_args(an, fe[0])[0], fe[0].args[1]
        # the index paired with slot k is k: `slots.enumerate()` or, equivalently, `(0..N).zip(slots)` (k-th item of 0..N is k)
        if isinstance(pipe, tuple) and len(pipe) == 5 and pipe[:3] == ("V", "iter", "zip") and isinstance(pipe[3], tuple) and len(pipe[3]) == 3 and pipe[3][0] == "A" \
                and isinstance(pipe[3][1], tuple) and pipe[3][1][:2] == ("adt", "core::ops::Range") and pipe[3][2][0] == ("I", Poly.const(0)) and pipe[3][2][1] == ("I", N):
            pipe = ("V", "iter", "enumerate", pipe[4])
        shape = isinstance(pipe, tuple) and len(pipe) == 4 and pipe[:3] == ("V", "iter", "enumerate")
        # destination = the builder's whole array
        blds = [i for i in range(len(an.locals)) if local_adt(an, i) in owners]
        arr_ok = False
        if shape:
            for i in blds:
                o = owners[local_adt(an, i)]
                whole = fe[0].mem.get((("local", i), ()))
                arrp = whole[2][o["array"]] if whole is not None and whole[0] == "A" else None
                if arrp is not None and arrp[0] == "P" and full_slice(an, fe[0].facts, pipe[3], N, lambda bse: bse == arrp[1]) and pipe[3][4] is True:
                    arr_ok = True
        cb, ca = closure_body(ctx, cfg, cv)
        c_ok = False
        cdet = "closure not found"
        if ca is not None:
            idx = ("I", Poly.atom(("proj", ("proj", ("V", "arg", 2), (0,)))))
            once, args_ok, call = check_f_call(ca, [idx])
            ws = [c for c in ca.calls if c.fn in ("core::mem::MaybeUninit::<T>::write", "core::ptr::write")]
            w_ok = len(ws) == 1 and call is not None and ws[0].args[1] == call.ret and ws[0].args[0][0] == "P" and ws[0].args[0][1] == ("obj", ("proj", ("proj", ("V", "arg", 2), (1,)))) and not ws[0].args[0][2].t
            # f is the captured generator (first upvar that is a pointer to the F parameter)
            c_ok = once and args_ok and w_ok
            cdet = "closure calls F exactly once: %s, with the enumerate index: %s, and writes the result into the paired slot: %s" % (once, args_ok, w_ok)
        ok = shape and arr_ok and c_ok and not bad_adaptors(pipe)
        det = "for_each(enumerate(iter_mut over the builder's whole array [0, N))): %s/%s; no reordering adaptor: %s; %s" % (shape, arr_ok, not bad_adaptors(pipe), cdet)
    # completeness: the judged traversal is what every call of generate runs - each return is reached only through its driver, or on a path whose
    # facts say there is no index to visit (N == 0). An early return under any other condition (a zero-SIZED array is not a zero-LENGTH one)
    # skips calls of F that the statement promises
    drv_bb = None
    if len(fe) == 1:
        drv_bb = fe[0].bb
    elif not fe and len(ext) == 1:
        drv_bb = ext[0].bb
    elif not fe:
        from ..loops import find_loops
        lps_ = [lp for lp in find_loops(an) if lp.slot_ptrs()]
        drv_bb = lps_[0].nxt.bb if len(lps_) == 1 else None
    if ok and drv_bb is not None:
        # paths from the entry to a return that avoid the driver, each with the facts of its own edges (a merged return block forgets them)
        rets = {r["bb"] for r in an.returns}
        skipped, npaths = [], [0]

        def walk(bb, facts, seen):
            if npaths[0] > 4000 or skipped:
                return
            if bb in rets:
                npaths[0] += 1
                if not an.prove(facts, "Eq", N, Poly.const(0)):
                    skipped.append(facts)
                return
            for s2 in an.edges.get(bb, []):
                if s2 == drv_bb or s2 in seen or an.blocks[s2]["cleanup"]:
                    continue
                fs_ = an.edge_facts.get((bb, s2)) or [frozenset()]
                for f_ in fs_:
                    walk(s2, facts | set(f_), seen | {s2})
        if drv_bb != 0:
            walk(0, set(), {0})
        if skipped or npaths[0] > 4000:
            ok = False
            det += "; but a return is reached without passing the traversal although N == 0 is not known on that path (facts %s): F is not called for every index" % (fstr(skipped[0]) if skipped else "path enumeration cut off")
        else:
            det += "; every return passes the traversal (or N == 0 is known on its path; %d such path(s))" % npaths[0]
    ctx.ob(rule, key, ok, det, at=b["at"], cfg=cfg)
    ctx.sample({"rule": rule, "fn": key, "cfg": cfg, "detail": det})
    return 1


def builder_array_ptrs(an, cs, owners):
    out = []
    for i in range(len(an.locals)):
        if local_adt(an, i) in owners:
            o = owners[local_adt(an, i)]
            whole = cs.mem.get((("local", i), ()))
            arrp = whole[2][o["array"]] if whole is not None and whole[0] == "A" else None
            if arrp is not None and arrp[0] == "P":
                out.append(arrp)
    return out


def generate_loop_form(an, owners, N):
    """generate written as an explicit loop: `for (i, dst) in iter_mut(whole builder array).enumerate() { dst.write(f(i)); .. }`."""
    from ..loops import find_loops
    lps = [lp for lp in find_loops(an) if lp.slot_ptrs()]
    if len(lps) != 1:
        return False, "neither one for_each nor one loop over the destination found (loops over storage: %d)" % len(lps)
    lp = lps[0]
    pipe = lp.pipe
    shape = isinstance(pipe, tuple) and len(pipe) == 4 and pipe[:3] == ("V", "iter", "enumerate") and not lp.backward
    arr_ok = shape and any(full_slice(an, lp.nxt.facts, pipe[3], N, lambda bse, a_=arrp: bse == a_[1]) and pipe[3][4] is True for arrp in builder_array_ptrs(an, lp.nxt, owners))
    fcalls = [c for c in lp.calls() if c.fn == "core::ops::FnMut::call_mut"]
    once = lp.count_on_paths(lambda c: c.fn == "core::ops::FnMut::call_mut") == {1}
    idx = lp.index_val()
    args_ok = len(fcalls) == 1 and idx is not None and fcalls[0].args[1] == ("A", "tuple", (idx,))
    if not shape and isinstance(pipe, tuple) and len(pipe) == 5 and pipe[:3] == ("V", "iter", "slice") and not lp.backward and len(fcalls) == 1:
        # the slots iterated directly, the index kept by hand: f is given the current value of a step counter - a cell (a local, or the builder's
        # own position) that is 0 whenever the loop is entered and is raised by exactly one in every step, so in step k it holds k
        from ..loops import initial_cell_value
        from ..absint import State
        arg = fcalls[0].args[1]
        cnt = arg[2][0] if arg[0] == "A" and arg[1] == "tuple" and len(arg[2]) == 1 and arg[2][0][0] == "I" else None
        counter = None
        if cnt is not None:
            for s_ in an.assigns + an.stores:
                if s_["site"][0] in lp.blocks and s_["val"][0] == "I" and s_["val"][1] == cnt[1] + Poly.const(1):
                    cell = s_["cell"]
                    head = an.read_cell(State(lp.nxt.mem, lp.nxt.facts), cell[0], cell[1], {"k": "prim", "n": "usize"})
                    sites = {x["site"] for x in an.assigns + an.stores if x["cell"] == cell and x["site"][0] in lp.blocks}
                    per_step = lp.count_on_paths(lambda c: False) is not None and len(sites) == 1
                    if head == cnt and per_step and initial_cell_value(an, lp, cell[0], cell[1]) == Poly.const(0) and an.dominates(fcalls[0].bb, s_["site"][0]):
                        counter = cell
        shape = counter is not None
        pipe = ("V", "iter", "enumerate", pipe)   # the counted traversal is the enumerated one: the remaining clauses are stated on it
        args_ok = shape
    ws = [c for c in lp.calls() if c.fn in ("core::mem::MaybeUninit::<T>::write", "core::ptr::write")]
    slots = lp.slot_ptrs()
    w_ok = len(ws) == 1 and len(fcalls) == 1 and ws[0].args[1] == fcalls[0].ret and len(slots) == 1 and ws[0].args[0][:3] == slots[0][:3] and lp.count_on_paths(lambda c: c in ws) == {1}
    exits = not lp.breaks
    if shape and not arr_ok:
        arr_ok = any(full_slice(an, lp.nxt.facts, pipe[3], N, lambda bse, a_=arrp: bse == a_[1]) and pipe[3][4] is True for arrp in builder_array_ptrs(an, lp.nxt, owners))
    ok = shape and arr_ok and once and args_ok and w_ok and exits and not bad_adaptors(pipe)
    return ok, ("loop over enumerate(iter_mut over the builder's whole array [0, N)) - or over the slots with a step counter starting at 0: %s/%s; left only when next() returns None: %s; each step calls F exactly once: %s, with the enumerate index: %s, and writes the result into the paired slot: %s; no reordering adaptor: %s"
                % (shape, arr_ok, exits, once, args_ok, w_ok, not bad_adaptors(pipe)))


def fold_loop_form(an, owners, N, self_val, init_val):
    """fold written as an explicit loop over the consumer's whole array: acc = init; for src in iter { acc = f(acc, read(src)); } acc"""
    from ..loops import find_loops
    from ..absint import State
    lps = [lp for lp in find_loops(an) if lp.slot_ptrs()]
    counting = [lp for lp in find_loops(an) if is_count_range(lp.pipe, N)] if not lps else []
    if len(lps) != 1 and len(counting) != 1:
        return False, "neither a fold nor one loop over the source found (loops over storage: %d)" % len(lps)
    lp = lps[0] if lps else counting[0]
    fcalls = [c for c in lp.calls() if c.fn == "core::ops::FnMut::call_mut"]
    once = lp.count_on_paths(lambda c: c.fn == "core::ops::FnMut::call_mut") == {1}
    if lps:
        src_ok = not lp.backward and full_slice(an, lp.nxt.facts, lp.pipe, N, consumer_array_base(an, lp.nxt, owners)(self_val))
        slots = lp.slot_ptrs()
        rs = [c for c in lp.calls() if c.fn == "core::ptr::read" and len(slots) == 1 and c.args[0][:3] == slots[0][:3]]
    else:
        # counting form: `for _ in 0..N { acc = f(acc, consumer.take_next()) }` - the element the consumer's own cursor designates, the consumer
        # made from self with cursor 0 when the loop starts (C04.O shows the cursor advances by one per step and stays inside the storage)
        evs = lp.events(Classifier(an.db))
        rs = [e[4] for evl in evs.values() for e in evl if e[2] == "read" and e[3].startswith("('cur'")]
        src_ok = False
        if len(rs) == 1:
            L = rs[0].args[0][1][1][1]
            adt = local_adt(an, L)
            o = owners.get(adt)
            made = [c for c in an.calls if c.term.get("dest") and c.term["dest"]["l"] == L and not c.term["dest"]["p"] and c.ret is not None and c.ret[0] == "A" and an.dominates(c.bb, lp.nxt.bb)]
            src_ok = o is not None and not lp.backward and len(made) == 1 and made[0].ret[2][o["array"]] == self_val and all(made[0].ret[2][i] == ("I", Poly.const(0)) for i in o["pos"])
    ok_args = acc_ok = ret_ok = init_ok = False
    if len(fcalls) == 1 and len(rs) == 1 and lp.count_on_paths(lambda c: c in rs) == {1}:
        fc = fcalls[0]
        # the accumulator: the local cell that receives f's result in the step
        accs = [s_ for s_ in an.assigns if s_["site"][0] in lp.blocks | {fc.bb} and s_["val"] == fc.ret and s_["cell"][0][0] == "local"]
        dest = (("local", fc.term["dest"]["l"]), ()) if not fc.term["dest"]["p"] else None
        cells = {s_["cell"] for s_ in accs} | ({dest} if dest else set())
        head = State(lp.nxt.mem, lp.nxt.facts)
        for cell in cells:
            at_head = an.read_cell(head, cell[0], cell[1], None)
            if fc.args[1] == ("A", "tuple", (at_head, rs[0].ret)):
                ok_args = acc_ok = True
                ret_ok = bool(an.returns) and all(r["val"] == at_head for r in an.returns)
                init_ok = any(s_["cell"] == cell and s_["val"] == init_val and an.dominates(s_["site"][0], lp.nxt.bb) for s_ in an.assigns)
    ok = src_ok and once and ok_args and acc_ok and ret_ok and init_ok and not lp.breaks and not bad_adaptors(lp.pipe)
    return ok, ("loop over the whole source array (forward): %s; left only when next() returns None: %s; each step calls f exactly once: %s with (accumulator, read(slot)): %s; accumulator starts as init: %s and is what is returned: %s"
                % (src_ok, not lp.breaks, once, ok_args, init_ok, ret_ok))


def consumer_array_base(an, cs, owners):
    """Predicate: base is the array field of an ArrayConsumer local whose array value is `val`."""
    def mk(val):
        def pred(bse):
            if bse[0] == "field" and bse[1][0] == "local":
                n = bse[1][1]
                adt = local_adt(an, n)
                if adt in owners and bse[2] == (owners[adt]["array"],):
                    whole = cs.mem.get((("local", n), ()))
                    return whole is not None and whole[0] == "A" and whole[2][owners[adt]["array"]] == val
            if bse[0] == "local":
                # ManuallyDrop local holding val (no-drop branches)
                return cs.mem.get((bse, ())) == val
            return False
        return pred
    return mk


def is_count_range(t, N):
    return isinstance(t, tuple) and len(t) == 3 and t[0] == "A" and isinstance(t[1], tuple) and t[1][:2] == ("adt", "core::ops::Range") and t[2][0] == ("I", Poly.const(0)) and t[2][1] == ("I", N)


def cursor_reads(ctx, cfg, an, call, cv, owners):
    """For a closure value `cv` driven by `call` in body `an`: {ret value of a cursor read in the closure: (owner local, value the consumer was
    made from)} for every read of the slot an `ArrayConsumer` upvar's own cursor designates, provided that consumer's cursor is 0 at `call`
    (so the k-th invocation moves out element k). None if the closure cannot be resolved."""
    from ..typestate import cursor_slot
    from ..absint import State
    cb, ca = closure_body(ctx, cfg, cv)
    if ca is None:
        return None
    # each invocation moves out exactly one element per consumer and advances that consumer's cursor by exactly one (else the k-th call
    # would not see element k)
    from ..typestate import check_closure_protocol
    role, _ok, _det, info = check_closure_protocol(ca, Classifier(an.db))
    if role != "consumer" or info["normal_problems"]:
        return None
    out = {}
    for c in ca.calls:
        if c.fn in ("core::ptr::read", "core::ptr::read_unaligned") and c.args[0][0] == "P" and cursor_slot(c.args[0]) is not None:
            ku, farr, fpos = cursor_slot(c.args[0])
            op = cv[2][ku] if ku < len(cv[2]) else None
            if not (op is not None and op[0] == "P" and op[1][0] == "local" and not op[2].t):
                return None
            L = op[1][1]
            adt = local_adt(an, L)
            if adt not in owners or farr != owners[adt]["array"] or fpos not in owners[adt]["pos"]:
                return None
            st = State(call.mem, call.facts)
            pv = an.read_cell(st, ("local", L), (fpos,), {"k": "prim", "n": "usize"})
            av = an.read_cell(st, ("local", L), (farr,), None)
            if pv != ("I", Poly.const(0)):
                return None
            out[repr(c.ret)] = (c.ret, L, av)
    return out


def pipelines_only(ctx, cfg, key, an, judged_fn, unwrap=False):
    """The body's results come from the judged pipelines and from nowhere else: on every return path of the tree-shaped body the value returned
    is the result of a call to `judged_fn` made at one of the sites that were judged (a merged return value would hide which code produced it),
    and the caller's function is never invoked by the body itself - only by the pipelines' closures. -> list of problems"""
    at_ = ctx.analysis_inl(cfg, key, split=True)
    js = [c for c in at_.calls if c.fn in judged_fn]
    sites = {c.at for c in an.calls if c.fn in judged_fn}
    def from_judged(v):
        return any(v == c.ret or (unwrap and v == ("V", "proj", ("proj", c.ret, (("v", 0), 0)))) for c in js)
    out = []
    # (a path taken only for N == 0 owes nothing: there is no index to visit and the empty array has one value)
    st_ = at_.body.get("impl_self")
    n0 = at_.tenv.length(adt_args(st_)[1]) if st_ is not None and is_ga(st_) else None
    def empty_only(r):
        return n0 is not None and at_.prove(r["facts"], "Eq", n0, Poly.const(0))
    if not at_.returns or not all(from_judged(r["val"]) or empty_only(r) for r in at_.returns):
        out.append("a return path of the body does not return the result of a judged pipeline")
    if not all(c.at in sites for c in js):
        out.append("a pipeline of the expanded body was not judged")
    direct = [c.at for c in an.calls if c.fn in ("core::ops::FnMut::call_mut", "core::ops::FnOnce::call_once", "core::ops::Fn::call")]
    if direct:
        out.append("the body calls the caller's function itself (at %s), outside the judged pipelines" % direct)
    return out


def check_map_fold(ctx, cfg):
    rule = "C08.M"
    db = ctx.db(cfg)
    owners = owner_adts(db)
    n = 0
    # map: every from_iter pipeline in the body (one per branch, if the body branches on needs_drop) must match
    key = FS + "map"
    b = db.get(key)
    if b is None:
        ctx.ob(rule, key, db.get("trait FunctionalSequence::map") is not None, "no override for the owned receiver: the trait-default map (C08.R) runs over into_iter(self), the by-value iterator (C06)", cfg=cfg)
        n += 1
    if b is not None:
        an = ctx.analysis(cfg, key)
        N = an.tenv.length(adt_args(b["impl_self"])[1])
        fi = [c for c in an.calls if c.fn in COLLECT]
        ok = len(fi) >= 1
        dets = []
        for f in fi:
            pipe = f.args[0]
            shape = isinstance(pipe, tuple) and len(pipe) == 5 and pipe[:3] == ("V", "iter", "map")
            inner = pipe[3] if shape else None
            # `slots.enumerate().map(|(i, src)| ..)`: the same traversal with the slot's index alongside (item = (k, slot k))
            enum = shape and isinstance(inner, tuple) and len(inner) == 4 and inner[:3] == ("V", "iter", "enumerate")
            if enum:
                inner = inner[3]
            src_ok = shape and full_slice(an, f.facts, inner, N, consumer_array_base(an, f, owners)(("V", "arg", 1)))
            cb, ca = closure_body(ctx, cfg, pipe[4]) if shape else (None, None)
            c_ok = False
            if ca is not None:
                v = read_of(ca, slot_val(1) if enum else slot_val())
                once, args_ok, call = check_f_call(ca, [v]) if v is not None else (False, False, None)
                c_ok = once and args_ok and call is not None and all(r["val"] == call.ret for r in ca.returns)
            good = shape and src_ok and c_ok and not bad_adaptors(pipe)
            det_ = "from_iter(map(iter over the whole source array (forward), cl)): %s/%s; closure = f(read(slot)) once, result yielded: %s; no reordering adaptor: %s" % (shape, src_ok, c_ok, not bad_adaptors(pipe))
            if not good and shape and is_count_range(pipe[3], N):
                # counting form: from_iter((0..N).map(cl)), the closure moving out the element the source consumer's own cursor designates
                # (cursor 0 at the start, advanced by one per call: the k-th call yields f(self[k]))
                cr = cursor_reads(ctx, cfg, an, f, pipe[4], owners)
                cb, ca = closure_body(ctx, cfg, pipe[4])
                if cr is not None and len(cr) == 1 and ca is not None:
                    (v, L, av), = cr.values()
                    once, args_ok, call = check_f_call(ca, [v])
                    from_self = av == ("V", "arg", 1)
                    good = bool(once and args_ok and call is not None and all(r["val"] == call.ret for r in ca.returns) and from_self)
                    det_ = "from_iter((0..N).map(cl)), the closure moving out the element the consumer's own cursor designates (consumer made from self, cursor 0 at the start): %s; closure = f(that element) once, result yielded: %s" % (from_self, bool(once and args_ok))
            ok = ok and good
            dets.append(det_)
        others = [c.fn for c in an.calls if c.fn.startswith("core::iter::") and c.fn.split("::")[-1] in ("fold", "rfold", "for_each", "try_fold", "collect")]
        gen_form = None
        if not fi:
            # map = Mapped::generate(|i| f(read(self[i]))): generate calls its closure with 0, 1, .., N-1 in ascending order and stores result i at
            # index i (C08.G, every generate of the crate); the closure reads element i of the whole source array (index = its argument), hands it
            # to f exactly once and returns f's result - so slot i holds f(a[i]) and f runs in index order. (That element i is moved out exactly
            # once and disowned before f runs is the step protocol's business: C03.P / C04.P / C04.O.)
            from ..ownership import range_driver
            gens = [c for c in an.calls if c.fn.endswith("GenericSequence::generate")]
            if len(gens) == 1 and range_driver(gens[0], an) is not None:
                g_ = gens[0]
                n_out = range_driver(g_, an)[0][2][1][1]
                cb, ca = closure_body(ctx, cfg, g_.args[0])
                c_ok = False
                if ca is not None and n_out == N:
                    idx = Poly.atom(("arg", 2))
                    rds = [c for c in ca.calls if c.fn == "core::ptr::read" and c.args[0][0] == "P"]
                    if len(rds) == 1:
                        rp = rds[0].args[0]
                        S_ = ca.tenv.size(rds[0].targs[0]) if rds[0].targs else None
                        # the pointer read is `upvar slice`[i]: base = pointee of an upvar, offset i * size_of::<T>()
                        at_i = S_ is not None and rp[2] == idx * S_ and rp[1][0] == "obj" and isinstance(rp[1][1], tuple) and rp[1][1][0] == "cell" and rp[1][1][1][0] == ("arg", 1)
                        k_up = rp[1][1][1][1][0] if at_i and rp[1][1][1][1] else None
                        src = g_.args[0][2][k_up] if (k_up is not None and k_up < len(g_.args[0][2])) else None
                        whole = src is not None and src[0] == "P" and src[3] is not None and peq(an, g_.facts, src[2], Poly.const(0)) and peq(an, g_.facts, src[3], N) and \
                            consumer_array_base(an, g_, owners)(("V", "arg", 1))(src[1])
                        once, args_ok, call = check_f_call(ca, [rds[0].ret])
                        c_ok = bool(at_i and whole and once and args_ok and call is not None and all(r["val"] == call.ret for r in ca.returns))
                good = c_ok and all(r["val"] == g_.ret for r in an.returns)
                gen_form = (good, "map = Mapped::generate(|i| f(read(self[i]))) over the whole source array, N slots out: closure reads element i (its argument), calls f once on it and returns the result: %s; generate's result returned: %s" % (c_ok, good))
        if gen_form is not None:
            ok = gen_form[0] and not others
            ctx.ob(rule, key, ok, gen_form[1], at=b["at"], cfg=cfg)
            n += 1
        else:
            probs = pipelines_only(ctx, cfg, key, an, COLLECT)
            ok = ok and not others and not probs
            ctx.ob(rule, key, ok, "; ".join(dets + probs) if (dets or probs) else "no from_iter pipeline found", at=b["at"], cfg=cfg)
            n += 1
    key = FS + "fold"
    b = db.get(key)
    if b is None:
        ctx.ob(rule, key, db.get("trait FunctionalSequence::fold") is not None, "no override for the owned receiver: the trait-default fold (C08.R) runs over into_iter(self), the by-value iterator (C06)", cfg=cfg)
        n += 1
    if b is not None:
        an = ctx.analysis(cfg, key)
        N = an.tenv.length(adt_args(b["impl_self"])[1])
        fo = [c for c in an.calls if c.fn.startswith("core::iter::") and c.fn.split("::")[-1] in ("fold", "rfold", "try_fold", "try_rfold", "for_each", "reduce")]
        ok = len(fo) >= 1
        dets = []
        if not fo:
            ok, d0 = fold_loop_form(an, owners, N, ("V", "arg", 1), ("V", "arg", 2))
            dets.append(d0)
            ctx.ob(rule, key, ok, d0, at=b["at"], cfg=cfg)
            return n + 1
        from ..ownership import never_breaks, resolved_args
        for f in fo:
            tryf = f.fn == "core::iter::Iterator::try_fold" and never_breaks(f)
            if f.fn != "core::iter::Iterator::fold" and not tryf:
                ok = False
                dets.append("traversal by %s (a left fold must use Iterator::fold - or try_fold with an uninhabited residual - over the forward iterator)" % f.fn)
                continue
            it_, init, cv = resolved_args(an, f)
            if it_ == ("V", "iter", "into_iter", ("V", "arg", 1)) and f.fn == "core::iter::Iterator::fold":
                # the trait-default shape written as the override: self's by-value iterator folded with the caller's own f (by value or by
                # `&mut`, which is FnMut as well) - the iterator's fold is the left fold over the elements in index order (C06.S)
                f_ok = cv == ("V", "arg", 3) or (cv[0] == "P" and cv[1] in (("local", 3), ("arg", 3)) and not cv[2].t)
                good = init == ("V", "arg", 2) and f_ok
                ok = ok and good
                dets.append("fold(into_iter(self), init, f) over self's by-value iterator (C06.S): init passed through: %s; the caller's f handed on unchanged: %s" % (init == ("V", "arg", 2), f_ok))
                continue
            src_ok = full_slice(an, f.facts, it_, N, consumer_array_base(an, f, owners)(("V", "arg", 1)))
            cb, ca = closure_body(ctx, cfg, cv)
            c_ok = False
            if ca is not None:
                rs = [c for c in ca.calls if c.fn == "core::ptr::read" and c.args[0][0] == "P" and c.args[0][1] == ("arg", 3)]
                v = rs[0].ret if len(rs) == 1 else None
                once, args_ok, call = check_f_call(ca, [("V", "arg", 2), v]) if v is not None else (False, False, None)
                wrapped = call is not None and ("A", ("adt", "core::result::Result", 0), (call.ret,))
                c_ok = once and args_ok and call is not None and all(r["val"] == call.ret or (tryf and r["val"] == wrapped) for r in ca.returns)
            good = src_ok and init == ("V", "arg", 2) and c_ok and not bad_adaptors(it_)
            det_ = "fold(iter over the whole source array (forward), init, cl): %s; init passed through: %s; closure = f(acc, read(slot)) once: %s" % (src_ok, init == ("V", "arg", 2), c_ok)
            if not good and is_count_range(it_, N) and ca is not None:
                # counting form: (0..N).fold(init, cl), the closure moving out the element the source consumer's own cursor designates (cursor 0
                # at the start, advanced by one per call: the k-th call is f(acc, self[k]))
                cr = cursor_reads(ctx, cfg, an, f, cv, owners)
                if cr is not None and len(cr) == 1:
                    (v, L, av), = cr.values()
                    once, args_ok, call = check_f_call(ca, [("V", "arg", 2), v])
                    wrapped = call is not None and ("A", ("adt", "core::result::Result", 0), (call.ret,))
                    c_ok = bool(once and args_ok and call is not None and all(r["val"] == call.ret or (tryf and r["val"] == wrapped) for r in ca.returns))
                    from_self = av == ("V", "arg", 1)
                    good = c_ok and from_self and init == ("V", "arg", 2)
                    det_ = "(0..N).fold(init, cl), the closure moving out the element the consumer's own cursor designates (consumer made from self, cursor 0 at the start): %s; init passed through: %s; closure = f(acc, that element) once: %s" % (from_self, init == ("V", "arg", 2), c_ok)
            ok = ok and good
            dets.append(det_)
        probs = pipelines_only(ctx, cfg, key, an, tuple(sorted({f.fn for f in fo})), unwrap=True)
        ok = ok and not probs
        ctx.ob(rule, key, ok, "; ".join(dets + probs) if (dets or probs) else "no fold found", at=b["at"], cfg=cfg)
        n += 1
    return n


def check_zip_body(ctx, cfg, key, branches):
    """branches: list of (needs_drop facts required or None, left_spec, right_spec, closure arg spec).
    Each from_iter(map(zip(A, B), cl)) in the body must match one branch."""
    rule = "C08.Z"
    b = ctx.db(cfg).get(key)
    if b is None:
        dflt = "trait GenericSequence::" + key.split("::")[-1]
        if not key.startswith("trait ") and ctx.db(cfg).get(dflt) is not None:
            # an optional override of the owned receiver is absent: the trait's provided method (judged as `%s`) runs instead,
            # over into_iter(self) - the by-value iterator, whose order and exactly-once behaviour are C06's
            ctx.ob(rule, key, PROVED, "no override for the owned receiver: the provided %s (checked separately) runs over the by-value iterator" % dflt, cfg=cfg)
            return 1
        ctx.ob(rule, key, MISSING, "zip body not found", cfg=cfg)
        return 0
    an = ctx.analysis(cfg, key)
    owners = owner_adts(ctx.db(cfg))
    fis = [c for c in an.calls if c.fn in COLLECT]
    # length parameter of Self
    st = b.get("impl_self")
    N = an.tenv.length(adt_args(st)[1]) if st is not None and is_ga(st) else None
    # one pipeline per branch of the body (a body may branch on needs_drop): every pipeline found must match its specification
    ok_all = 1 <= len(fis) <= len(branches)
    dets = []
    for fi, (left, right, argspec) in zip(fis, branches):
        pipe = fi.args[0]
        shape = isinstance(pipe, tuple) and len(pipe) == 5 and pipe[:3] == ("V", "iter", "map") and isinstance(pipe[3], tuple) and pipe[3][:3] == ("V", "iter", "zip") and len(pipe[3]) == 5
        ok = shape and not bad_adaptors(pipe)
        sides = []
        if ok:
            za, zb = pipe[3][3], pipe[3][4]
            for side, spec in ((za, left), (zb, right)):
                kind, val = spec
                if kind == "slice":  # full forward slice iterator over the array holding `val`
                    s_ok = full_slice(an, fi.facts, side, N, consumer_array_base(an, fi, owners)(val))
                elif kind == "value":  # the by-value sequence itself (IntoIterator)
                    s_ok = side == val
                elif kind == "into_iter":
                    s_ok = side == ("V", "iter", "into_iter", val)
                else:
                    s_ok = False
                sides.append(s_ok)
            cb, ca = closure_body(ctx, cfg, pipe[4])
            c_ok = False
            if ca is not None:
                want = []
                for how, fld in argspec:
                    if how == "read":
                        want.append(read_of(ca, slot_val(fld)))
                    else:
                        want.append(slot_val(fld))
                if None not in want:
                    once, args_ok, call = check_f_call(ca, want)
                    c_ok = once and args_ok and call is not None and all(r["val"] == call.ret for r in ca.returns)
            ok = all(sides) and c_ok
            dets.append("zip(%s, %s) sides match spec: %s; closure calls f(left, right) exactly once with the paired items: %s" % (left[0], right[0], sides, c_ok))
        else:
            dets.append("pipeline is not from_iter(map(zip(A, B), closure)) or contains a reordering adaptor %s" % bad_adaptors(pipe))
        N_c = N
        if N_c is None and isinstance(pipe, tuple) and len(pipe) == 5 and pipe[:3] == ("V", "iter", "map"):
            # a trait-provided body: the length is the associated `Length` of Self; take it from the consumer the closure uses (its storage has
            # exactly that many slots), to be matched against the counting range's upper bound below
            cr0 = cursor_reads(ctx, cfg, an, fi, pipe[4], owners)
            if cr0:
                L0 = next(iter(cr0.values()))[1]
                N_c = an.tenv.length([x for x in an.local_ty(L0)["args"] if x.get("k") != "region"][-1])
        if not ok and isinstance(pipe, tuple) and len(pipe) == 5 and pipe[:3] == ("V", "iter", "map") and not bad_adaptors(pipe) and N_c is not None:
            N = N_c
            # counting form: a "slice" side is not in the pipeline; the closure moves out the element that side's consumer designates by its own
            # cursor (0 at the start, +1 per call), while a counting range 0..N stands in the pipeline and caps the number of pairs at N. The
            # other side, if it is a by-value sequence, is zipped with the range: from_iter((0..N).zip(other).map(cl)) / from_iter((0..N).map(cl))
            X = pipe[3]
            other = None
            if is_count_range(X, N):
                shape2 = True
            elif isinstance(X, tuple) and len(X) == 5 and X[:3] == ("V", "iter", "zip") and is_count_range(X[3], N):
                shape2, other = True, X[4]
            else:
                shape2 = False
            cr = cursor_reads(ctx, cfg, an, fi, pipe[4], owners) if shape2 else None
            cb, ca = closure_body(ctx, cfg, pipe[4]) if shape2 else (None, None)
            if cr is not None and ca is not None:
                want, sides2 = [], []
                for (how, fld) in argspec:   # f's arguments in order; fld names the side (0 = left, 1 = right) the argument comes from
                    kind, val = (left, right)[fld]
                    if kind == "slice":
                        hit = [v for (v, L, av) in cr.values() if av == val]
                        sides2.append(len(hit) == 1)
                        want.append(hit[0] if len(hit) == 1 else None)
                    else:
                        okside = other is not None and (other == val if kind == "value" else other == ("V", "iter", "into_iter", val))
                        sides2.append(bool(okside))
                        want.append(slot_val(1))   # item = (index, other's item)
                if None not in want and all(sides2) and len(cr) == sum(1 for (kind, _v) in (left, right) if kind == "slice"):
                    once, args_ok, call = check_f_call(ca, want)
                    ok = bool(once and args_ok and call is not None and all(r["val"] == call.ret for r in ca.returns))
                    dets[-1] = "counting form over 0..N: the %s side(s) moved out by their consumers' own cursors (made from the right operands, cursor 0 at the start), the other side zipped with the range: %s; closure calls f(left, right) exactly once with the paired items: %s" % (
                        "/".join(k for (k, _v) in (left, right) if k == "slice"), sides2, ok)
        ok_all = ok_all and ok
    probs = pipelines_only(ctx, cfg, key, an, COLLECT)
    ctx.ob(rule, key, ok_all and not probs, "; ".join(dets + probs) if (dets or probs) else "no from_iter pipeline found", at=b["at"], cfg=cfg)
    ctx.sample({"rule": rule, "fn": key, "cfg": cfg, "detail": dets})
    return 1


def check_dispatch(ctx, cfg):
    rule = "C08.Z"
    n = 0
    for key, callee in ((FS + "zip", "inverted_zip"), ("trait FunctionalSequence::zip", "inverted_zip2")):
        b = ctx.body(cfg, key, rule)
        if b is None:
            continue
        an = ctx.analysis(cfg, key)
        pc = payload_calls(an)
        ok = len(pc) == 1 and pc[0].fn == "sequence::GenericSequence::" + callee or (len(pc) == 1 and pc[0].fn.endswith("::" + callee))
        ok = ok and pc[0].args == [("V", "arg", 2), ("V", "arg", 1), ("V", "arg", 3)] and all(r["val"] == pc[0].ret for r in an.returns)
        ctx.ob(rule, key, ok, "zip(self, rhs, f) = rhs.%s(self, f): %s" % (callee, ok), at=b["at"], cfg=cfg)
        n += 1
    return n


def pull_form_map(ctx, cfg, key):
    """A receiver's own `map` written as `Mapped::generate(|_| f(source.next().unwrap()))` with `source` the receiver's by-value iterator: generate
    calls its closure once per index in ascending order and stores result i at index i (C08.G), each call pulls exactly one item from a source
    that yields the elements in index order, and hands exactly that item to f - so slot i holds f(a[i]) and f is called in index order. (ok, detail)"""
    from ..typestate import upvar_of
    an = ctx.analysis(cfg, key)
    pc = payload_calls(an)
    gen = [c for c in pc if c.fn.endswith("GenericSequence::generate")]
    iv = [c for c in pc if c.key == "GenericArray<$0,$1>::into_vec"]
    ii = [c for c in pc if c.fn == "core::iter::IntoIterator::into_iter"]
    if not (len(gen) == 1 and len(ii) == 1 and len(iv) <= 1 and len(pc) == 2 + len(iv)):
        return False, "calls: %s" % [c.key or c.fn for c in pc]
    by_self = lambda v: v == ("V", "arg", 1) or (v[0] == "P" and v[1] == ("arg", 1) and not v[2].t)
    src_ok = (by_self(iv[0].args[0]) and ii[0].args[0] == iv[0].ret and ii[0].res.startswith("<alloc::vec::Vec<")) if iv else by_self(ii[0].args[0])
    src_local = ii[0].term["dest"]["l"] if not ii[0].term["dest"]["p"] else None
    g = gen[0]
    t0 = g.targs[0] if g.targs else None
    dst_ok = t0 is not None and ("MappedGenericSequence::Mapped" in tstr(t0) or (t0.get("k") == "adt" and t0["def"] == "alloc::boxed::Box") or is_ga(t0))
    ret_ok = bool(an.returns) and all(r["val"] == g.ret for r in an.returns)
    cv = g.args[0]
    cb, ca = closure_body(ctx, cfg, cv)
    if ca is None:
        return False, "generate is not given a closure literal"
    ups = list(cv[2])
    k_src = [k for k, u in enumerate(ups) if u[0] == "P" and u[1] == ("local", src_local) and not u[2].t]
    k_f = [k for k, u in enumerate(ups) if u[0] == "P" and u[1] == ("local", 2) and not u[2].t]
    nx = [c for c in ca.calls if c.fn == "core::iter::Iterator::next"]
    one_next = count_on_paths(ca, lambda c: c.fn == "core::iter::Iterator::next") == {1} and len(nx) == 1 \
        and nx[0].args[0][0] == "P" and upvar_of(nx[0].args[0][1]) in k_src and not nx[0].args[0][2].t
    uw = [c for c in ca.calls if c.fn in ("core::option::Option::<T>::unwrap_unchecked", "core::option::Option::<T>::unwrap", "core::option::Option::<T>::expect")]
    item_ok = len(uw) == 1 and bool(nx) and uw[0].args[0] == nx[0].ret
    once, args_ok, fc = check_f_call(ca, [uw[0].ret]) if uw else (False, False, None)
    f_ok = fc is not None and fc.args[0][0] == "P" and upvar_of(fc.args[0][1]) in k_f and all(r["val"] == fc.ret for r in ca.returns)
    others = [c.fn for c in payload_calls(ca) if c not in nx and c not in uw and c is not fc]
    ok = bool(src_ok and dst_ok and ret_ok and one_next and item_ok and once and args_ok and f_ok and not others)
    return ok, ("map = Mapped::generate(|_| f(source.next().unwrap())): source is the receiver's own by-value iterator (elements in index order): %s; built by generate of the mapped type "
                "and returned: %s/%s; each closure call pulls exactly one item: %s, hands exactly it to f, once: %s/%s/%s, and returns f's result: %s; other calls in the closure: %s" % (
                    src_ok, dst_ok, ret_ok, one_next, item_ok, once, args_ok, f_ok, others or "none"))


def check_receivers(ctx, cfg):
    rule = "C08.R"
    db = ctx.db(cfg)
    n = 0
    for key in ("<&$0 as GenericSequence<$1>>::generate", "<&mut $0 as GenericSequence<$1>>::generate"):
        b = ctx.body(cfg, key, rule)
        if b is None:
            continue
        an = ctx.analysis(cfg, key)
        pc = payload_calls(an)
        S = b["impl_self"]["t"]
        ok = len(pc) == 1 and pc[0].fn.endswith("GenericSequence::generate") and pc[0].args == [("V", "arg", 1)] and pc[0].targs and tstr(pc[0].targs[0]) == tstr(S) and all(r["val"] == pc[0].ret for r in an.returns)
        ctx.ob(rule, key, ok, "forwards to <S as GenericSequence>::generate(f): %s" % ok, at=b["at"], cfg=cfg)
        n += 1
    # receivers using the trait defaults: impls of FunctionalSequence other than the one for GenericArray have no items
    for imp in db.impls:
        if imp.get("trait", "").split("::")[-1] == "FunctionalSequence" or imp.get("trait") == "functional::FunctionalSequence":
            st = imp["self"]
            if is_ga(st):
                continue
            ok = not imp["items"]
            det = "uses the trait-default map/zip/fold (no override): %s" % ok
            if not ok:
                # an override is judged by what it is: `map` in the pull form over generate (the other methods have no accepted override)
                names = [x["name"] for x in imp["items"]]
                if names == ["map"]:
                    ok, det = pull_form_map(ctx, cfg, db.impl_key(imp) + "::map")
                    det = "overrides map only; " + det
                else:
                    det = "overrides %s: no rule accepts an override of these for a non-owned receiver" % names
            ctx.ob(rule, "impl FunctionalSequence for %s" % db.norm(imp["self_s"]), ok, det, at=imp["at"], cfg=cfg)
            n += 1
    # trait-default bodies
    b = ctx.body(cfg, "trait FunctionalSequence::map", rule)
    if b is not None:
        an = ctx.analysis(cfg, "trait FunctionalSequence::map")
        fi = [c for c in an.calls if c.fn in COLLECT]
        ok = len(fi) == 1 and fi[0].args[0] == ("V", "iter", "map", ("V", "iter", "into_iter", ("V", "arg", 1)), ("V", "arg", 2)) and all(r["val"] == fi[0].ret for r in an.returns)
        ctx.ob(rule, "trait FunctionalSequence::map", ok, "default map = from_iter(map(into_iter(self), f)): %s" % ok, at=b["at"], cfg=cfg)
        n += 1
    b = ctx.body(cfg, "trait FunctionalSequence::fold", rule)
    if b is not None:
        an = ctx.analysis(cfg, "trait FunctionalSequence::fold")
        fo = [c for c in an.calls if c.fn == "core::iter::Iterator::fold"]
        ok = len(fo) == 1 and fo[0].args == [("V", "iter", "into_iter", ("V", "arg", 1)), ("V", "arg", 2), ("V", "arg", 3)] and all(r["val"] == fo[0].ret for r in an.returns) and len(payload_calls(an)) == 2
        ctx.ob(rule, "trait FunctionalSequence::fold", ok, "default fold = into_iter(self).fold(init, f): %s" % ok, at=b["at"], cfg=cfg)
        n += 1
    # IntoIterator of the reference receivers: full forward slice iterators
    for key, mut in (("<&GenericArray<$0,$1> as core::iter::IntoIterator>::into_iter", False), ("<&mut GenericArray<$0,$1> as core::iter::IntoIterator>::into_iter", True)):
        b = ctx.body(cfg, key, rule)
        if b is None:
            continue
        an = ctx.analysis(cfg, key)
        N = an.tenv.length(adt_args(b["impl_self"]["t"])[1])
        ok = bool(an.returns) and all(full_slice(an, r["facts"], r["val"], N, lambda bse: bse == ("arg", 1)) and r["val"][4] is mut for r in an.returns)
        ctx.ob(rule, key, ok, "into_iter = the full forward slice iterator over self: %s" % ok, at=b["at"], cfg=cfg)
        n += 1
    if (not cfg.startswith("F0")):
        key = "<alloc::boxed::Box<GenericArray<$0,$1>,alloc::alloc::Global> as core::iter::IntoIterator>::into_iter"
        b = ctx.body(cfg, key, rule)
        if b is not None:
            an = ctx.analysis(cfg, key)
            names = [c.key or c.fn for c in payload_calls(an)]
            iv = [c for c in an.calls if c.key == "GenericArray<$0,$1>::into_vec"]
            ok = names == ["GenericArray<$0,$1>::into_vec", "core::iter::IntoIterator::into_iter"] and len(iv) == 1 and (iv[0].args[0] == ("V", "arg", 1) or (iv[0].args[0][0] == "P" and iv[0].args[0][1] == ("arg", 1) and not iv[0].args[0][2].t))
            det = "Box receiver iterates into_vec(self).into_iter() (Vec order = array order, C15): %s" % names
            if not ok:
                # the same through the boxed slice: Box<[T]>::into_iter is `self.into_vec().into_iter()` (std), into_boxed_slice keeps the order (C15)
                ib = [c for c in an.calls if c.key == "GenericArray<$0,$1>::into_boxed_slice"]
                ii = [c for c in an.calls if c.fn == "core::iter::IntoIterator::into_iter"]
                ok = names == ["GenericArray<$0,$1>::into_boxed_slice", "core::iter::IntoIterator::into_iter"] and len(ib) == 1 and len(ii) == 1 \
                    and (ib[0].args[0] == ("V", "arg", 1) or (ib[0].args[0][0] == "P" and ib[0].args[0][1] == ("arg", 1) and not ib[0].args[0][2].t)) \
                    and ii[0].args[0] == ib[0].ret and "core::iter::IntoIterator for alloc::boxed::Box<[" in ii[0].res and all(r["val"] == ii[0].ret for r in an.returns)
                det = "Box receiver iterates into_boxed_slice(self).into_iter() (the boxed slice's by-value iterator, in order; C15): %s" % ok
            ctx.ob(rule, key, ok, det, at=b["at"], cfg=cfg)
            n += 1
    return n


def collected_defaults(ctx, cfg, an, pc, N_, T_):
    """`repeat_with(T::default).take(N)` collected through the crate's from_iter: N calls of T::default() in index order (from_iter stores the
    k-th item in slot k and pulls exactly N items plus one probe, which take(N) answers without calling the generator). (chain ok, generator ok)"""
    fi = [c for c in pc if c.fn in ("core::iter::FromIterator::from_iter", "core::iter::Iterator::collect")]
    rw = [c for c in pc if c.fn == "core::iter::repeat_with"]
    tk = [c for c in pc if c.fn == "core::iter::Iterator::take"]
    if not (len(fi) == 1 and len(rw) == 1 and len(tk) == 1 and len(pc) == 3):
        return None
    gen = rw[0].args[0]
    g_ok = gen == ("V", "fn", "core::default::Default::default") and tstr(rw[0].targs[0]) == T_ if rw[0].targs else False
    if not g_ok:
        cb2, ca2 = closure_body(ctx, cfg, gen)
        if ca2 is not None:
            dc = [c for c in ca2.calls if c.fn == "core::default::Default::default"]
            g_ok = len(dc) == 1 and len(payload_calls(ca2)) == 1 and all(r["val"] == dc[0].ret for r in ca2.returns) and tstr(dc[0].targs[0]) == T_
    chain = tk[0].args[0] == rw[0].ret and tk[0].args[1] == ("I", N_) and fi[0].args[0] == tk[0].ret and all(r["val"] == fi[0].ret for r in an.returns)
    return bool(chain), bool(g_ok)


def check_default_clone(ctx, cfg, rule="C08.D", only_default=False):
    key = "<GenericArray<$0,$1> as core::default::Default>::default"
    b = ctx.body(cfg, key, rule)
    if b is not None:
        an = ctx.analysis(cfg, key)
        pc = payload_calls(an)
        ok = len(pc) == 1 and pc[0].fn.endswith("GenericSequence::generate") and tstr(pc[0].targs[0]) == tstr(b["impl_self"])
        cb, ca = closure_body(ctx, cfg, pc[0].args[0]) if ok else (None, None)
        c_ok = False
        if ca is not None:
            dc = [c for c in ca.calls if c.fn == "core::default::Default::default"]
            c_ok = len(dc) == 1 and len(payload_calls(ca)) == 1 and all(r["val"] == dc[0].ret for r in ca.returns) and tstr(dc[0].targs[0]) == tstr(adt_args(b["impl_self"])[0])
        det = "Default = Self::generate(|_| T::default()): %s/%s" % (ok, c_ok)
        if not (ok and c_ok):
            # the same N calls of T::default() in index order through the collecting constructor: from_iter(repeat_with(T::default).take(N))
            # (from_iter stores the k-th item in slot k and pulls exactly N items plus one probe, which take(N) answers without calling the generator)
            N_ = an.tenv.length(adt_args(b["impl_self"])[1])
            T_ = tstr(adt_args(b["impl_self"])[0])
            cd = collected_defaults(ctx, cfg, an, pc, N_, T_)
            if cd is not None:
                ok, c_ok = cd
                det = "Default = from_iter(repeat_with(T::default).take(N)): chain %s, generator is T::default: %s" % cd
        ctx.ob(rule, key, ok and c_ok, det, at=b["at"], cfg=cfg)
    if only_default:
        return
    key = "<GenericArray<$0,$1> as core::clone::Clone>::clone"
    b = ctx.body(cfg, key, rule)
    if b is not None:
        an = ctx.analysis(cfg, key)
        pc = payload_calls(an)
        def is_clone_fn(v):
            if v == ("V", "fn", "core::clone::Clone::clone"):
                return True
            cb2, ca2 = closure_body(ctx, cfg, v)
            if ca2 is None:
                return False
            cc = [c for c in ca2.calls if c.fn == "core::clone::Clone::clone"]
            return (len(cc) == 1 and len(payload_calls(ca2)) == 1 and cc[0].args[0] == ca2.entry_state().mem[(("local", 2), ())]
                    and all(r["val"] == cc[0].ret for r in ca2.returns) and count_on_paths(ca2, lambda c: c.fn == "core::clone::Clone::clone") == {1})
        ok = len(pc) == 1 and pc[0].fn.endswith("FunctionalSequence::map") and pc[0].args[0][0] == "P" and pc[0].args[0][1] == ("arg", 1) and is_clone_fn(pc[0].args[1])
        recv = pc[0].targs[0] if ok else None
        ok = ok and recv.get("k") == "ref" and not recv["mut"] and all(r["val"] == pc[0].ret for r in an.returns)
        det = "Clone = (&self).map(Clone::clone) on the shared-reference receiver: %s" % ok
        if not ok:
            # element-wise through the collecting constructor: from_iter(self.iter().cloned()) / from_iter(self.iter().map(Clone::clone)):
            # the k-th item is self[k].clone(), evaluated when slot k is filled; no clone call for the probe (the slice iterator is exhausted)
            N_ = an.tenv.length(adt_args(b["impl_self"])[1])
            fi = [c for c in pc if c.fn in COLLECT]
            if len(fi) == 1:
                pipe = fi[0].args[0]
                inner = None
                if isinstance(pipe, tuple) and len(pipe) == 4 and pipe[:3] == ("V", "iter", "cloned"):
                    inner = pipe[3]
                elif isinstance(pipe, tuple) and len(pipe) == 5 and pipe[:3] == ("V", "iter", "map") and is_clone_fn(pipe[4]):
                    inner = pipe[3]
                whole = isinstance(inner, tuple) and len(inner) == 5 and inner[:3] == ("V", "iter", "slice") and inner[3][0] == "P" and inner[3][1] == ("arg", 1) and not inner[3][2].t and inner[3][3] == N_
                others = [c.fn for c in pc if c is not fi[0] and c.fn not in ("core::slice::<impl [T]>::iter", "core::iter::Iterator::cloned", "core::iter::Iterator::map")]
                ok = bool(whole) and not others and all(r["val"] == fi[0].ret for r in an.returns)
                det = "Clone = from_iter over the element-wise clones of the whole of self, in order: %s" % ok
        ctx.ob(rule, key, ok, det, at=b["at"], cfg=cfg)
    if (not cfg.startswith("F0")):
        key = "GenericArray<$0,$1>::default_boxed"
        b = ctx.body(cfg, key, rule)
        if b is not None:
            an = ctx.analysis(cfg, key)
            pc = payload_calls(an)
            ok = len(pc) == 1 and pc[0].fn.endswith("GenericSequence::generate") and pc[0].targs[0].get("k") == "adt" and pc[0].targs[0]["def"] == "alloc::boxed::Box"
            cb, ca = closure_body(ctx, cfg, pc[0].args[0]) if ok else (None, None)
            c_ok = ca is not None and len([c for c in ca.calls if c.fn == "core::default::Default::default"]) == 1
            det = "default_boxed = Box::<GA>::generate(|_| T::default()): %s/%s" % (ok, c_ok)
            if not (ok and c_ok):
                gens = [g["n"] for g in b["generics"] if g["kind"] == "type"]
                cd = collected_defaults(ctx, cfg, an, pc, an.tenv.length({"k": "param", "n": gens[1]}), gens[0]) if len(gens) >= 2 else None
                if cd is not None:
                    ok, c_ok = cd
                    det = "default_boxed = repeat_with(T::default).take(N) collected into the box (boxed from_iter: C07 / C15): chain %s, generator is T::default: %s" % cd
            ctx.ob(rule, key, ok and c_ok, det, at=b["at"], cfg=cfg)

def check_clone_from(ctx, cfg, rule="C08.D"):
    """`Clone::clone_from` is part of the element-wise Clone: when the impl overrides it, it visits the indices once each in ascending order,
    pairing self[i] with source[i] (the provided method, `*self = source.clone()`, does so through `clone`)."""
    key = "<GenericArray<$0,$1> as core::clone::Clone>::clone_from"
    db = ctx.db(cfg)
    b = db.get(key)
    k0 = "<GenericArray<$0,$1> as core::clone::Clone>::clone"
    if b is None:
        ctx.ob(rule, key, db.get(k0) is not None, "clone_from is not overridden: the provided method is `*self = source.clone()`, judged through clone", cfg=cfg)
        return
    an = ctx.analysis(cfg, key)
    N_ = an.tenv.length(adt_args(b["impl_self"])[1])
    A1, A2 = ("arg", 1), ("arg", 2)
    pc = payload_calls(an)

    def full_of(t, base, mut):
        if isinstance(t, tuple) and t and t[0] == "P" and t[1] == base and not t[2].t and t[3] is None and not mut:
            return True    # `&GenericArray` itself handed to zip: IntoIterator for &GA is the full forward slice iterator (C08.R / C02.D)
        return full_slice(an, set(), t, N_, lambda bse: bse == base) and t[4] is mut

    def pair_pipe(t):
        """zip of the full forward traversals of self (mutable) and source (shared), in either order: which side is item.0 (0 or 1), or None"""
        if not (isinstance(t, tuple) and len(t) == 5 and t[:3] == ("V", "iter", "zip")):
            return None
        if full_of(t[3], A1, True) and full_of(t[4], A2, False):
            return 0
        if full_of(t[3], A2, False) and full_of(t[4], A1, True):
            return 1
        return None
    ok, det = False, "the override is none of the recognised element-wise forms (assignment of source.clone(); for_each or loop over zip(self.iter_mut(), source.iter()); index loop over 0..N)"
    plumbing = ("core::slice::<impl [T]>::iter_mut", "core::slice::<impl [T]>::iter", "core::iter::IntoIterator::into_iter", "core::iter::Iterator::zip")
    rest = [c for c in pc if c.fn not in plumbing]
    fes = [c for c in rest if c.fn == "core::iter::Iterator::for_each"]
    cl = [c for c in rest if c.fn == "core::clone::Clone::clone"]
    from ..loops import find_loops
    lps = find_loops(an)
    if len(rest) == 1 and len(cl) == 1 and not lps:
        src_ok = cl[0].args[0][0] == "P" and cl[0].args[0][1] == A2 and not cl[0].args[0][2].t and tstr(cl[0].targs[0]) == tstr(b["impl_self"])
        st = [x for x in an.stores if x["cell"] == (A1, ()) and x["val"] == cl[0].ret]
        ok = src_ok and len(st) == 1
        det = "clone_from = `*self = source.clone()` (the whole clone of source, C08.D, assigned to *self): %s" % ok
    elif len(rest) == 1 and len(fes) == 1 and not lps:
        side = pair_pipe(fes[0].args[0])
        cb, ca = closure_body(ctx, cfg, fes[0].args[1])
        c_ok = False
        if ca is not None and side is not None:
            item = ("V", "arg", 2)
            def proj(i):
                return ("obj", ("proj", ("proj", item, (i,))))
            cf = [c for c in ca.calls if c.fn == "core::clone::Clone::clone_from"]
            pcs = payload_calls(ca)
            c_ok = (len(cf) == 1 and len(pcs) == 1 and cf[0].args[0][0] == "P" and cf[0].args[0][1] == proj(side) and cf[0].args[1][0] == "P" and cf[0].args[1][1] == proj(1 - side)
                    and count_on_paths(ca, lambda c: c.fn == "core::clone::Clone::clone_from") == {1})
            if not c_ok:
                cc = [c for c in ca.calls if c.fn == "core::clone::Clone::clone"]
                st = [x for x in ca.stores if cc and x["val"] == cc[0].ret and x["cell"][0] == proj(side)]
                c_ok = len(cc) == 1 and len(pcs) == 1 and cc[0].args[0][0] == "P" and cc[0].args[0][1] == proj(1 - side) and len(st) == 1 and count_on_paths(ca, lambda c: c.fn == "core::clone::Clone::clone") == {1}
        ok = side is not None and c_ok and not bad_adaptors(fes[0].args[0])
        det = "clone_from = for_each over zip of the full forward traversals of self and source: %s; the closure clones item i of source into item i of self exactly once: %s" % (side is not None, c_ok)
    elif len(lps) == 1 and not fes:
        lp = lps[0]
        side = pair_pipe(lp.pipe)
        slots = lp.slot_ptrs()
        if side is not None and not lp.backward:
            mine = [p_ for p_ in slots if p_[1] == A1]
            theirs = [p_ for p_ in slots if p_[1] == A2]
            cf = [c for c in lp.calls() if c.fn == "core::clone::Clone::clone_from"]
            inner = [c for c in lp.calls() if c in pc and c.fn != "core::iter::Iterator::next"]
            c_ok = (len(mine) == 1 and len(theirs) == 1 and len(cf) == 1 and len(inner) == 1 and cf[0].args[0][:3] == mine[0][:3] and cf[0].args[1][:3] == theirs[0][:3]
                    and lp.count_on_paths(lambda c: c.fn == "core::clone::Clone::clone_from") == {1})
            if not c_ok and len(mine) == 1 and len(theirs) == 1:
                cc = [c for c in lp.calls() if c.fn == "core::clone::Clone::clone"]
                st = [x for x in an.stores if cc and x["val"] == cc[0].ret and x["site"][0] in lp.blocks]
                c_ok = (len(cc) == 1 and len(inner) == 1 and cc[0].args[0][:3] == theirs[0][:3] and len(st) == 1 and lp.count_on_paths(lambda c: c.fn == "core::clone::Clone::clone") == {1}
                        and st[0]["cell"] == (("off", mine[0][1], mine[0][2]), ()))
            outside = [c for c in rest if c.bb not in lp.blocks and c.fn != "core::iter::Iterator::next"]
            none_only = bool(an.returns) and all(("variant", lp.nxt.ret, 0) in r["facts"] for r in an.returns)
            ok = c_ok and not lp.breaks and not outside and none_only
            det = "clone_from = loop over zip of the full forward traversals of self and source; each step clones item i of source into item i of self exactly once: %s; left only on None: %s" % (c_ok, not lp.breaks and none_only)
        elif isinstance(lp.pipe, tuple) and len(lp.pipe) == 3 and lp.pipe[0] == "A" and isinstance(lp.pipe[1], tuple) and lp.pipe[1][:2] == ("adt", "core::ops::Range") and lp.nxt.ret[1][0] == "I":
            lo_, hi_ = lp.pipe[2][0], lp.pipe[2][1]
            full = lo_ == ("I", Poly.const(0)) and hi_[0] == "I" and hi_[1] == N_
            idx = lp.nxt.ret[1]
            cc = [c for c in lp.calls() if c.fn == "core::clone::Clone::clone"]
            inner = [c for c in lp.calls() if c in pc and c.fn != "core::iter::Iterator::next"]
            want_src = ("field", A2, (("idx", idx),))
            st = [x for x in an.stores if cc and x["val"] == cc[0].ret and x["site"][0] in lp.blocks and x["cell"] == (A1, (("idx", idx),))]
            c_ok = (len(cc) == 1 and len(inner) == 1 and cc[0].args[0][0] == "P" and cc[0].args[0][1] == want_src and not cc[0].args[0][2].t and len(st) == 1
                    and lp.count_on_paths(lambda c: c.fn == "core::clone::Clone::clone") == {1})
            none_only = bool(an.returns) and all(("variant", lp.nxt.ret, 0) in r["facts"] for r in an.returns)
            outside = [c for c in rest if c.bb not in lp.blocks and c.fn != "core::iter::Iterator::next"]
            ok = full and c_ok and not lp.breaks and none_only and not outside
            det = "clone_from = loop over the index range 0..N: %s; each step assigns source[i].clone() to self[i] exactly once: %s; left only when the range is exhausted: %s" % (full, c_ok, not lp.breaks and none_only)
    ctx.ob(rule, key, ok, det, at=b["at"], cfg=cfg)


def check(ctx):
    ctx.explanation = EXPLANATION
    ctx.trusted = ["core: slice::Iter/IterMut, Enumerate, Zip, Map yield in ascending index order; for_each/fold/from_iter consume every item once, in order",
                   "parametricity of the generic bodies (rustc type checking): results can only come from f and go into the output"]
    ctx.assumptions = []
    cfgs = ["F0", "F1", "F1N"] if ctx.tier == "quick" else ["F0", "F1", "F1N", "F2", "F0N", "F2N"]
    ctx.need(*cfgs)
    A1, A2 = ("V", "arg", 1), ("V", "arg", 2)
    for cfg in cfgs:
        verify_models(ctx, cfg, ["ArrayConsumer<$0,$1>::new", "ArrayConsumer<$0,$1>::iter_position", "IntrusiveArrayBuilder<$0,$1>::new", "IntrusiveArrayBuilder<$0,$1>::iter_position"])
        check_views(ctx, cfg)
        n = check_generate(ctx, cfg, GS + "generate", False)
        if (not cfg.startswith("F0")):
            n += check_generate(ctx, cfg, "<alloc::boxed::Box<GenericArray<$0,$1>,alloc::alloc::Global> as GenericSequence<$0>>::generate", True)
        n += check_map_fold(ctx, cfg)
        # zip bodies: (left operand of Zip, right operand of Zip, arguments of f)
        n += check_zip_body(ctx, cfg, GS + "inverted_zip", [
            (("slice", A2), ("slice", A1), [("read", 0), ("read", 1)]),      # drop branch: consumers of lhs and self
            (("slice", A2), ("slice", A1), [("read", 0), ("read", 1)]),      # no-drop branch: ManuallyDrop of lhs and self
        ])
        n += check_zip_body(ctx, cfg, GS + "inverted_zip2", [
            (("slice", A1), ("value", A2), [("val", 1), ("read", 0)]),       # f(lhs item, read(self slot))
            (("slice", A1), ("value", A2), [("val", 1), ("read", 0)]),
        ])
        n += check_zip_body(ctx, cfg, "trait GenericSequence::inverted_zip", [
            (("slice", A2), ("value", A1), [("read", 0), ("val", 1)]),       # f(read(lhs slot), self item)
        ])
        n += check_zip_body(ctx, cfg, "trait GenericSequence::inverted_zip2", [
            (("into_iter", A2), ("value", A1), [("val", 0), ("val", 1)]),    # f(lhs item, self item)
        ])
        n += check_dispatch(ctx, cfg)
        ctx.floor("C08", "generate/map/fold/zip bodies (%s)" % cfg, n, 7)
        r = check_receivers(ctx, cfg)
        ctx.floor("C08.R", "receiver-form obligations (%s)" % cfg, r, 8)
        check_default_clone(ctx, cfg)
        check_clone_from(ctx, cfg)
        # every map / zip / clone above ends in from_iter: that it turns a source of exactly N items into the array of those items, in order,
        # for every N (0 included) is C07's statement - its rules are run here instead of being assumed
        from . import c07 as _c07
        _c07.check_try(ctx, cfg, _c07.K_TRY, False)
        for k_ in _c07.K_EXT:
            _c07.check_extend(ctx, cfg, k_)
        _c07.check_from_iter(ctx, cfg, _c07.K_FROM, _c07.K_TRY)
        if not cfg.startswith("F0"):
            _c07.check_try(ctx, cfg, _c07.K_TRYB, True)
            _c07.check_from_iter(ctx, cfg, _c07.K_FROMB, _c07.K_TRYB)
