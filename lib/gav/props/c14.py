"""C14 - hex formatting (PARTIAL claim: capacity / clamp / coverage / case-selection obligations of hex.rs)."""

from ..core import PROVED, REFUTED, UNKNOWN, MISSING
from ..poly import Poly, prove, mk_min
from ..rules import vstr, fstr, payload_calls
from ..tys import tstr

EXPLANATION = (
    "PARTIAL. The digit strings themselves (byte values, nibble order, per-chunk ordering, the exact total across chunks, equality with the SIMD encoder) are numerical results and are NOT decided here. "
    "What is decided statically, on the MIR of hex.rs with N and the precision symbolic (configs F0, F1 and - for the faster-hex path - F2), are the conditions every unchecked operation in hex.rs rests on, each a "
    "necessary condition of the property (breaking one gives undefined behaviour or missing / excess characters): H1 the digit budget is exactly min(precision, 2N) (the Some-arm yields the precision only under p < 2N, every other arm yields 2N) "
    "and is <= 2N wherever it is used; H2 the byte count is (d >> 1) + (d & 1), the unreachable_unchecked guarding `max_bytes > N` is infeasible, and 2*bytes >= digits (every printed position was written); "
    "H3 small path (entered only under N <= 1024): buffer extent 2N, each encoder call has dst.len() >= 2*src.len(), the printed prefix ..max_digits is within the buffer; H4 large path: buffer 2048 bytes, chunk length <= 1024 so 2*chunk <= buffer, "
    "the printed prefix min(2*chunk, digits_left) is within the buffer and never exceeds digits_left (no underflow of the budget); H5 the capacity precondition of hex_encode_fallback's unreachable_unchecked (and of unwrap_unchecked on faster_hex's "
    "result under F2) holds at every call site, and hex_encode passes (src, dst) through unchanged; H7 every write_str receives a buffer prefix of exactly the digit budget of its path; H6 LowerHex instantiates generic_hex with UPPER = false and UpperHex with true, and the constant digit tables are keyed by UPPER.")


def find_calls(a, pred):
    return [c for c in a.calls if pred(c)]


def cap_ok(a, c):
    """dst.len() >= 2 * src.len() at call c (args: src, dst)."""
    s, d = c.args[0], c.args[1]
    if s[0] != "P" or d[0] != "P" or s[3] is None or d[3] is None:
        return None, "lengths not tracked: %s, %s" % (vstr(s), vstr(d))
    ok = prove((">=", d[3] - s[3] * Poly.const(2)), a.poly_facts(c.facts))
    return ok, "dst.len() = %r, src.len() = %r under %s" % (d[3], s[3], fstr(c.facts))


def check_generic_hex(ctx, cfg):
    key = "generic_hex"
    b = ctx.body(cfg, key, "C14.H1")
    if b is None:
        return
    a = ctx.analysis(cfg, key)
    if a.unknown:
        ctx.ob("C14.H1", key + "#analysis", UNKNOWN, "analysis incomplete: %s" % a.unknown[:2], at=b["at"], cfg=cfg)
    N = a.tenv.length({"k": "param", "n": b["generics"][0]["n"]})
    # --- identify max_digits: the RangeTo bound of the small-path get_unchecked on the 2N buffer
    gus = find_calls(a, lambda c: c.fn == "core::slice::<impl [T]>::get_unchecked")
    small = [c for c in gus if c.args[0][0] == "P" and c.args[0][3] is not None and c.args[0][3] == N * Poly.const(2)]
    large = [c for c in gus if c.args[0][0] == "P" and c.args[0][3] is not None and c.args[0][3].is_const()]
    if len(small) != 1 or len(large) != 1:
        ctx.ob("C14.H3", key, REFUTED if gus else MISSING, "expected one prefix cut on the 2N stack buffer and one on the fixed chunk buffer; found %d / %d" % (len(small), len(large)), at=b["at"], cfg=cfg)
        return
    rng = a.range_of(small[0].args[1], small[0].args[0][3])
    md = rng[1]
    # H1: exact clamp
    prec = find_calls(a, lambda c: c.fn.endswith("Formatter::<'a>::precision"))
    ok1 = False
    det1 = "precision() call not found"
    mdl = None
    for at in md.atoms():
        if isinstance(at, tuple) and at[0] == "phi" and at[2][0][0] == "local":
            mdl = at[2][0][1]
    if len(prec) == 1 and mdl is not None:
        pv = Poly.atom(("proj", ("proj", prec[0].ret, (("v", 1), 0))))
        sites = [s for s in a.assigns if s["cell"] == (("local", mdl), ()) and s["val"][0] == "I"]
        good = bool(sites)
        dets = []
        for s in sites:
            v = s["val"][1]
            pf = a.poly_facts(s["facts"])
            if v == pv:
                g = prove((">=", N * Poly.const(2) - pv), pf)
                dets.append("arm yielding the precision is taken under p <= 2N: %s" % g)
            elif v == N * Poly.const(2):
                # every CFG edge into this arm carries `precision is None` or `p >= 2N`
                bbk = s["site"][0]
                g = True
                n_edges = 0
                for (pr, su), fl in a.edge_facts.items():
                    if su != bbk:
                        continue
                    for fs in fl:
                        n_edges += 1
                        none = any(f[0] == "variant" and f[1] == prec[0].ret and f[2] == 0 for f in fs)
                        ge = prove((">=", pv - N * Poly.const(2) + Poly.const(1)), a.poly_facts(fs))  # p >= 2N - 1 ... see below
                        ge_strict = prove((">=", pv - N * Poly.const(2)), a.poly_facts(fs))
                        g = g and (none or ge_strict)
                g = g and n_edges > 0
                dets.append("arm yielding 2N is entered only when the precision is absent or >= 2N (%d edges): %s" % (n_edges, g))
            elif v == mk_min(pv, N * Poly.const(2)):
                g = True
                dets.append("arm yielding min(precision, 2N) directly")
            else:
                g = False
                dets.append("unexpected budget value %r" % (v,))
            good = good and g
        has_p = any(s["val"][1] == pv or s["val"][1] == mk_min(pv, N * Poly.const(2)) for s in sites)
        has_2n = any(s["val"][1] == N * Poly.const(2) for s in sites)
        ok1 = good and has_p and has_2n
        det1 = "; ".join(dets)
    ctx.ob("C14.H1", key + "#clamp", ok1, "digit budget = min(precision, 2N): " + det1, at=b["at"], cfg=cfg)
    # H2
    idx = find_calls(a, lambda c: c.fn == "core::ops::Index::index")
    ok2 = False
    det2 = "input sub-slice not found"
    mb = None
    if idx:
        r = a.range_of(idx[0].args[1], None)
        if r is not None:
            mb = r[1]
            want = Poly.atom(("shr1", md)) + Poly.atom(("and1", md))
            ok2 = mb == want and idx[0].args[0][0] == "P" and idx[0].args[0][1] == ("arg", 1)
            det2 = "input = arr[..%r]; spec ceil(max_digits / 2) = (d >> 1) + (d & 1)" % (mb,)
    ctx.ob("C14.H2", key + "#bytes", ok2, det2, at=b["at"], cfg=cfg)
    un = find_calls(a, lambda c: c.fn == "core::hint::unreachable_unchecked")
    for i, c in enumerate(un):
        infeasible = prove((">=", Poly.const(-1)), a.poly_facts(c.facts))
        ctx.ob("C14.H2", "%s#unreachable#%d" % (key, i), infeasible, "hint reached under %s; infeasible: %s" % (fstr(c.facts), infeasible), at=c.at, cfg=cfg)
    if mb is not None:
        cov = prove((">=", mb * Poly.const(2) - md), a.poly_facts(small[0].facts))
        ctx.ob("C14.H2", key + "#coverage", cov, "2 * max_bytes >= max_digits (every printed position was written by the encoder): %s" % cov, at=b["at"], cfg=cfg)
    # H3 small path
    pf = a.poly_facts(small[0].facts)
    ctx.ob("C14.H3", key + "#small_prefix", prove((">=", N * Poly.const(2) - md), pf), "printed prefix ..%r within the 2N-byte buffer under %s" % (md, fstr(small[0].facts)), at=small[0].at, cfg=cfg)
    ctx.ob("C14.H3", key + "#small_guard", prove((">=", Poly.const(1024) - N), pf), "stack-buffer path entered only under N <= 1024: %s" % fstr(small[0].facts), at=small[0].at, cfg=cfg)
    # H4 large path
    c = large[0]
    r = a.range_of(c.args[1], c.args[0][3])
    n = r[1]
    pf = a.poly_facts(c.facts)
    ctx.ob("C14.H4", key + "#chunk_prefix", prove((">=", c.args[0][3] - n), pf), "printed prefix ..%r within the %r-byte chunk buffer" % (n, c.args[0][3]), at=c.at, cfg=cfg)
    # the budget never underflows: the value stored back is old - n with n <= old
    dl = None
    for at in n.atoms():
        if isinstance(at, tuple) and at[0] == "min":
            for side in (at[1], at[2]):
                for x in side.atoms():
                    if isinstance(x, tuple) and x[0] == "phi":
                        dl = x
    okb = False
    if dl is not None:
        okb = prove((">=", Poly.atom(dl) - n), pf)
    ctx.ob("C14.H4", key + "#budget", okb, "n = %r never exceeds the remaining digit budget (no underflow of digits_left): %s" % (n, okb), at=c.at, cfg=cfg)
    # H7: every string handed to the formatter is a prefix of a digit buffer of exactly the digit budget of its path:
    # max_digits on the stack-buffer path, min(2 * chunk, digits_left) on the chunked path (a longer or shorter write prints the wrong number of digits)
    ws = find_calls(a, lambda c: c.fn.endswith("Formatter::<'a>::write_str"))
    for i, w in enumerate(ws):
        src = [c for c in a.calls if c.fn == "core::str::from_utf8_unchecked" and c.ret == w.args[1]]
        if len(src) != 1 or src[0].args[0][0] != "P" or src[0].args[0][3] is None:
            ctx.ob("C14.H7", "%s#write_str#%d" % (key, i), UNKNOWN, "the written string is not a tracked prefix of a digit buffer", at=w.at, cfg=cfg)
            continue
        p_ = src[0].args[0]
        pfw = a.poly_facts(w.facts)
        small_path = prove((">=", Poly.const(1024) - N), pfw)
        want = md if small_path else n
        ok7 = (not p_[2].t) and prove(("==", p_[3] - want), pfw)
        ctx.ob("C14.H7", "%s#write_str#%d" % (key, i), ok7, "write_str(buf[..%r]) on the %s path; required length: the digit budget %r: %s" % (p_[3], "stack-buffer" if small_path else "chunked", want, ok7), at=w.at, cfg=cfg)
    # H5: encoder calls
    encs = find_calls(a, lambda c: c.key in ("hex_encode", "hex_encode_fallback"))
    for i, c in enumerate(encs):
        ok, det = cap_ok(a, c)
        ctx.ob("C14.H5", "%s#%s#%d" % (key, c.key, i), ok, det, at=c.at, cfg=cfg)
        # UPPER forwarded
        up = c.targs[-1] if c.targs else None
        fwd = up is not None and up.get("k") == "cparam"
        ctx.ob("C14.H6", "%s#%s#%d#case" % (key, c.key, i), fwd, "the UPPER const parameter is forwarded to the encoder: %s" % (tstr(up) if up else None), at=c.at, cfg=cfg)
    ctx.floor("C14.H5", "encoder call sites in generic_hex (%s)" % cfg, len(encs), 1)
    ctx.sample({"rule": "C14", "cfg": cfg, "max_digits": repr(md), "max_bytes": repr(mb), "chunk_prefix": repr(n)})


def check_encoders(ctx, cfg):
    # hex_encode passes (src, dst) through to whatever encoder it selects
    b = ctx.body(cfg, "hex_encode", "C14.H5")
    if b is not None:
        a = ctx.analysis(cfg, "hex_encode")
        inner = [c for c in a.calls if c.key == "hex_encode_fallback" or c.fn.startswith("faster_hex::")]
        ok = bool(inner)
        for c in inner:
            s, d = c.args[0], c.args[1]
            ok = ok and s[0] == "P" and s[1] == ("arg", 1) and not s[2].t and d[0] == "P" and d[1] == ("arg", 2) and not d[2].t
        ctx.ob("C14.H5", "hex_encode#passthrough", ok, "hex_encode hands (src, dst) unchanged to %s" % [c.key or c.fn for c in inner], at=b["at"], cfg=cfg)
        fh = [c for c in inner if c.fn.startswith("faster_hex::")]
        if fh:
            # case selection under the SIMD encoder: the UPPER = true arm calls the *_upper function
            names = sorted(c.fn.split("::")[-1] for c in fh)
            ctx.ob("C14.H6", "hex_encode#simd_case", names == ["hex_encode", "hex_encode_upper"], "faster_hex entry points used: %s (one per case)" % names, at=b["at"], cfg=cfg)
            uu = [c for c in a.calls if c.fn.endswith("unwrap_unchecked")]
            ctx.ob("C14.H5", "hex_encode#unwrap_unchecked", len(uu) == len(fh), "unwrap_unchecked on the encoder result relies on the same capacity precondition (checked at hex_encode's call sites): %d sites" % len(uu), at=b["at"], cfg=cfg)
    b = ctx.body(cfg, "hex_encode_fallback", "C14.H5")
    if b is not None:
        a = ctx.analysis(cfg, "hex_encode_fallback")
        un = [c for c in a.calls if c.fn == "core::hint::unreachable_unchecked"]
        src_len, dst_len = Poly.atom(("len", ("arg", 1))), Poly.atom(("len", ("arg", 2)))
        ok = len(un) == 1 and a.prove(un[0].facts, "Lt", dst_len, src_len * Poly.const(2))
        ctx.ob("C14.H5", "hex_encode_fallback#hint", ok, "unreachable_unchecked is reached exactly when dst.len() < 2*src.len() (the negation of the checked precondition): %s" % (fstr(un[0].facts) if un else "-"), at=b["at"], cfg=cfg)
        # digit tables keyed by UPPER
        blocks = b["mir"]["blocks"]
        tables = {}
        for i, blk in enumerate(blocks):
            t = blk["term"]
            if t["k"] == "switch" and t["discr"]["k"] in ("copy", "move"):
                # discriminant local assigned from the const parameter?
                loc = t["discr"]["p"]["l"]
                src = [s for bl in blocks for s in bl["stmts"] if s["k"] == "assign" and s["lhs"]["l"] == loc and not s["lhs"]["p"]]
                if len(src) == 1 and src[0]["rv"].get("k") == "use" and src[0]["rv"]["op"].get("k") == "const" and src[0]["rv"]["op"]["c"].get("k") == "cparam":
                    for val, tb in t["targets"] + [[1 - t["targets"][0][0], t["otherwise"]]]:
                        strs = [s["rv"]["op"].get("s", "") for s in blocks[tb]["stmts"] if s["k"] == "assign" and s["rv"].get("k") == "use" and s["rv"]["op"].get("k") == "const"]
                        tables[val] = " ".join(strs)
        if tables:
            ok = "0123456789abcdef" in tables.get(0, "") and "0123456789ABCDEF" in tables.get(1, "")
            ctx.ob("C14.H6", "hex_encode_fallback#tables", ok, "digit tables keyed by UPPER: false -> %s, true -> %s" % (tables.get(0), tables.get(1)), at=b["at"], cfg=cfg)


def check_impls(ctx, cfg):
    for tr, want in (("LowerHex", 0), ("UpperHex", 1)):
        key = "<GenericArray<u8,$0> as core::fmt::%s>::fmt" % tr
        b = ctx.body(cfg, key, "C14.H6")
        if b is None:
            continue
        a = ctx.analysis(cfg, key)
        cs = [c for c in a.calls if c.key == "generic_hex"]
        ok = len(cs) == 1 and len(payload_calls(a)) == 1
        if ok:
            c = cs[0]
            up = c.targs[-1]
            ok = up.get("k") == "int" and up["v"] == want and c.args[0][0] == "P" and c.args[0][1] == ("arg", 1) and c.args[1][0] == "P" and c.args[1][1] == ("arg", 2) and all(r["val"] == c.ret for r in a.returns)
        ctx.ob("C14.H6", key, ok, "%s::fmt = generic_hex::<_, %s>(self, f): %s" % (tr, "true" if want else "false", ok), at=b["at"], cfg=cfg)


def check(ctx):
    ctx.explanation = EXPLANATION
    ctx.trusted = ["faster_hex::hex_encode(_upper) fails only when the destination is too small (its documented contract)", "slice::chunks(n) yields chunks of 1..=n elements",
                   "core::fmt precision semantics"]
    ctx.assumptions = ["NOT decided: digit values, nibble order, per-chunk ordering, that the running budget sums to exactly min(p, 2N) across chunks, equality of the two encoders' outputs"]
    cfgs = ["F0", "F1"] if ctx.tier == "quick" else ["F0", "F1", "F2"]
    ctx.need(*cfgs)
    for cfg in cfgs:
        check_generic_hex(ctx, cfg)
        check_encoders(ctx, cfg)
        check_impls(ctx, cfg)
