"""C14 - hex formatting: what reaches the formatter (table encoder: exactly the first min(p, 2N) digits) and the safety of every unchecked operation."""

from ..core import PROVED, REFUTED, UNKNOWN, MISSING
from ..poly import Poly, prove, mk_min
from ..rules import vstr, fstr, payload_calls, ub_hints
from ..tys import tstr

EXPLANATION = (
    "Decided statically on the MIR of hex.rs with N, the precision and the byte values symbolic (configs F0, F1; F2 = faster-hex for capacity and case selection). "
    "What is printed: H8 the table encoder stores dst[2k] = TABLE[src[k] >> 4], dst[2k+1] = TABLE[src[k] & 15] for every k < src.len() (pairing of dst.chunks_exact_mut(2) with src, or the equivalent loop forms); "
    "H6 TABLE is the lower-case alphabet for LowerHex and the upper-case one for UpperHex, the UPPER parameter is forwarded unchanged; H10 on the stack-buffer path every path to the single print runs exactly one encoder call "
    "from arr[0..L), L >= ceil(d/2), into the printed buffer from its first byte; H9 on the chunked path the pieces are input.chunks(k) over arr[0..ceil(d/2)) in order, each iteration encodes its piece once into the start of the "
    "buffer before printing, prints exactly min(2*piece, digits_left), and digits_left starts at d and is only decremented by what was printed - so the prints concatenate to the first d characters of the encoding of the input; "
    "H1/H7 d = min(precision, 2N) exactly (the Some-arm yields the precision only under p < 2N or as min(p, 2N), every other arm yields 2N) and the stack-buffer print has exactly that length. "
    "Safety of the unchecked operations: H2 ceil(d/2) <= N wherever an optimiser hint (unreachable_unchecked or assert_unchecked) assumes it, and 2*bytes >= d (every printed position was written); H3 small path entered only under N <= 1024, "
    "printed prefix within the 2N-byte buffer; H4 printed prefix within the 2048-byte chunk buffer and never above digits_left (no underflow); H5 dst.len() >= 2*src.len() at every encoder call - the precondition of the encoder's own hint "
    "and of unwrap_unchecked on faster_hex's result under F2 - and hex_encode passes (src, dst) through unchanged. Not analysed: the digits faster_hex produces (its contract is trusted).")


def find_calls(a, pred):
    return [c for c in a.calls if pred(c)]


def cap_ok(a, c):
    """dst.len() >= 2 * src.len() at call c (args: src, dst)."""
    s, d = c.args[0], c.args[1]
    if s[0] != "P" or d[0] != "P" or s[3] is None or d[3] is None:
        return None, "lengths not tracked: %s, %s" % (vstr(s), vstr(d))
    ok = prove((">=", d[3] - s[3] * Poly.const(2)), a.poly_facts(c.facts))
    return ok, "dst.len() = %r, src.len() = %r under %s" % (d[3], s[3], fstr(c.facts))


def check_generic_hex(ctx, cfg):
    key = "generic_hex"
    b = ctx.body(cfg, key, "C14.H1")
    if b is None:
        return
    a = ctx.analysis(cfg, key)
    if a.unknown:
        ctx.ob("C14.H1", key + "#analysis", UNKNOWN, "analysis incomplete: %s" % a.unknown[:2], at=b["at"], cfg=cfg)
    N = a.tenv.length({"k": "param", "n": b["generics"][0]["n"]})
    # --- every string handed to the formatter: write_str(from_utf8_unchecked(P(buffer, offset, length))) - however the prefix was cut
    # (get_unchecked(..n), &buf[..n], from_raw_parts(buf.as_ptr(), n)); the buffer's extent comes from the type of the local it lives in
    ws_all = find_calls(a, lambda c: c.fn.endswith("Formatter::<'a>::write_str"))
    prints = []
    for w in ws_all:
        src = [c for c in a.calls if c.fn in ("core::str::from_utf8_unchecked", "core::str::converts::from_utf8_unchecked") and c.ret == w.args[1]]
        p_ = src[0].args[0] if len(src) == 1 else None
        ext = None
        if p_ is not None and p_[0] == "P" and p_[1][0] == "local":
            ext = a.tenv.size(a.local_ty(p_[1][1]))
        prints.append((w, p_, ext))
    # H11: the formatter reaches nothing but precision() and the write_str sites judged below - a second output channel (write!/write_fmt with core's
    # integer formatter, pad, write_char, a helper that is handed `f`) prints characters none of the rules H1-H10 looks at
    def _is_fmt(v):
        return isinstance(v, tuple) and v and v[0] == "P" and v[1] == ("arg", 2)
    sinks = [c for c in a.calls if any(_is_fmt(x) for x in c.args)]
    other = [c for c in sinks if not (c.fn.endswith("Formatter::<'a>::write_str") or c.fn.endswith("Formatter::<'a>::precision"))]
    esc = [g for g in a.aggregates if any(_is_fmt(x) for x in g["ops"])]
    ctx.ob("C14.H11", key + "#sinks", not other and not esc and bool(ws_all),
           "the formatter is handed only to precision() and to the %d judged write_str site(s)%s" % (
               len(ws_all), "" if not (other or esc) else "; other receivers: %s" % sorted({c.fn for c in other} | {"captured in %s" % (g["kind"],) for g in esc})),
           at=(other[0].at if other else b["at"]), cfg=cfg)
    small = [x for x in prints if x[2] is not None and x[2] == N * Poly.const(2) and x[1][3] is not None]
    large = [x for x in prints if x[2] is not None and x[2].is_const() and x[1][3] is not None]
    if len(small) != 1 or not large or len(small) + len(large) != len(prints):
        ctx.ob("C14.H3", key, REFUTED if prints else MISSING, "expected every write_str to print a tracked prefix of the 2N-byte stack buffer (one site) or of the fixed chunk buffer; found %d / %d of %d write_str sites" % (len(small), len(large), len(prints)), at=b["at"], cfg=cfg)
        return
    md = small[0][1][3]
    # H1: exact clamp
    prec = find_calls(a, lambda c: c.fn.endswith("Formatter::<'a>::precision"))
    ok1 = False
    det1 = "precision() call not found"
    mdl = None
    for at in md.atoms():
        if isinstance(at, tuple) and at[0] == "phi" and at[2][0][0] == "local":
            mdl = at[2][0][1]
    if len(prec) == 1 and mdl is not None:
        pv = Poly.atom(("proj", ("proj", prec[0].ret, (("v", 1), 0))))
        sites = [s for s in a.assigns if s["cell"] == (("local", mdl), ()) and s["val"][0] == "I"]
        # an arm may also yield its value as the destination of a call (`Some(p) => min(p, 2 * N)`)
        sites += [{"val": c.ret, "facts": c.facts, "site": (c.bb, None)} for c in a.calls
                  if c.term.get("dest") and c.term["dest"]["l"] == mdl and not c.term["dest"]["p"] and c.ret is not None and c.ret[0] == "I"]
        good = bool(sites)
        dets = []
        for s in sites:
            v = s["val"][1]
            pf = a.poly_facts(s["facts"])
            if v == pv:
                g = prove((">=", N * Poly.const(2) - pv), pf)
                dets.append("arm yielding the precision is taken under p <= 2N: %s" % g)
            elif v == N * Poly.const(2):
                # every CFG edge into this arm carries `precision is None` or `p >= 2N`
                bbk = s["site"][0]
                g = True
                n_edges = 0
                for (pr, su), fl in a.edge_facts.items():
                    if su != bbk:
                        continue
                    for fs in fl:
                        n_edges += 1
                        none = any(f[0] == "variant" and f[1] == prec[0].ret and f[2] == 0 for f in fs)
                        ge = prove((">=", pv - N * Poly.const(2) + Poly.const(1)), a.poly_facts(fs))  # p >= 2N - 1 ... see below
                        ge_strict = prove((">=", pv - N * Poly.const(2)), a.poly_facts(fs))
                        g = g and (none or ge_strict)
                g = g and n_edges > 0
                dets.append("arm yielding 2N is entered only when the precision is absent or >= 2N (%d edges): %s" % (n_edges, g))
            elif v == mk_min(pv, N * Poly.const(2)):
                g = True
                dets.append("arm yielding min(precision, 2N) directly")
            else:
                g = False
                dets.append("unexpected budget value %r" % (v,))
            good = good and g
        has_p = any(s["val"][1] == pv or s["val"][1] == mk_min(pv, N * Poly.const(2)) for s in sites)
        has_2n = any(s["val"][1] == N * Poly.const(2) for s in sites)
        ok1 = good and has_p and has_2n
        det1 = "; ".join(dets)
    ctx.ob("C14.H1", key + "#clamp", ok1, "digit budget = min(precision, 2N): " + det1, at=b["at"], cfg=cfg)
    # H2
    idx = find_calls(a, lambda c: c.fn == "core::ops::Index::index")
    ok2 = False
    det2 = "input sub-slice not found"
    mb = None
    if idx:
        r = a.range_of(idx[0].args[1], None)
        if r is not None:
            mb = r[1]
            want = Poly.atom(("shr1", md)) + Poly.atom(("and1", md))
            ok2 = (mb == want or prove(("==", mb - want), a.poly_facts(idx[0].facts))) and idx[0].args[0][0] == "P" and idx[0].args[0][1] == ("arg", 1)
            det2 = "input = arr[..%r]; spec ceil(max_digits / 2) = (d >> 1) + (d & 1)" % (mb,)
    ctx.ob("C14.H2", key + "#bytes", ok2, det2, at=b["at"], cfg=cfg)
    for i, (c, bad) in enumerate(ub_hints(a)):
        infeasible = bad is not None and prove((">=", Poly.const(-1)), a.poly_facts(bad))
        ctx.ob("C14.H2", "%s#unreachable#%d" % (key, i), infeasible, "hint violated under %s; infeasible: %s" % (fstr(bad) if bad is not None else "?", infeasible), at=c.at, cfg=cfg)
    sw, sp, sext = small[0]
    if mb is not None:
        cov = prove((">=", mb * Poly.const(2) - md), a.poly_facts(sw.facts))
        ctx.ob("C14.H2", key + "#coverage", cov, "2 * max_bytes >= max_digits (every printed position was written by the encoder): %s" % cov, at=b["at"], cfg=cfg)
    # H3 small path
    pf = a.poly_facts(sw.facts)
    ctx.ob("C14.H3", key + "#small_prefix", (not sp[2].t) and prove((">=", N * Poly.const(2) - md), pf), "printed prefix [0, %r) within the 2N-byte buffer under %s" % (md, fstr(sw.facts)), at=sw.at, cfg=cfg)
    ctx.ob("C14.H3", key + "#small_guard", prove((">=", Poly.const(1024) - N), pf), "stack-buffer path entered only under N <= 1024: %s" % fstr(sw.facts), at=sw.at, cfg=cfg)
    # H4 large path: every print from the chunk buffer
    n = None
    for li, (lw, lp_, lext) in enumerate(large):
        n_i = lp_[3]
        n = n if n is not None else n_i
        pf = a.poly_facts(lw.facts)
        tag = "" if li == 0 else "#%d" % li
        ctx.ob("C14.H4", key + "#chunk_prefix" + tag, (not lp_[2].t) and prove((">=", lext - n_i), pf), "printed prefix [0, %r) within the %r-byte chunk buffer" % (n_i, lext), at=lw.at, cfg=cfg)
        # the budget never underflows: the value stored back is old - n with n <= old
        dl = None
        for at in n_i.atoms():
            if isinstance(at, tuple) and at[0] == "min":
                for side in at[1:]:
                    for x in side.atoms():
                        if isinstance(x, tuple) and x[0] == "phi":
                            dl = x
        okb = dl is not None and prove((">=", Poly.atom(dl) - n_i), pf)
        ctx.ob("C14.H4", key + "#budget" + tag, okb, "n = %r never exceeds the remaining digit budget (no underflow of digits_left): %s" % (n_i, okb), at=lw.at, cfg=cfg)
    # H7: the stack-buffer path prints exactly the digit budget (by construction of md above: it IS the printed length; that it is the clamped
    # budget is H1); on the chunked path each print is min(2 * chunk, digits_left) - checked with the loop accounting below (H9)
    ctx.ob("C14.H7", "%s#write_str#small" % key, (not sp[2].t), "write_str(buf[0..%r]) on the stack-buffer path: the prefix starts at the buffer's first byte: %s" % (md, not sp[2].t), at=sw.at, cfg=cfg)
    check_accounting(ctx, cfg, a, b, key, N, md, mb, small[0], large)
    # H5: encoder calls
    encs = find_calls(a, lambda c: c.key in ("hex_encode", "hex_encode_fallback"))
    for i, c in enumerate(encs):
        ok, det = cap_ok(a, c)
        ctx.ob("C14.H5", "%s#%s#%d" % (key, c.key, i), ok, det, at=c.at, cfg=cfg)
        # UPPER forwarded
        up = c.targs[-1] if c.targs else None
        fwd = up is not None and up.get("k") == "cparam"
        ctx.ob("C14.H6", "%s#%s#%d#case" % (key, c.key, i), fwd, "the UPPER const parameter is forwarded to the encoder: %s" % (tstr(up) if up else None), at=c.at, cfg=cfg)
    ctx.floor("C14.H5", "encoder call sites in generic_hex (%s)" % cfg, len(encs), 1)
    ctx.sample({"rule": "C14", "cfg": cfg, "max_digits": repr(md), "max_bytes": repr(mb), "chunk_prefix": repr(n)})


def enc_calls(a):
    return [c for c in a.calls if c.key in ("hex_encode", "hex_encode_fallback") or c.fn.startswith("faster_hex::")]


def check_accounting(ctx, cfg, a, b, key, N, md, mb, small, large):
    """H10 (stack-buffer path) and H9 (chunked path): WHICH bytes' digits reach the formatter, in which order, and how many of them.
    Together with H8 (what the encoder writes) this decides the printed string for the table encoder: it is the first max_digits characters of
    the concatenated two-digit forms of arr[0], arr[1], ..."""
    from ..loops import find_loops
    encs = enc_calls(a)
    sw, sp, _ = small
    # H10: the string printed on the stack-buffer path is the start of the buffer the encoder filled from the start of the array
    doms = [c for c in encs if a.reaches(c.bb, sw.bb) and c.args[1][0] == "P" and c.args[1][1] == sp[1]]
    bad = []
    for c in doms:
        src, dst = c.args[0], c.args[1]
        if not (src[0] == "P" and src[1] == ("arg", 1) and not src[2].t and src[3] is not None):
            bad.append("encoder source is not a prefix of the array from its first byte: %s" % vstr(src))
        elif mb is not None and not prove((">=", src[3] - mb), a.poly_facts(c.facts)):
            bad.append("encoder source %s may be shorter than max_bytes" % vstr(src))
        if dst[2].t:
            bad.append("encoder destination does not start at the buffer's first byte: %s" % vstr(dst))
    # every path to the print passes exactly one of these encoder calls: none of them reaches another, and the print is unreachable without one
    multi = [1 for x in doms for y in doms if x is not y and a.reaches(x.bb, y.bb)]
    cut = not a.reaches_avoiding(0, sw.bb, {c.bb for c in doms}) if hasattr(a, "reaches_avoiding") else None
    if cut is None:
        cut = _reach_avoiding(a, 0, sw.bb, {c.bb for c in doms}) is False
    ok10 = bool(doms) and not bad and not multi and cut
    ctx.ob("C14.H10", key + "#small", ok10, "stack-buffer path: every path to the print runs exactly one encoder call (%d sites; none on a path: %s) whose source is arr[0..L) with L >= max_bytes and whose destination is the printed buffer from its first byte: %s" % (
        len(doms), not cut, "True" if not bad else "; ".join(bad)), at=sw.at, cfg=cfg)
    # H9: chunked path
    loops = find_loops(a)
    for li, (lw, lp_, lext) in enumerate(large):
        site = key + "#chunked" + ("" if li == 0 else "#%d" % li)
        lps = [lp for lp in loops if lw.bb in lp.blocks]
        if len(lps) != 1:
            # a print from the chunk buffer outside any recognised loop over the input (or a loop form that is not an iterator pipeline):
            # the per-iteration tie below cannot be stated; the sequencing is then NOT decided for this site (no alarm: H4/H5 still hold)
            ctx.note("C14.H9 %s: print site is not inside a loop over an iterator pipeline - chunk sequencing not decided for this form" % site)
            continue
        lp = lps[0]
        n_i = lp_[3]
        inl = [c for c in encs if c.bb in lp.blocks]
        once = lp.count_on_paths(lambda c: c in inl) == {1} and lp.count_on_paths(lambda c: c is lw) <= {0, 1}
        tie = len(inl) == 1 and inl[0].args[1][0] == "P" and inl[0].args[1][1] == lp_[1] and not inl[0].args[1][2].t and a.dominates(inl[0].bb, lw.bb)
        src = inl[0].args[0] if inl else None
        # the budget cell: the phi the printed length is the min with
        dl = None
        for at in n_i.atoms():
            if isinstance(at, tuple) and at[0] == "min":
                for side in at[1:]:
                    for x in side.atoms():
                        if isinstance(x, tuple) and x[0] == "phi":
                            dl = x
        exact = tie and src is not None and src[0] == "P" and src[3] is not None and dl is not None and n_i == mk_min(src[3] * Poly.const(2), Poly.atom(dl))
        # digits_left: initialised with max_digits before the loop, and inside the loop only ever replaced by (itself - n), once per iteration
        acc = False
        det_acc = "budget variable not identified"
        if dl is not None and dl[2][0][0] == "local":
            cell = (("local", dl[2][0][1]), ())
            sites = [x for x in a.assigns if x["cell"] == cell and x["val"][0] == "I"]
            inside = [x for x in sites if x["site"][0] in lp.blocks]
            outside = [x for x in sites if x["site"][0] not in lp.blocks]
            init_ok = len(outside) >= 1 and all(x["val"][1] == md for x in outside)
            step_ok = len(inside) == 1 and inside[0]["val"][1] == Poly.atom(dl) - n_i
            once_dec = step_ok and _count_blocks(lp, {inside[0]["site"][0]}) == {1}
            acc = init_ok and step_ok and once_dec
            det_acc = "initialised with max_digits: %s; in the loop only `-= n`, once per iteration: %s/%s" % (init_ok, step_ok, once_dec)
        # the producer of the chunks
        pipe = lp.pipe
        prod = None
        if isinstance(pipe, tuple) and len(pipe) == 5 and pipe[:3] == ("V", "iter", "chunks") and not lp.backward:
            inp = pipe[3]
            whole = inp[0] == "P" and inp[1] == ("arg", 1) and not inp[2].t and inp[3] is not None and mb is not None and inp[3] == mb
            k_ok = pipe[4].is_const() and 1 <= pipe[4].const_value() and 2 * pipe[4].const_value() <= (lext.const_value() if lext.is_const() else 0)
            item = src is not None and src == lp.payload
            prod = whole and k_ok and item
            det_p = "chunks(%r) over arr[0..max_bytes) from its first byte, forward, unadapted: %s/%s; the encoder's source is this iteration's chunk: %s" % (pipe[4], whole, k_ok, item)
        elif isinstance(pipe, tuple) and pipe and pipe[0] == "V" and pipe[1] == "iter":
            prod = False
            det_p = "the loop iterates %s - not consecutive chunks of the input in order" % vstr(pipe)[:160]
        else:
            det_p = "producer of the pieces not recognised: sequencing not decided for this form"
        leave = all(_leaves_fn(a, y) for (x, y) in lp.breaks)
        ok9 = bool(once and tie and exact and acc and leave and prod is not False)
        ctx.ob("C14.H9", site, ok9, "each iteration encodes its piece into the chunk buffer from its first byte, once, before printing: %s/%s; printed length is exactly min(2 * piece, digits_left): %s; %s; the loop is only left early by returning (a formatter error): %s; %s" % (
            once, tie, exact, det_acc, leave, det_p), at=lw.at, cfg=cfg)


def _reach_avoiding(a, src, dst, avoid):
    seen, work = set(), [src]
    while work:
        x = work.pop()
        if x in seen or x in avoid:
            continue
        if x == dst:
            return True
        seen.add(x)
        work.extend(s for s in a.edges.get(x, []) if not a.blocks[s]["cleanup"])
    return False


def _count_blocks(lp, bbs):
    """How many times one step of the loop passes through any block of bbs."""
    a = lp.a
    memo = {}

    def go(bb, stack):
        if bb in stack:
            return None
        if bb in memo:
            return memo[bb]
        here = 1 if bb in bbs else 0
        out = set()
        for s_ in a.edges.get(bb, []):
            if a.blocks[s_]["cleanup"]:
                continue
            if s_ == lp.nxt.bb:
                out.add(here)
            elif s_ in lp.blocks:
                r = go(s_, stack | {bb})
                if r is None:
                    return None
                out |= {here + x for x in r}
        memo[bb] = out
        return out
    res = set()
    for e in lp.entries:
        r = go(e, frozenset())
        if r is None:
            return None
        res |= r
    return res


def _leaves_fn(a, bb):
    """From bb (outside the loop) control only reaches return blocks without further prints."""
    seen, work = set(), [bb]
    while work:
        x = work.pop()
        if x in seen:
            continue
        seen.add(x)
        for c in a.calls:
            if c.bb == x and c.fn.endswith("write_str"):
                return False
        work.extend(s for s in a.edges.get(x, []) if not a.blocks[s]["cleanup"])
    return True


def check_encoders(ctx, cfg):
    # hex_encode passes (src, dst) through to whatever encoder it selects
    b = ctx.body(cfg, "hex_encode", "C14.H5")
    if b is not None:
        a = ctx.analysis(cfg, "hex_encode")
        inner = [c for c in a.calls if c.key == "hex_encode_fallback" or c.fn.startswith("faster_hex::")]
        ok = bool(inner)
        for c in inner:
            s, d = c.args[0], c.args[1]
            ok = ok and s[0] == "P" and s[1] == ("arg", 1) and not s[2].t and d[0] == "P" and d[1] == ("arg", 2) and not d[2].t
        ctx.ob("C14.H5", "hex_encode#passthrough", ok, "hex_encode hands (src, dst) unchanged to %s" % [c.key or c.fn for c in inner], at=b["at"], cfg=cfg)
        fh = [c for c in inner if c.fn.startswith("faster_hex::")]
        if fh:
            # case selection under the SIMD encoder: the UPPER = true arm calls the *_upper function
            names = sorted(c.fn.split("::")[-1] for c in fh)
            ctx.ob("C14.H6", "hex_encode#simd_case", names == ["hex_encode", "hex_encode_upper"], "faster_hex entry points used: %s (one per case)" % names, at=b["at"], cfg=cfg)
            # optimiser hints about the SIMD encoder's result (`unwrap_unchecked`, or `unreachable_unchecked` under `is_err`): each one assumes
            # only "the encoder did not fail", which is the capacity precondition checked at hex_encode's call sites - none assumes anything else
            uu = [c for c in a.calls if c.fn.endswith("unwrap_unchecked")]
            rets = [c.ret for c in fh]
            uu_ok = all(c.args and c.args[0] in rets for c in uu)
            hints = ub_hints(a)
            fhb = {c.bb for c in fh}
            h_ok = all(any(isinstance(f_, tuple) and len(f_) == 3 and f_[0] == "b" and isinstance(f_[1], tuple) and f_[1][0] == "is_ok" and f_[2] is False for f_ in (fs_ or ()))
                       and not _reach_avoiding(a, 0, c.bb, fhb) for c, fs_ in hints)
            ctx.ob("C14.H5", "hex_encode#unwrap_unchecked", uu_ok and h_ok, "optimiser hints on the encoder result assume only that the encoder did not fail (the capacity precondition checked at hex_encode's call sites): %d unwrap_unchecked on an encoder result: %s; %d unreachable hint(s) under `result is an error`: %s" % (len(uu), uu_ok, len(hints), h_ok), at=b["at"], cfg=cfg)
    # with faster-hex on, the table encoder is optional (a build that never calls it may cfg it out): nothing refers to it then, nothing to judge
    b = ctx.db(cfg).get("hex_encode_fallback") if cfg.startswith("F2") else ctx.body(cfg, "hex_encode_fallback", "C14.H5")
    if b is None and cfg.startswith("F2"):
        ctx.note("C14.H5/H8 %s: hex_encode_fallback is not compiled in this configuration (every encoder call goes to faster_hex)" % cfg)
    if b is not None:
        a = ctx.analysis(cfg, "hex_encode_fallback")
        un = ub_hints(a)
        src_len, dst_len = Poly.atom(("len", ("arg", 1))), Poly.atom(("len", ("arg", 2)))
        # the hint assumes nothing beyond the capacity precondition the call sites establish: under dst.len() >= 2 * src.len() it cannot be violated
        pre = frozenset([("poly", ">=", dst_len - src_len * Poly.const(2))])
        ok = all(bad is not None and prove((">=", Poly.const(-1)), a.poly_facts(bad | pre)) for _, bad in un)
        ctx.ob("C14.H5", "hex_encode_fallback#hint", ok, "%d optimiser hint(s); none can be violated when dst.len() >= 2*src.len() (the precondition checked at every call site): %s" % (len(un), [fstr(bad) if bad is not None else "?" for _, bad in un]), at=b["at"], cfg=cfg)
        # digit tables keyed by UPPER
        blocks = b["mir"]["blocks"]
        tables = {}
        for i, blk in enumerate(blocks):
            t = blk["term"]
            if t["k"] == "switch" and t["discr"]["k"] in ("copy", "move"):
                # discriminant local assigned from the const parameter?
                loc = t["discr"]["p"]["l"]
                src = [s for bl in blocks for s in bl["stmts"] if s["k"] == "assign" and s["lhs"]["l"] == loc and not s["lhs"]["p"]]
                if len(src) == 1 and src[0]["rv"].get("k") == "use" and src[0]["rv"]["op"].get("k") == "const" and src[0]["rv"]["op"]["c"].get("k") == "cparam":
                    for val, tb in t["targets"] + [[1 - t["targets"][0][0], t["otherwise"]]]:
                        strs = [s["rv"]["op"].get("s", "") for s in blocks[tb]["stmts"] if s["k"] == "assign" and s["rv"].get("k") == "use" and s["rv"]["op"].get("k") == "const"]
                        tables[val] = " ".join(strs)
        if tables:
            ok = "0123456789abcdef" in tables.get(0, "") and "0123456789ABCDEF" in tables.get(1, "")
            ctx.ob("C14.H6", "hex_encode_fallback#tables", ok, "digit tables keyed by UPPER: false -> %s, true -> %s" % (tables.get(0), tables.get(1)), at=b["at"], cfg=cfg)


def _digit_store(st):
    """(destination cell, nibble 0 = high / 1 = low, table base, source byte term) if the stored value is table[(byte >> 4)] or table[(byte & 15)]."""
    v = st["val"]
    if v[0] != "I":
        return None
    ats = v[1].atoms()
    if len(v[1].t) != 1 or len(ats) != 1:
        return None
    at = next(iter(ats))
    if not (isinstance(at, tuple) and at[0] == "cell" and isinstance(at[1], tuple) and len(at[1]) == 2):
        return None
    tb, path = at[1]
    if not (len(path) == 1 and isinstance(path[0], tuple) and path[0][0] == "idx" and path[0][1][0] == "I"):
        return None
    ix = path[0][1][1]
    ia = ix.atoms()
    if len(ix.t) != 1 or len(ia) != 1:
        return None
    x = next(iter(ia))
    if isinstance(x, tuple) and x[0] == "shr" and x[2] == 4:
        return st["cell"], 0, tb, x[1]
    if isinstance(x, tuple) and x[0] == "band" and x[2] == 15:
        return st["cell"], 1, tb, x[1]
    return None


def check_encoder_writes(ctx, cfg):
    """H8: what the table encoder writes: for every k < src.len(): dst[2k] = TABLE[src[k] >> 4], dst[2k + 1] = TABLE[src[k] & 15] (TABLE: H6)."""
    from ..loops import find_loops
    key = "hex_encode_fallback"
    b = ctx.db(cfg).get(key)
    if b is None:
        return
    a = ctx.analysis(cfg, key)
    rule = "C14.H8"
    src_ok = lambda p_: p_[0] == "P" and p_[1] == ("arg", 1) and not p_[2].t and p_[3] == Poly.atom(("len", ("arg", 1)))
    fes = [c for c in a.calls if c.fn == "core::iter::Iterator::for_each"]
    if len(fes) == 1:
        pipe, cv = fes[0].args[0], fes[0].args[1]
        shape = isinstance(pipe, tuple) and len(pipe) == 5 and pipe[:3] == ("V", "iter", "zip")
        d_ok = s_ok = False
        jd = 0
        if shape:
            d, s_ = pipe[3], pipe[4]
            if not (isinstance(d, tuple) and len(d) == 5 and d[:3] == ("V", "iter", "chunks_exact")) and isinstance(s_, tuple) and len(s_) == 5 and s_[:3] == ("V", "iter", "chunks_exact"):
                d, s_, jd = s_, d, 1   # src.iter().zip(dst.chunks_exact_mut(2)): the same pairing
            d_ok = isinstance(d, tuple) and len(d) == 5 and d[:3] == ("V", "iter", "chunks_exact") and d[3][0] == "P" and d[3][1] == ("arg", 2) and not d[3][2].t and d[4] == Poly.const(2)
            if isinstance(s_, tuple) and len(s_) == 5 and s_[:3] == ("V", "iter", "slice"):
                s_ = s_[3]
            s_ok = src_ok(s_)
        c_ok, cdet = False, "closure not found"
        if cv[0] == "A" and isinstance(cv[1], tuple) and cv[1][0] == "closure":
            cb = ctx.db(cfg).by_path.get(cv[1][1])
            ca = ctx.analysis(cfg, cb["key"])
            ds = [_digit_store(x) for x in ca.stores]
            slot = ("obj", ("proj", ("proj", ("V", "arg", 2), (jd,))))
            byte = Poly.atom(("cell", (("obj", ("proj", ("proj", ("V", "arg", 2), (1 - jd,)))), ())))
            good = len(ca.stores) == 2 and all(x is not None for x in ds)
            if good:
                by = {x[1]: x for x in ds}
                good = set(by) == {0, 1} and by[0][0] == (slot, (("idx", ("I", Poly.const(0))),)) and by[1][0] == (slot, (("idx", ("I", Poly.const(1))),)) \
                    and by[0][3] == byte and by[1][3] == byte and by[0][2] == by[1][2] == ("obj", ("cell", (("arg", 1), (0,))))
            tbl = len(cv[2]) >= 1 and cv[2][0][0] == "P"
            others = [c.fn for c in payload_calls(ca) if not getattr(c, "no_effects", False)]
            c_ok = good and tbl and not others
            cdet = "pair k: s[0] = TABLE[c >> 4], s[1] = TABLE[c & 15] with (s, c) = (k-th 2-byte piece of dst, k-th byte of src), both stores unconditional, nothing else: %s" % c_ok
        ok = shape and d_ok and s_ok and c_ok
        ctx.ob(rule, key, ok, "encoder = zip(dst.chunks_exact_mut(2) from dst[0]: %s, src from src[0], whole: %s).for_each(closure); %s" % (d_ok, s_ok, cdet), at=b["at"], cfg=cfg)
        return
    lps = [lp for lp in find_loops(a)]
    if len(lps) == 1:
        lp = lps[0]
        pipe = lp.pipe
        tag0 = lp.nxt.bb
        E = Poly.atom  # shorthand

        def strip(x):
            return x[3] if isinstance(x, tuple) and len(x) == 5 and x[:3] == ("V", "iter", "slice") else x
        form = None
        if isinstance(pipe, tuple) and len(pipe) == 4 and pipe[:3] == ("V", "iter", "enumerate") and not lp.backward:
            # for (k, &c) in src.iter().enumerate(): dst[2k], dst[2k + 1]
            form = "src.iter().enumerate()"
            s_ok = src_ok(strip(pipe[3]))
            idx = lp.index_val()
            e = idx[1] if idx is not None else None
            want = None if e is None else {0: (("arg", 2), (("idx", ("I", e * Poly.const(2))),)), 1: (("arg", 2), (("idx", ("I", e * Poly.const(2) + Poly.const(1))),))}
            byte_off = E(("elemoff", (tag0, 0)))
        elif isinstance(pipe, tuple) and len(pipe) == 5 and pipe[:3] == ("V", "iter", "zip") and not lp.backward:
            # for (s, &c) in dst.chunks_exact_mut(2).zip(src): s[0], s[1]
            # (either way round: the k-th item pairs the k-th piece with the k-th byte whichever side drives the zip)
            form = "dst.chunks_exact_mut(2).zip(src)"
            is_ce = lambda d: isinstance(d, tuple) and len(d) == 5 and d[:3] == ("V", "iter", "chunks_exact")
            jd = 0 if is_ce(pipe[3]) or not is_ce(pipe[4]) else 1
            if jd == 1:
                form = "src.iter().zip(dst.chunks_exact_mut(2))"
            d = pipe[3 + jd]
            d_ok = is_ce(d) and d[3][0] == "P" and d[3][1] == ("arg", 2) and not d[3][2].t and d[4] == Poly.const(2)
            s_ok = d_ok and src_ok(strip(pipe[4 - jd]))
            slot = ("off", ("arg", 2), E(("elemoff", (tag0, jd))))
            want = {0: (slot, (("idx", ("I", Poly.const(0))),)), 1: (slot, (("idx", ("I", Poly.const(1))),))}
            byte_off = E(("elemoff", (tag0, 1 - jd)))
        if form is not None:
            sts = [x for x in a.stores if x["site"][0] in lp.blocks]
            ds = [_digit_store(x) for x in sts]
            good = len(sts) == 2 and all(x is not None for x in ds) and want is not None
            if good:
                by = {x[1]: x for x in ds}
                byte = E(("cell", (("off", ("arg", 1), byte_off), ())))
                good = set(by) == {0, 1} and by[0][0] == want[0] and by[1][0] == want[1] and by[0][3] == byte and by[1][3] == byte and by[0][2] == by[1][2]
            once = bool(good) and (_count_blocks(lp, {x["site"][0] for x in sts}) == ({2} if sts[0]["site"][0] != sts[1]["site"][0] else {1}))
            ok = bool(s_ok and good and once and not lp.breaks)
            ctx.ob(rule, key, ok, "encoder = loop over %s (whole src from src[0], dst from dst[0], forward: %s) storing dst[2k] = TABLE[src[k] >> 4] and dst[2k + 1] = TABLE[src[k] & 15] in every iteration: %s/%s; no early exit: %s" % (
                form, s_ok, good, once, not lp.breaks), at=b["at"], cfg=cfg)
            return
    ctx.ob(rule, key, UNKNOWN, "the table encoder is neither zip(dst.chunks_exact_mut(2), src).for_each(..) nor one loop over src.iter().enumerate(): what it writes is not decided", at=b["at"], cfg=cfg)


def check_impls(ctx, cfg):
    for tr, want in (("LowerHex", 0), ("UpperHex", 1)):
        key = "<GenericArray<u8,$0> as core::fmt::%s>::fmt" % tr
        b = ctx.body(cfg, key, "C14.H6")
        if b is None:
            continue
        a = ctx.analysis(cfg, key)
        cs = [c for c in a.calls if c.key == "generic_hex"]
        ok = len(cs) == 1 and len(payload_calls(a)) == 1
        if ok:
            c = cs[0]
            up = c.targs[-1]
            ok = up.get("k") == "int" and up["v"] == want and c.args[0][0] == "P" and c.args[0][1] == ("arg", 1) and c.args[1][0] == "P" and c.args[1][1] == ("arg", 2) and all(r["val"] == c.ret for r in a.returns)
        ctx.ob("C14.H6", key, ok, "%s::fmt = generic_hex::<_, %s>(self, f): %s" % (tr, "true" if want else "false", ok), at=b["at"], cfg=cfg)


def check(ctx):
    ctx.explanation = EXPLANATION
    ctx.trusted = ["faster_hex::hex_encode(_upper) fails only when the destination is too small (its documented contract)", "slice::chunks(n) yields consecutive chunks of 1..=n elements in order; Zip pairs the k-th items of its two sides; chunks_exact_mut(2) yields dst[2k..2k+2]",
                   "core::fmt precision semantics"]
    ctx.assumptions = ["the SIMD encoder's digits (faster-hex, config F2) are not analysed: its documented contract is trusted", "a chunk producer that is not an iterator pipeline is reported as not decided, not as a violation"]
    cfgs = ["F0", "F1", "F1N", "F2"] + (["F0N", "F2N"] if ctx.tier == "thorough" else [])  # the property quantifies over faster-hex off and on: the SIMD configuration is cheap enough for every run
    ctx.need(*cfgs)
    for cfg in cfgs:
        check_generic_hex(ctx, cfg)
        check_encoders(ctx, cfg)
        check_encoder_writes(ctx, cfg)
        check_impls(ctx, cfg)
