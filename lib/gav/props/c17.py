"""C17 - serde: arrays are fixed-size tuples, any other length is rejected."""

from ..core import PROVED, REFUTED, UNKNOWN, MISSING
from ..poly import Poly, prove
from ..models import verify_models
from ..ownership import owner_adts, local_adt, raw_write_discipline, unwind_drops
from ..rules import vstr, fstr, payload_calls, check_views
from ..typestate import Classifier
from . import c07

EXPLANATION = (
    "Static shape analysis of impl_serde.rs (config F1; F2 in thorough). C17.S serialize: the body is serialize_tuple(N)?, then one serialize_element(el)? per item of the full forward iteration over &self (the element passed is the "
    "item just yielded), then end(); no other serializer entry point is called (so no length prefix). C17.T deserialize: deserialize_tuple(N, visitor). C17.V visit_seq: (i) the up-front rejection is taken only under size_hint = Some(n) with n != N; "
    "(ii) the fill loop reads one next_element()? per destination slot, writes it into that slot and counts it (builder protocol, C04.W) and stops at the first None; (iii) the Ok value is constructed only under position == N and, on every CFG edge leading to it, "
    "either the remaining-size hint compared equal to the constant probe or the one extra next_element::<Dummy>()? returned None; every other exit is an Err; (iv) the builder is a live tracked owner on the unwind / early-return path of every fallible call, "
    "so elements already read are dropped exactly once, and finish / array_assume_init are reached only on the Ok path. NOT decided: that deserialising the serialised output of a concrete format yields an equal array (a property of serializer/deserializer pairs executed on data).")

K_SER = "<GenericArray<$0,$1> as serde::Serialize>::serialize"
K_DE = "<GenericArray<$0,$1> as serde::Deserialize>::deserialize"
K_VIS = "<GAVisitor<$0,$1> as serde::de::Visitor>::visit_seq"


def check_serialize(ctx, cfg):
    """serialize = serialize_tuple(N)?, then serialize_element(item)? for every item of the full forward traversal of &self - stopping at the first
    error -, then end(), whose result is returned. The traversal may be a loop over the slice iterator, a loop over the index range 0..N
    addressing element i, or `iter().try_for_each(|el| tup.serialize_element(el))`."""
    from ..loops import find_loops
    rule = "C17.S"
    b = ctx.body(cfg, K_SER, rule)
    if b is None:
        return
    a = ctx.analysis(cfg, K_SER)
    db = ctx.db(cfg)
    N = a.tenv.length({"k": "param", "n": b["generics"][1]["n"]})
    T = {"k": "param", "n": b["generics"][0]["n"]}
    S = a.tenv.size(T)

    def ser_calls(an):
        return [c for c in an.calls if c.fn.startswith("serde::Serializer::") or c.fn.startswith("serde::ser::")]
    ser = ser_calls(a)
    st = [c for c in ser if c.fn == "serde::Serializer::serialize_tuple"]
    en = [c for c in ser if c.fn == "serde::ser::SerializeTuple::end"]
    el = [c for c in ser if c.fn == "serde::ser::SerializeTuple::serialize_element"]
    others = [c.fn.split("::")[-1] for c in ser if c not in st + en + el]
    ok = len(st) == 1 and len(en) == 1 and not others
    det = "serializer calls: %s" % [c.fn.split("::")[-1] for c in ser]
    if ok:
        t_ok = st[0].args[0] == ("V", "arg", 2) and st[0].args[1] == ("I", N)

        def whole_self(x):
            x = x[3] if isinstance(x, tuple) and len(x) == 5 and x[:3] == ("V", "iter", "slice") else x
            return isinstance(x, tuple) and x and x[0] == "P" and x[1] == ("arg", 1) and not x[2].t and x[3] is not None and x[3] == N
        trav, form, after = False, "no recognised traversal", None
        if len(el) == 1:
            lps = [lp for lp in find_loops(a) if el[0].bb in lp.blocks]
            if len(lps) == 1:
                lp = lps[0]
                once = lp.count_on_paths(lambda c: c is el[0]) == {1}
                if whole_self(lp.pipe) and not lp.backward:
                    trav = once and el[0].args[1] == lp.payload
                    form = "loop over the slice iterator of &self, passing the yielded item"
                elif isinstance(lp.pipe, tuple) and len(lp.pipe) == 3 and lp.pipe[0] == "A" and isinstance(lp.pipe[1], tuple) and lp.pipe[1][:2] == ("adt", "core::ops::Range") \
                        and lp.pipe[2][0] == ("I", Poly.const(0)) and lp.pipe[2][1] == ("I", N) and not lp.backward:
                    p_ = el[0].args[1]
                    idx = lp.payload[1] if lp.payload[0] == "I" else None
                    # element i of self: by pointer arithmetic (base + i * size) or as the place `self[i]` / `self.as_slice()[i]` (bounds-checked index)
                    trav = once and idx is not None and p_[0] == "P" and ((p_[1] == ("arg", 1) and p_[2] == idx * S)
                                                                         or (p_[1] == ("field", ("arg", 1), (("idx", ("I", idx)),)) and not p_[2].t))
                    form = "loop over 0..N, passing element i of &self"
                # leaving the loop early only by returning (the `?` on an element error)
                trav = trav and all(_returns_without_serializing(a, y) for (x, y) in lp.breaks)
                after = lp.none_targets
        elif not el:
            from ..absint import State
            drv = [c for c in a.calls if c.fn in ("core::iter::Iterator::try_for_each",)]
            recv = drv[0].args[0] if len(drv) == 1 else None
            if recv is not None and recv[0] == "P" and recv[3] is None and not recv[2].t:
                recv = a.read_cell(State(drv[0].mem, drv[0].facts), recv[1], (), None)   # `&mut iter`: the iterator it points to
            if len(drv) == 1 and whole_self(recv):
                cv = drv[0].args[1]
                cb = db.by_path.get(cv[1][1]) if cv[0] == "A" and isinstance(cv[1], tuple) and cv[1][0] == "closure" else None
                if cb is not None:
                    ca = ctx.analysis(cfg, cb["key"])
                    cel = [c for c in ser_calls(ca)]
                    one = len(cel) == 1 and cel[0].fn == "serde::ser::SerializeTuple::serialize_element" and (cel[0].args[1] == ("V", "arg", 2) or (cel[0].args[1][0] == "P" and cel[0].args[1][1] == ("arg", 2) and not cel[0].args[1][2].t)) and all(r["val"] == cel[0].ret for r in ca.returns)
                    # the serializer state the closure uses is the one serialize_tuple returned (captured by &mut)
                    trav = one and len(payload_calls(ca)) == 1
                    form = "iter().try_for_each(|el| tup.serialize_element(el)) (stops at the first error)"
                    # end() only on the Ok / Continue result of the traversal
                    after = "driver"
                    drv_ok = drv[0]
        end_ok = False
        if after == "driver":
            end_ok = a.dominates(drv_ok.bb, en[0].bb) and any(f[0] == "variant" and f[2] == 0 for f in en[0].facts)
        elif after:
            end_ok = all(a.dominates(t, en[0].bb) or t == en[0].bb for t in after) and a.dominates(st[0].bb, en[0].bb)
        ret_ok = any(r["val"] == en[0].ret or r["val"][0] == "V" for r in a.returns)
        ok = bool(t_ok and trav and end_ok and ret_ok)
        det = "serialize_tuple(serializer, N): %s; traversal: %s: %s; end() only after the complete traversal: %s" % (t_ok, form, bool(trav), bool(end_ok))
    ctx.ob(rule, K_SER, ok, det, at=b["at"], cfg=cfg)
    ctx.sample({"rule": rule, "cfg": cfg, "detail": det})


def _returns_without_serializing(a, bb):
    seen, work = set(), [bb]
    while work:
        x = work.pop()
        if x in seen:
            continue
        seen.add(x)
        if any(c.bb == x and (c.fn.startswith("serde::ser::") or c.fn.startswith("serde::Serializer::")) for c in a.calls):
            return False
        work.extend(s_ for s_ in a.edges.get(x, []) if not a.blocks[s_]["cleanup"])
    return True


def check_deserialize(ctx, cfg):
    rule = "C17.T"
    b = ctx.body(cfg, K_DE, rule)
    if b is None:
        return
    a = ctx.analysis(cfg, K_DE)
    N = a.tenv.length({"k": "param", "n": b["generics"][2]["n"] if b["generics"][0]["kind"] == "lifetime" else b["generics"][1]["n"]})
    pc = payload_calls(a)
    ok = len(pc) == 1 and pc[0].fn == "serde::Deserializer::deserialize_tuple" and pc[0].args[0] == ("V", "arg", 1) and pc[0].args[1][0] == "I" and all(r["val"] == pc[0].ret for r in a.returns)
    n_ok = ok and any(tuple_len == pc[0].args[1][1] for tuple_len in [a.tenv.length({"k": "param", "n": g["n"]}) for g in b["generics"] if g["kind"] == "type"])
    vis = ok and pc[0].args[2][0] == "A" and isinstance(pc[0].args[2][1], tuple) and pc[0].args[2][1][1].endswith("GAVisitor")
    ctx.ob(rule, K_DE, ok and n_ok and vis, "deserialize = deserializer.deserialize_tuple(N, GAVisitor): %s/%s/%s" % (ok, n_ok, vis), at=b["at"], cfg=cfg)


def check_visit_seq(ctx, cfg):
    rule = "C17.V"
    b = ctx.body(cfg, K_VIS, rule)
    if b is None:
        return
    a = ctx.analysis(cfg, K_VIS)
    db = ctx.db(cfg)
    targs = [x for x in b["impl_self"]["args"] if x.get("k") != "region"]
    N = a.tenv.length(targs[-1])
    oks, errs = c07.results(a)
    hints = [c for c in a.calls if c.fn == "serde::de::SeqAccess::size_hint"]
    nexts = [c for c in a.calls if c.fn == "serde::de::SeqAccess::next_element"]
    # (i) up-front rejection
    fill = [c for c in nexts if a.reaches(c.bb, c.bb)]
    pre_errs = [e for e in errs if fill and not a.reaches(fill[0].bb, e["site"][0])]
    ok_i = bool(hints)
    for e in pre_errs:
        h = hints[0]
        n = Poly.atom(("proj", ("proj", h.ret, (("v", 1), 0))))
        ok_i = ok_i and prove(("!=", n - N), a.poly_facts(e["facts"])) and any(f[0] == "variant" and f[1] == h.ret and f[2] == 1 for f in e["facts"])
    ctx.ob(rule, K_VIS + "#precheck", ok_i and len(pre_errs) <= 1, "%d up-front rejection(s); each only under size_hint = Some(n), n != N" % len(pre_errs), at=b["at"], cfg=cfg)
    # (i') and it is complete: elements are only read when the up-front hint is absent or announces exactly N - a source announcing fewer OR more
    # is rejected before anything is read (every loop-free path from the hint to the first read carries `None` or `n == N`)
    if hints and fill:
        h = hints[0]
        n = Poly.atom(("proj", ("proj", h.ret, (("v", 1), 0))))
        paths, stack = [], [(h.bb, (h.bb,))]
        while stack and len(paths) <= 200:
            bb_, pth = stack.pop()
            if bb_ == fill[0].bb:
                paths.append(pth)
                continue
            for s_ in a.edges.get(bb_, []):
                if a.blocks[s_]["cleanup"] or s_ in pth:
                    continue
                stack.append((s_, pth + (s_,)))
        bad_p = []
        for pth in paths:
            fs = set()
            for x, y in zip(pth, pth[1:]):
                sets = a.edge_facts.get((x, y), [])
                if sets:
                    common = set(sets[0])
                    for more in sets[1:]:
                        common &= set(more)
                    fs |= common
            none = ("variant", h.ret, 0) in fs
            exact = ("variant", h.ret, 1) in fs and prove(("==", n - N), a.poly_facts(frozenset(fs)))
            if not (none or exact):
                bad_p.append(fstr(frozenset(f for f in fs if f[0] in ("variant", "poly")))[:200])
        ok_c = bool(paths) and len(paths) <= 200 and not bad_p
        ctx.ob(rule, K_VIS + "#precheck-complete", ok_c, "%d path(s) from the up-front size_hint to the first element read; each under `hint is None` or `hint == Some(N)`: %s" % (len(paths), "True" if ok_c else sorted(set(bad_p))[:3]), at=b["at"], cfg=cfg)
    # (ii) fill loop
    owners = owner_adts(db)
    ok_ii = len(fill) == 1
    det_ii = "expected one next_element call inside the fill loop; found %d" % len(fill)
    if ok_ii:
        f = fill[0]
        dest_next = [c for c in a.calls if c.fn == "core::iter::Iterator::next" and c.ret[0] == "O" and a.reaches(c.bb, c.bb)]
        if not dest_next:
            # the slot asked for by a bounds-checked access at the builder's own position: `slots.get_mut(*position)` over the builder's whole array
            itp0 = [c for c in a.calls if c.key == "IntrusiveArrayBuilder<$0,$1>::iter_position"]
            for c in a.calls:
                if c.fn == "core::slice::<impl [T]>::get_mut" and c.ret[0] == "O" and a.reaches(c.bb, c.bb) and itp0 and itp0[0].ret[0] == "A":
                    whole, posp = itp0[0].ret[2][0], itp0[0].ret[2][1]
                    from ..absint import State
                    cur = None
                    if posp[0] == "P" and not posp[2].t:
                        pb, pp = (posp[1][1], posp[1][2]) if posp[1][0] == "field" else (posp[1], ())
                        cur = a.read_cell(State(c.mem, c.facts), pb, pp, {"k": "prim", "n": "usize"})
                    if whole[:3] == ("V", "iter", "slice") and c.args[0] == whole[3] and cur is not None and cur[0] == "I" and c.args[1] == cur:
                        dest_next.append(c)
        ws = [c for c in a.calls if c.fn == "core::mem::MaybeUninit::<T>::write"]
        full_dest = False
        itp = [c for c in a.calls if c.key == "IntrusiveArrayBuilder<$0,$1>::iter_position"]
        if itp and itp[0].ret[0] == "A":
            itv = itp[0].ret[2][0]
            full_dest = itv[:3] == ("V", "iter", "slice") and not itv[3][2].t and itv[3][3] == N
        slot_ok = len(dest_next) == 1 and len(ws) == 1 and ws[0].args[0] == dest_next[0].ret[1]
        some = any(fa[0] == "variant" and fa[2] == 1 for fa in ws[0].facts) if ws else False
        # the value written is the element just read
        val_ok = ws and _from_call(a, ws[0].args[1], f)
        ok_ii = full_dest and slot_ok and some and bool(val_ok) and a.dominates(dest_next[0].bb, f.bb)
        det_ii = "destination = the builder's whole array (N slots): %s; per slot one next_element()?, Some(el) written into that slot: %s/%s; the loop asks for a slot before reading: %s" % (full_dest, slot_ok, bool(val_ok), a.dominates(dest_next[0].bb, f.bb) if dest_next else False)
    if not fill:
        # closure form: `build_iter.try_for_each(|dst| match seq.next_element() { Ok(Some(el)) => { dst.write(el); *position += 1; Continue } .. => Break })`
        # - the driver asks for a slot first and hands it to the closure, which reads exactly one element and stores it into that slot; what the
        # uncounted (Break) steps mean for the builder is C03.P / C04.P / C04.O's obligation (typestate: stop returns + a try_* driver)
        from ..absint import State
        from .c08 import count_on_paths
        drv = [c for c in a.calls if c.fn == "core::iter::Iterator::try_for_each"]
        itp = [c for c in a.calls if c.key == "IntrusiveArrayBuilder<$0,$1>::iter_position"]
        if len(drv) == 1 and itp and itp[0].ret[0] == "A":
            recv = drv[0].args[0]
            if recv[0] == "P" and recv[3] is None and not recv[2].t:
                recv = a.read_cell(State(drv[0].mem, drv[0].facts), recv[1], (), None)
            itv = itp[0].ret[2][0]
            full_dest = recv == itv and itv[:3] == ("V", "iter", "slice") and not itv[3][2].t and itv[3][3] == N
            cv = drv[0].args[1]
            cb = db.by_path.get(cv[1][1]) if cv[0] == "A" and isinstance(cv[1], tuple) and cv[1][0] == "closure" else None
            slot_ok = val_ok = counted = False
            if cb is not None:
                ca = ctx.analysis(cfg, cb["key"])
                nx = [c for c in ca.calls if c.fn == "serde::de::SeqAccess::next_element"]
                ws = [c for c in ca.calls if c.fn == "core::mem::MaybeUninit::<T>::write"]
                one = len(nx) == 1 and count_on_paths(ca, lambda c: c.fn == "serde::de::SeqAccess::next_element") == {1}
                slot_ok = one and len(ws) == 1 and ws[0].args[0][0] == "P" and ws[0].args[0][1] == ("arg", 2) and not ws[0].args[0][2].t
                val_ok = bool(ws) and bool(nx) and _from_call(ca, ws[0].args[1], nx[0]) and any(fa[0] == "variant" and fa[2] == 1 for fa in ws[0].facts)
                from ..typestate import check_closure_protocol
                role_, _okc, _d, info_ = check_closure_protocol(ca, Classifier(db))
                counted = role_ == "builder" and not info_["normal_problems"]   # every storing step counts the slot (once), every other step stops the driver
            ok_ii = bool(full_dest and slot_ok and val_ok and counted)
            det_ii = "fill = try_for_each over the builder's whole array (N slots): %s; the closure reads exactly one element per slot it is handed: %s, stores the Some(el) it got into that slot: %s and counts it in the same step: %s" % (full_dest, slot_ok, val_ok, counted)
    ext_ = [c for c in a.calls if c.key == "IntrusiveArrayBuilder<$0,$1>::extend"]
    if not fill and len(ext_) == 1:
        # extend form: `builder.extend(iter::from_fn(|| seq.next_element() as an Option))` - the crate's own fill (C07.Z: the destination is polled
        # first, every item goes into the slot of that step and is counted, the source is dropped at its first None), fed by a source that reads
        # exactly one element per poll and yields exactly what it read (an error parks itself and ends the source)
        from .c08 import count_on_paths
        e_ = ext_[0]
        ff = [c for c in a.calls if c.fn == "core::iter::from_fn" and c.ret == e_.args[1]]
        built = [m for m in a.calls if m.key == "IntrusiveArrayBuilder<$0,$1>::new"]
        recv_ok = bool(built) and e_.args[0][0] == "P" and e_.args[0][1] == ("local", built[0].term["dest"]["l"]) and not e_.args[0][2].t
        src_ok = val_ok = False
        if len(ff) == 1:
            cv = ff[0].args[0]
            cb = db.by_path.get(cv[1][1]) if cv[0] == "A" and isinstance(cv[1], tuple) and cv[1][0] == "closure" else None
            if cb is not None:
                ca = ctx.analysis_inl(cfg, cb["key"], split=True)
                nx = [c for c in ca.calls if c.fn == "serde::de::SeqAccess::next_element"]
                src_ok = bool(nx) and count_on_paths(ca, lambda c: c.fn == "serde::de::SeqAccess::next_element") == {1}
                none = lambda v: v[0] == "A" and isinstance(v[1], tuple) and v[1][:2] == ("adt", "core::option::Option") and v[1][2] == 0
                val_ok = bool(ca.returns) and all(none(r["val"]) or any(_from_call(ca, r["val"], x) for x in nx) for r in ca.returns)
        others = [c for c in nexts if not a.dominates(e_.bb, c.bb)]
        ok_ii = bool(recv_ok and src_ok and val_ok and not others)
        det_ii = "fill = builder.extend(from_fn(cl)) on the builder over the destination: %s; the source reads exactly one element per poll: %s and yields that element or ends: %s; no element read outside it before: %s" % (recv_ok, src_ok, val_ok, not others)
    ctx.ob(rule, K_VIS + "#fill", ok_ii, det_ii, at=b["at"], cfg=cfg)
    raw_write_discipline(ctx, cfg, b, "C17.W")
    # (iii) judged per path on the tree-shaped code after the fill loop (helpers expanded): every Ok(array) is built with the builder full
    # (position == N), after finish(), and with evidence on that path that no surplus element is left: the remaining-size hint compared equal
    # to the probe constant / is Some(0), or an extra next_element::<Dummy>() returned None
    at = ctx.analysis_inl(cfg, K_VIS, split=True)
    oks_t, _ = c07.results(at)
    ai = [c for c in at.calls if c.key in ("IntrusiveArrayBuilder<$0,$1>::array_assume_init", "GenericArray<$0,$1>::assume_init")]
    oks_t = [g for g in oks_t if any(g["ops"] and g["ops"][0] == c.ret for c in ai)]
    hints_t = [c for c in at.calls if c.fn == "serde::de::SeqAccess::size_hint"]
    nexts_t = [c for c in at.calls if c.fn == "serde::de::SeqAccess::next_element"]
    probes = [c for c in nexts_t if not at.reaches(c.bb, c.bb)]
    fins = [c for c in at.calls if c.key == "IntrusiveArrayBuilder<$0,$1>::finish"]
    adtp = [p for p in owners if p.split("::")[-1] == "IntrusiveArrayBuilder"]
    bad = []
    for g in oks_t:
        fs = g["facts"]
        fin = [c for c in fins if at.dominates(c.bb, g["site"][0])]
        pos = None
        if fin and fin[0].args[0][0] == "A" and adtp:
            pv = fin[0].args[0][2][owners[adtp[0]]["names"].index("position")]
            pos = pv[1] if pv[0] == "I" else None
        elif fin and adtp and fin[0].args[0][0] == "V" and fin[0].args[0][1] == "cell@" and fin[0].args[0][2][0][1] == ():
            # the builder as a whole after a call that may have changed it (extend): its position is that epoch's position cell
            (base_, _p), ep_ = fin[0].args[0][2]
            pos = Poly.atom(("cell@", ((base_, (owners[adtp[0]]["names"].index("position"),)), ep_)))
        full = pos is not None and at.prove(fs, "Eq", pos, N)
        if not full and fin:
            # position == N is not tested but follows: the fill loop runs over the builder's whole array, is left only when the
            # destination is exhausted (any early exit returns an error) and advances the position once per step
            from .c03 import full_traversal_loop
            bl = [i for i in range(len(at.locals)) if local_adt(at, i) in owners]
            full = any(full_traversal_loop(ctx, cfg, at, at.body, owners, Classifier(db), i, fin[0].bb) is not None for i in bl)
        ev = []
        for f in fs:
            if f[0] == "b" and f[1][0] == "opaque" and any(c.fn in ("core::cmp::PartialEq::ne", "core::cmp::PartialEq::eq") and c.ret == ("B", f[1]) and f[2] is (c.fn.endswith("::eq")) and _is_hint_cmp(at, c, hints_t) for c in at.calls):
                ev.append("hint == probe constant")
            if f[0] == "b" and f[2] is False and f[1][0] == "is_some" and any(_from_call(at, f[1], pr) for pr in probes):
                ev.append("extra next_element returned None")
            if f[0] == "variant" and f[2] == 0 and any(_from_call(at, f[1], pr) for pr in probes):
                ev.append("extra next_element returned None")
        for h in hints_t:
            if ("variant", h.ret, 1) in fs and at.prove(fs, "Eq", Poly.atom(("proj", ("proj", h.ret, (("v", 1), 0)))), Poly.const(0)):
                ev.append("remaining-size hint is Some(0)")
        if not (full and fin and ev):
            bad.append("Ok(..) under %s: builder full (position == N): %s; after finish(): %s; no-surplus evidence: %s" % (fstr(fs), bool(full), bool(fin), ev or "none"))
    ok_iii = bool(oks_t) and not bad
    ctx.ob(rule, K_VIS + "#ok", ok_iii, ("; ".join(bad) if bad else ("no Ok(array) construction found" if not oks_t else
           "%d Ok(array) exit(s), each with the builder full, after finish(), and with evidence that nothing is left (hint equals the probe constant / Some(0), or the extra probe returned None)" % len(oks_t))), at=b["at"], cfg=cfg)
    # the storage is read out only after finish()
    ok_ai = bool(ai) and all(any(at.dominates(f_.bb, c.bb) for f_ in fins) for c in ai)
    ctx.ob(rule, K_VIS + "#assume_init", ok_ai, "array_assume_init is reached only after finish() on the success path: %s" % ok_ai, at=b["at"], cfg=cfg)
    fin = [c for c in a.calls if c.key == "IntrusiveArrayBuilder<$0,$1>::finish"]
    from . import c04 as _c04
    # finish -> array_assume_init window (rule shared with C04.F)
    # (iv) builder live at every fallible / foreign call after it is built
    cl = Classifier(db)
    n = 0
    for c in a.calls:
        if cl.classify(c, b) != "foreign":
            continue
        blds = [i for i in range(len(a.locals)) if local_adt(a, i) in owners]
        built = [m for m in a.calls if m.key == "IntrusiveArrayBuilder<$0,$1>::new"]
        if not built or not a.dominates(built[0].bb, c.bb) or built[0].bb == c.bb:
            continue
        if fin and a.dominates(fin[0].bb, c.bb):
            continue
        dropped, _ = unwind_drops(a, c)
        ok = built[0].term["dest"]["l"] in dropped
        ctx.ob("C17.D", "%s#%s#bb%d" % (K_VIS, c.fn, n), ok, "builder dropped on the unwind path of %s: %s" % (c.fn, ok), at=c.at, cfg=cfg, frozen=False)
        n += 1
    ctx.floor("C17.D", "fallible calls with the builder live (%s)" % cfg, n, 1)
    # `?` early returns: every from_residual (error return) after the builder exists drops it on the way out
    for i, c in enumerate([c for c in a.calls if c.fn == "core::ops::FromResidual::from_residual"]):
        built = [m for m in a.calls if m.key == "IntrusiveArrayBuilder<$0,$1>::new"]
        if not built or not a.dominates(built[0].bb, c.bb):
            continue
        # normal continuation of the error return must pass a drop of the builder local before `return`
        bl = built[0].term["dest"]["l"]
        seen, work, dropped = set(), [c.term["target"]], False
        while work:
            n2 = work.pop()
            if n2 in seen or n2 is None:
                continue
            seen.add(n2)
            for d in a.drops:
                if d["bb"] == n2 and d["place"]["l"] == bl and not d["place"]["p"]:
                    dropped = True
            work.extend(s for s in a.edges.get(n2, []) if not a.blocks[s]["cleanup"])
        ctx.ob("C17.D", "%s#early_return#%d" % (K_VIS, i), dropped, "the `?` error return drops the builder (releasing the elements read so far): %s" % dropped, at=c.at, cfg=cfg)


def _from_call(a, val, call):
    """val is (a projection of) the result of `call`, possibly through `?` (Try::branch)."""
    r = repr(val)
    if repr(("ret", call.bb)) in r:
        return True
    for br in a.calls:
        if br.fn == "core::ops::Try::branch" and br.args and br.args[0] == call.ret and repr(("ret", br.bb)) in r:
            return True
    return False


def _is_hint_cmp(a, c, hints):
    """c compares the value of a seq.size_hint() call (through a reference to the local holding it)."""
    for x in c.args:
        if x[0] == "P" and not x[2].t:
            held = c.mem.get((x[1], ()))
            if any(held == h.ret for h in hints):
                return True
    return False


def check_entry_points(ctx, cfg):
    """C17.I: the rules above judge `Serialize::serialize`, `Deserialize::deserialize` and `GAVisitor::visit_seq`. Every other way serde can be
    made to read or write a GenericArray must not exist unjudged: the two impls override nothing else (serde's provided `deserialize_in_place`
    goes through `deserialize`), and no other type of the crate implements `Visitor::visit_seq`."""
    rule = "C17.I"
    db = ctx.db(cfg)
    for imp in db.impls:
        tr = imp.get("trait", "")
        if tr in ("serde::Serialize", "serde::Deserialize") and imp["self"].get("k") == "adt" and imp["self"]["def"] == "GenericArray":
            names = sorted(x["name"] for x in imp["items"])
            want = ["serialize"] if tr == "serde::Serialize" else ["deserialize"]
            ctx.ob(rule, db.impl_key(imp), names == want, "%s for GenericArray overrides %s (judged: %s; any other override is an entry point no rule has looked at)" % (tr.split("::")[-1], names, want), at=imp["at"], cfg=cfg)
        if tr == "serde::de::Visitor" and any(x["name"] == "visit_seq" for x in imp["items"]):
            # the visitor accepts input through visit_seq only: any other `visit_*` it overrides (visit_bytes, visit_map, visit_newtype_struct ..) is a
            # second way of accepting input that none of the length rules has looked at (S262: visit_bytes truncating to N bytes)
            extra = sorted(x["name"] for x in imp["items"] if x["name"].startswith("visit_") and x["name"] != "visit_seq")
            ctx.ob(rule, db.impl_key(imp) + "#visit-methods", not extra, "the sequence visitor overrides no visit_* method besides visit_seq: %s" % ("none" if not extra else extra), at=imp["at"], cfg=cfg)
            known = imp["self"].get("k") == "adt" and imp["self"]["def"].split("::")[-1] == "GAVisitor"
            ctx.ob(rule, db.impl_key(imp), known, "sequence visitor %s: %s" % (imp["self_s"], "the one judged by C17.V" if known else "not known to the rules (its visit_seq decides which inputs are accepted)"), at=imp["at"], cfg=cfg, frozen=False)


def check(ctx):
    ctx.explanation = EXPLANATION
    ctx.trusted = ["serde's data model: a tuple of N elements carries no length prefix; SeqAccess / Serializer implementations honour their contracts"]
    ctx.assumptions = ["round-trip equality through a concrete format is outside the claim", "the constant compared with the remaining-size hint (Some(0)) lives in a promoted constant whose value is not inspected",
                       "a source that reports 'nothing left' while still holding elements is outside the property"]
    cfgs = ["F1", "F1N"] if ctx.tier == "quick" else ["F1", "F1N", "F2", "F2N"]
    ctx.need(*cfgs)
    for cfg in cfgs:
        verify_models(ctx, cfg, ["IntrusiveArrayBuilder<$0,$1>::new", "IntrusiveArrayBuilder<$0,$1>::iter_position"])
        check_views(ctx, cfg)
        check_serialize(ctx, cfg)
        check_deserialize(ctx, cfg)
        check_visit_seq(ctx, cfg)
        check_entry_points(ctx, cfg)
        from . import c04
        c04.check_finish_window(ctx, cfg, "C17.F")
        # "already-read elements are dropped exactly once" rests on the builder guard's Drop releasing exactly [0, position) (C05.R, shared)
        from . import c05 as _c05
        _c05.check_drop_ranges(ctx, cfg)
