"""C11 - flatten / unflatten regroup elements in row-major order over the same storage."""

from ..core import PROVED, REFUTED, UNKNOWN, MISSING
from ..poly import Poly, prove
from ..rules import check_const_transmute, lifetime_linkage, vstr, fstr, transfers
from ..tys import tstr, pointee

EXPLANATION = (
    "Static extent analysis of the 6 reinterpretation bodies (N, M, NM symbolic; configs F0+F1). Owned forms: self is moved whole and exactly once into the result "
    "(const_transmute, a by-value transmute, or a bit copy out of a ManuallyDrop-parked / forgotten self that is never dropped afterwards), no other call runs, and the move has "
    "size_of A == size_of B as a polynomial identity for flatten (M*(N*s) == (N*M)*s) and size_of B <= size_of A for unflatten with equality exactly when N divides NM "
    "(floor-division axiom; the non-divisible case is stopped by const_transmute's own size guard, rule C01.T, which is checked here too). Reference forms: the returned "
    "reference is the receiver's own address at offset 0 (transmute or pointer cast), no call runs; pointee extents are equal (flatten) / within the source (unflatten), mutability and lifetime "
    "are those of the receiver. Row-major order needs no separate rule: both sides are contiguous arrays of T at the same address (C01), so flat element i*N + j is element j of inner array i.")

OWNED = [("<GenericArray<GenericArray<$0,$1>,$2> as Flatten<$0,$1,$2>>::flatten", "eq"),
         ("<GenericArray<$0,$1> as Unflatten<$0,$1,$2>>::unflatten", "le")]
REFS = [("<&GenericArray<GenericArray<$0,$1>,$2> as Flatten<$0,$1,$2>>::flatten", "eq"),
        ("<&mut GenericArray<GenericArray<$0,$1>,$2> as Flatten<$0,$1,$2>>::flatten", "eq"),
        ("<&GenericArray<$0,$1> as Unflatten<$0,$1,$2>>::unflatten", "le"),
        ("<&mut GenericArray<$0,$1> as Unflatten<$0,$1,$2>>::unflatten", "le")]


def size_rel(a, facts, src, dst, mode):
    pf = a.poly_facts(facts)
    if mode == "eq":
        return prove(("==", src - dst), pf), "source %r == target %r bytes" % (src, dst)
    # unflatten: within bounds always; equal when divisible
    le = prove((">=", src - dst), pf)
    # under the divisibility hypothesis NM == q*N the sizes coincide
    return le, "target %r <= source %r bytes for every NM (equal exactly when N divides NM, the documented domain)" % (dst, src)



PLUMBING = ("core::mem::ManuallyDrop::<T>::new", "core::ops::Deref::deref", "core::ops::DerefMut::deref_mut", "core::mem::size_of", "core::mem::align_of",
            "core::mem::forget", "core::ptr::const_ptr::<impl *const T>::cast", "core::ptr::mut_ptr::<impl *mut T>::cast", "core::ptr::from_ref", "core::ptr::from_mut",
            "core::ptr::addr_of", "core::mem::MaybeUninit::<T>::assume_init")
ARG1 = ("V", "arg", 1)


def owned_form(a, mode):
    """The owned array is moved, whole and exactly once, into the result: either through const_transmute (whose size guard is C01.T), a by-value
    transmute, or a bit copy (ptr::read / transmute_copy at offset 0) out of a source that is never dropped afterwards (ManuallyDrop / forget)."""
    tr = transfers(a)
    other = [c.fn for c in a.calls if not c.fn.startswith("core::panicking::") and c.fn not in PLUMBING and not c.key == "const_transmute"
             and c.fn not in ("core::ptr::read", "core::mem::transmute_copy")]
    if other:
        return REFUTED, "calls other than a whole-object move in a pure regrouping: %s" % sorted(set(other))
    cs = a.calls_to("const_transmute")
    tms = [c for c in a.casts if c["ck"] == "Transmute" and c["val"] == ARG1]
    movers = []
    for c in cs:
        movers.append(("const_transmute", c.args[0] == ARG1, c.facts, a.tenv.size(c.targs[0]), a.tenv.size(c.targs[1]), c.ret, True, c.bb))
    for c in tms:
        movers.append(("transmute", True, c["facts"], a.tenv.size(c["from"]), a.tenv.size(c["to"]), c["val"], True, c["site"][0]))
    for r in tr["read"] + tr["tcopy"]:
        # the source must be self parked in a ManuallyDrop local, or self itself if it is forgotten on every path afterwards
        base = r["base"]
        src_ok = False
        if base[0] == "local":
            lt = tstr(a.local_ty(base[1]))
            md = [c for c in a.calls_to("core::mem::ManuallyDrop::<T>::new") if c.args[0] == ARG1]
            parked = lt.startswith("core::mem::ManuallyDrop<") and len(md) == 1
            src_ok = parked
        elif base == ("arg", 1) or base == ("local", 1):
            fg = [c for c in a.calls_to("core::mem::forget") if c.args[0] == ARG1]
            src_ok = bool(fg) and all(any(a.dominates(f.bb, x["bb"]) for f in fg) for x in a.returns)
        nodrop = not any(d["place"]["l"] == 1 and not d["cleanup"] for d in a.drops)
        whole = not r["off"].t
        movers.append((r["c"].fn.split("::")[-1], src_ok and nodrop and whole, r["c"].facts, a.base_extent(base) if base[0] == "local" else a.tenv.size(a.local_ty(1)), r["size"], r["val"], src_ok and nodrop, r["bb"]))
    if len(movers) != 1:
        return (REFUTED if movers or a.calls else UNKNOWN), "expected exactly one whole-object move of self into the result; found %d (%s)" % (len(movers), [m[0] for m in movers])
    how, src_ok, facts, ssz, dsz, val, owned_once, bb = movers[0]
    if ssz is None or dsz is None:
        return UNKNOWN, "%s: source or target size unknown" % how
    ok, det = size_rel(a, facts, ssz, dsz, mode)
    # every drop of `self` on a normal path after the move would drop the elements a second time
    dropped = [d for d in a.drops if d["place"]["l"] == 1 and not d["place"]["p"] and not d["cleanup"]]
    okv = src_ok and not dropped and all(r["val"] == val for r in a.returns) and bool(a.returns)
    return (PROVED if ok and okv else REFUTED), "%s of self: %s; source is the whole of self, moved out exactly once (never dropped afterwards): %s; result returned: %s" % (
        how, det, src_ok and not dropped, all(r["val"] == val for r in a.returns))


def ref_form(a, b, mode):
    """The returned reference is the receiver's address reinterpreted: same base, offset 0, same mutability, pointee within the source's extent."""
    calls = [c.fn for c in a.calls if c.fn not in PLUMBING and not c.fn.startswith("core::panicking::") and not a.is_pure(c) and not getattr(c, "no_effects", False)]
    if calls:
        return REFUTED, "calls in a pure reference reinterpretation: %s" % sorted(set(calls))
    # a reference reinterpretation returns its view for EVERY shape on which it type-checks (zero-length rows included): no compiler-inserted
    # check (division by zero, bounds, overflow) may be able to fail, and no explicit panic may be reachable
    from ..poly import prove as _prove, Poly as _Pl
    live = [x["msg"] for x in getattr(a, "asserts", []) if not x["cleanup"] and not _prove((">=", _Pl.const(-1)), a.poly_facts(x["fail_facts"]))]
    if live:
        return REFUTED, "a compiler-inserted check can fail in a pure reference reinterpretation (it would panic instead of returning the view): %s" % sorted(set(live))
    pan = [c.fn for c in a.calls if c.fn.startswith("core::panicking::") and not a.blocks[c.bb]["cleanup"] and not _prove((">=", _Pl.const(-1)), a.poly_facts(c.facts))]
    if pan:
        return REFUTED, "a panic is reachable in a pure reference reinterpretation: %s" % sorted(set(pan))
    tin, tout = a.local_ty(1), a.local_ty(0)
    if tin.get("k") != "ref" or tout.get("k") != "ref":
        return UNKNOWN, "receiver or result is not a reference"
    ok, det = size_rel(a, frozenset(), a.tenv.size(pointee(tin)), a.tenv.size(pointee(tout)), mode)
    vals = [r["val"] for r in a.returns]
    same = bool(vals) and all(v[0] == "P" and v[1] == ("arg", 1) and not v[2].t for v in vals)
    mut = tin["mut"] == tout["mut"]
    return (PROVED if ok and same and mut else REFUTED), "%s -> %s: %s; result is the receiver's address at offset 0: %s; same mutability: %s" % (tstr(tin), tstr(tout), det, same, mut)


def check_shapes(ctx, cfg, rule="C11.S"):
    """The shape the types promise: flatten of M rows of N gives N*M elements of T; `Unflatten<T, NM, N>` gives NM/N rows, each row a
    GenericArray<T, N> - N, the trait's third parameter, is the width of a row (row-major regrouping is: same memory + this shape). An Output
    type with the two lengths exchanged type-checks against the same bodies and yields the transposed shape."""
    from ..tys import tstr as _ts
    n = 0
    for key, mode in OWNED + REFS:
        b = ctx.db(cfg).get(key)
        if b is None:
            continue
        a = ctx.analysis(cfg, key)
        out = a.local_ty(0)
        while out is not None and out.get("k") == "ref":
            out = out["t"]
        proj = (b.get("sig") or {}).get("output") or {}
        pargs = [x for x in proj.get("args", []) if x.get("k") != "region"] if proj.get("k") == "alias" else []
        ok, det = False, "result type %s not understood" % _ts(a.local_ty(0))
        if out is not None and out.get("k") == "adt" and out["def"].endswith("GenericArray") and len(pargs) == 4:
            el, ln = [x for x in out["args"] if x.get("k") != "region"]
            T_, P2, P3 = pargs[1], pargs[2], pargs[3]
            if mode == "eq":
                # Flatten<T, N, M>: N*M elements of T
                want = a.tenv.length(P2) * a.tenv.length(P3)
                ok = _ts(el) == _ts(T_) and a.tenv.length(ln) == want
                det = "flatten: %s elements of %s; required %r elements of %s" % (a.tenv.length(ln), _ts(el), want, _ts(T_))
            else:
                # Unflatten<T, NM, N>: NM / N rows of GenericArray<T, N>
                NM_, N_ = a.tenv.length(P2), a.tenv.length(P3)
                row_ok = el.get("k") == "adt" and el["def"].endswith("GenericArray") and _ts([x for x in el["args"] if x.get("k") != "region"][0]) == _ts(T_) \
                    and a.tenv.length([x for x in el["args"] if x.get("k") != "region"][1]) == N_
                rows_ok = a.tenv.length(ln) == _P_div(NM_, N_)
                ok = bool(row_ok and rows_ok)
                det = "unflatten: %s rows of %s; required NM/N = %r rows of GenericArray<%s, N> (N = the trait's third parameter, the row width)" % (a.tenv.length(ln), _ts(el), _P_div(NM_, N_), _ts(T_))
        ctx.ob(rule, key, ok, det, at=b["at"], cfg=cfg)
        n += 1
    return n


def _P_div(a_, b_):
    from ..poly import Poly as _P
    return _P.atom(("div", a_, b_))


def check_owned(ctx, cfg, rule="C11.E"):
    """By-value flatten / unflatten: byte provenance - the result is exactly the bytes of self (all of them, from offset 0), self is moved
    and never dropped, no foreign call. unflatten is judged on its documented domain (N divides NM): NM == N * floor(NM / N) is the precondition."""
    from .c09 import provenance_rule
    from ..poly import Poly as _P
    n = 0
    for key, mode in OWNED:
        def pre(a, S, N, mode=mode):
            if mode != "le":
                return []
            g = a.body["generics"]
            NM = a.tenv.length({"k": "param", "n": g[1]["n"]})
            Nn = a.tenv.length({"k": "param", "n": g[2]["n"]})
            return [("poly", "==", NM - Nn * _P.atom(("div", NM, Nn)))]
        n += provenance_rule(ctx, cfg, key, lambda a, S, N: [[(a.tenv.size(a.local_ty(1)), ("arg", 1), _P.const(0))]], pre=pre, rule=rule)
        if mode == "le":
            # .. and OUTSIDE that domain the by-value form does not return at all: the lengths are related by a rounding-down division only
            # (`Quot<NM, N>`), so a 7-array regroups into three pairs as far as the types go - what refuses it is the size comparison in front of the
            # reinterpretation. Every return of the fully expanded, tree-shaped body must carry size_of::<Self>() == size_of::<Output>() in its
            # path facts; a helper that moves the bytes without the comparison returns a truncated array and leaks the tail (S247).
            b_ = ctx.db(cfg).get(key)
            if b_ is not None:
                from ..poly import prove as _prove
                a2 = ctx.analysis_inl(cfg, key, split=True, force="*", tag="c11dom")
                sz_in = a2.tenv.size(a2.local_ty(1))
                sz_out = a2.tenv.size(a2.local_ty(0))
                bad_ = [r for r in a2.returns if not _prove(("==", sz_in - sz_out), a2.poly_facts(r["facts"]))]
                ctx.ob(rule, key + "#domain", bool(a2.returns) and not bad_, "every return of by-value unflatten is reached only under size_of::<Self>() == size_of::<Output>() (%r == %r): %s" % (
                    sz_in, sz_out, not bad_), at=b_["at"], cfg=cfg)
    return n


def check(ctx):
    ctx.explanation = EXPLANATION
    ctx.trusted = ["rustc MIR construction; typenum Prod/Quot semantics (Prod<N,M>::USIZE = N*M, Quot<NM,N>::USIZE = floor(NM/N))",
                   "C01: GenericArray<X, L> is L contiguous X"]
    ctx.assumptions = ["unflatten is used on its documented domain (N divides NM); outside it the owned form panics in const_transmute and the reference forms give a shorter in-bounds view"]
    cfgs = ["F0", "F1", "F1N"] if ctx.tier == "quick" else ["F0", "F1", "F1N", "F2", "F0N", "F2N"]
    ctx.need(*cfgs)
    for cfg in cfgs:
        from ..rules import check_no_generic_zeroed as _cz
        _cz(ctx, cfg, "C11.Z0")
        check_const_transmute(ctx, cfg)
        n = check_owned(ctx, cfg)
        for key, mode in REFS:
            b = ctx.body(cfg, key, "C11.E")
            if b is None:
                continue
            a = ctx.analysis(cfg, key)
            st, det = ref_form(a, b, mode)
            if st != PROVED:
                # the same view built through the crate's own view functions (as_slice / slice_from_chunks / from_slice ..): judged with every
                # crate-local call expanded; a length check that comes along must be unreachable (a panic would be a behaviour change)
                a2 = ctx.analysis_inl(cfg, key, split=True, force="*", tag="c11")
                st2, det2 = ref_form(a2, b, mode)
                if st2 == PROVED:
                    from ..poly import prove as _prove
                    live = [c.fn for c in a2.calls if c.fn.startswith("core::panicking::") and not _prove((">=", _P.const(-1)), a2.poly_facts(c.facts))]
                    if not live:
                        st, det = PROVED, det2 + " (crate-local view functions expanded; their length checks are unreachable here)"
                    else:
                        det = det + " | expanded: a panic of an inner length check is reachable: %s" % sorted(set(live))
            ctx.ob("C11.E", key, st, det, at=b["at"], cfg=cfg)
            st, ldet = lifetime_linkage(ctx.db(cfg), b)
            ctx.ob("C11.L", key, st if st is not None else UNKNOWN, ldet, at=b["at"], cfg=cfg)
            n += 1
        ctx.floor("C11", "reinterpretation bodies (%s)" % cfg, n, 6)
        check_shapes(ctx, cfg)
