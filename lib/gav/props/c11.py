"""C11 - flatten / unflatten regroup elements in row-major order over the same storage."""

from ..core import PROVED, REFUTED, UNKNOWN, MISSING
from ..poly import Poly, prove
from ..rules import check_const_transmute, lifetime_linkage, vstr, fstr
from ..tys import tstr, pointee

EXPLANATION = (
    "Static extent analysis of the 6 reinterpretation bodies (N, M, NM symbolic; configs F0+F1). Owned forms: the single const_transmute::<A, B> call has "
    "size_of A == size_of B as a polynomial identity for flatten (M*(N*s) == (N*M)*s) and size_of B <= size_of A for unflatten with equality exactly when N divides NM "
    "(floor-division axiom; the non-divisible case is stopped by const_transmute's own size guard, rule C01.T, which is checked here too). Reference forms: the body is a "
    "single Transmute of the reference itself, so the address is unchanged; pointee extents are equal (flatten) / within the source (unflatten), mutability and lifetime "
    "are those of the receiver. Row-major order needs no separate rule: both sides are contiguous arrays of T at the same address (C01), so flat element i*N + j is element j of inner array i.")

OWNED = [("<GenericArray<GenericArray<$0,$1>,$2> as Flatten<$0,$1,$2>>::flatten", "eq"),
         ("<GenericArray<$0,$1> as Unflatten<$0,$1,$2>>::unflatten", "le")]
REFS = [("<&GenericArray<GenericArray<$0,$1>,$2> as Flatten<$0,$1,$2>>::flatten", "eq"),
        ("<&mut GenericArray<GenericArray<$0,$1>,$2> as Flatten<$0,$1,$2>>::flatten", "eq"),
        ("<&GenericArray<$0,$1> as Unflatten<$0,$1,$2>>::unflatten", "le"),
        ("<&mut GenericArray<$0,$1> as Unflatten<$0,$1,$2>>::unflatten", "le")]


def size_rel(a, facts, src, dst, mode):
    pf = a.poly_facts(facts)
    if mode == "eq":
        return prove(("==", src - dst), pf), "source %r == target %r bytes" % (src, dst)
    # unflatten: within bounds always; equal when divisible
    le = prove((">=", src - dst), pf)
    # under the divisibility hypothesis NM == q*N the sizes coincide
    return le, "target %r <= source %r bytes for every NM (equal exactly when N divides NM, the documented domain)" % (dst, src)


def check(ctx):
    ctx.explanation = EXPLANATION
    ctx.trusted = ["rustc MIR construction; typenum Prod/Quot semantics (Prod<N,M>::USIZE = N*M, Quot<NM,N>::USIZE = floor(NM/N))",
                   "C01: GenericArray<X, L> is L contiguous X"]
    ctx.assumptions = ["unflatten is used on its documented domain (N divides NM); outside it the owned form panics in const_transmute and the reference forms give a shorter in-bounds view"]
    cfgs = ["F0", "F1"] if ctx.tier == "quick" else ["F0", "F1", "F2"]
    ctx.need(*cfgs)
    for cfg in cfgs:
        check_const_transmute(ctx, cfg)
        n = 0
        for key, mode in OWNED:
            b = ctx.body(cfg, key, "C11.E")
            if b is None:
                continue
            a = ctx.analysis(cfg, key)
            cs = a.calls_to("const_transmute")
            if len(cs) != 1 or len(a.calls) != 1:
                ctx.ob("C11.E", key, REFUTED if a.calls else UNKNOWN, "expected the body to be exactly one const_transmute call; calls: %s" % [c.fn for c in a.calls], at=b["at"], cfg=cfg)
                continue
            c = cs[0]
            ok, det = size_rel(a, c.facts, a.tenv.size(c.targs[0]), a.tenv.size(c.targs[1]), mode)
            okv = c.args[0] == ("V", "arg", 1) and all(r["val"] == c.ret for r in a.returns)
            ctx.ob("C11.E", key, ok and okv, "const_transmute::<%s, %s>: %s; self in, result out: %s" % (tstr(c.targs[0]), tstr(c.targs[1]), det, okv), at=b["at"], cfg=cfg)
            ctx.sample({"rule": "C11.E", "fn": key, "cfg": cfg, "detail": det})
            n += 1
        for key, mode in REFS:
            b = ctx.body(cfg, key, "C11.E")
            if b is None:
                continue
            a = ctx.analysis(cfg, key)
            tr = [c for c in a.casts if c["ck"] == "Transmute"]
            if len(tr) != 1 or a.calls:
                ctx.ob("C11.E", key, REFUTED if (tr or a.calls) else UNKNOWN, "expected the body to be exactly one transmute of the reference; transmutes=%d calls=%s" % (len(tr), [c.fn for c in a.calls]), at=b["at"], cfg=cfg)
                continue
            c = tr[0]
            pf, pt = pointee(c["from"]), pointee(c["to"])
            ok, det = size_rel(a, c["facts"], a.tenv.size(pf), a.tenv.size(pt), mode)
            v = c["val"]
            okv = v[0] == "P" and v[1] == ("arg", 1) and not v[2].t and c["from"]["mut"] == c["to"]["mut"] and all(r["val"] == v for r in a.returns)
            ctx.ob("C11.E", key, ok and okv, "transmute %s -> %s: %s; same address, same mutability, returned: %s" % (tstr(c["from"]), tstr(c["to"]), det, okv), at=b["at"], cfg=cfg)
            st, ldet = lifetime_linkage(ctx.db(cfg), b)
            ctx.ob("C11.L", key, st if st is not None else UNKNOWN, ldet, at=b["at"], cfg=cfg)
            n += 1
        ctx.floor("C11", "reinterpretation bodies (%s)" % cfg, n, 6)
