"""C07 - collecting from an iterator yields an array only for exactly N items."""

from ..core import PROVED, REFUTED, UNKNOWN, MISSING
from ..poly import Poly, prove
from ..models import verify_models
from ..ownership import find_in, owner_adts, local_adt, unwind_drops
from ..rules import vstr, fstr, payload_calls
from ..typestate import Classifier, check_closure_protocol
from ..absint import State

EXPLANATION = (
    "Must-pass-through and pipeline-shape rules on the MIR of try_from_iter, try_boxed_from_iter, extend and the two from_iter impls (F0; F1 adds the boxed forms). "
    "C07.O: the Ok(..) value is constructed only under facts `position == N` (resp. vec.len() == N) AND `the extra poll returned None`; C07.H: each early Err is reached only under "
    "size_hint lower > N or upper < N (equality never rejects, so a truthful hint never causes a spurious Err); C07.P: the source is polled again only under `position == N` (so never after it "
    "returned None, and at most N + 1 polls in total given C07.Z); C07.Z: extend is destination.zip(source).for_each(builder-closure) with the DESTINATION as Zip's receiver over the whole array "
    "(a full destination stops the zip without polling the source; i-th produced item goes to slot i), the source is handed over by `&mut`, the boxed form polls through take(N) into a Vec of that capacity; "
    "C07.D: the builder is a live tracked owner at every foreign call (drop accounting on the error paths); C07.F: from_iter = try_* + from_iter_length_fail(N).")

K_TRY = "GenericArray<$0,$1>::try_from_iter"
K_TRYB = "GenericArray<$0,$1>::try_boxed_from_iter"
K_FROM = "<GenericArray<$0,$1> as core::iter::FromIterator<$0>>::from_iter"
K_FROMB = "<alloc::boxed::Box<GenericArray<$0,$1>,alloc::alloc::Global> as core::iter::FromIterator<$0>>::from_iter"
K_EXT = ["IntrusiveArrayBuilder<$0,$1>::extend", "ArrayBuilder<$0,$1>::extend"]
CONV_KEYS = ("GenericArray<$0,$1>::try_from_vec", "GenericArray<$0,$1>::try_from_boxed_slice")


def results(a):
    """Result constructions in a body: (Ok sites carrying a value - `Ok(())` of a helper is not a result of the conversion -, Err sites)."""
    ok, err = [], []
    for g in a.aggregates:
        k = g["kind"]
        if isinstance(k, tuple) and k[0] == "adt" and k[1] == "core::result::Result":
            if k[2] == 0:
                if g["ops"] and g["ops"][0] in (("A", "tuple", ()), ("A", "unit", ())):
                    continue
                ok.append(g)
            else:
                err.append(g)
    return ok, err


def hint_terms(a):
    sh = [c for c in a.calls if c.fn == "core::iter::Iterator::size_hint"]
    if len(sh) != 1:
        return None
    r = sh[0].ret
    lower = Poly.atom(("proj", ("proj", r, (0,))))
    upper = Poly.atom(("proj", ("proj", r, (1, ("v", 1), 0))))
    return sh[0], lower, upper


def none_targets(a, call):
    """Blocks entered on the None edge of the switch on call's Option result."""
    return sorted({s2 for (x, s2), fs in a.edge_facts.items() if any(("variant", call.ret, 0) in f for f in fs)})


def fill_loop(ctx, cfg, a, body, at_bb):
    """The loop form of the fill (`for slot in destination { match source.next() { Some(v) => store, None => leave } }`): a loop over the
    tracked builder's whole array from slot 0, without adaptors, each continuing step storing once and counting once (builder protocol), which
    can reach at_bb only through the exhaustion of the destination. None when there is no such loop."""
    from .c03 import full_traversal_loop
    db = ctx.db(cfg)
    owners = owner_adts(db)
    cl = Classifier(db)
    for i in range(len(a.locals)):
        if local_adt(a, i) in owners:
            lp = full_traversal_loop(ctx, cfg, a, body, owners, cl, i, at_bb)
            if lp is not None:
                return lp
    return None


def is_fill_loop(ctx, cfg, a, body, lp):
    for t in lp.none_targets:
        fl = fill_loop(ctx, cfg, a, body, t)
        if fl is not None and fl.nxt is lp.nxt:
            return True
    return False


def check_try(ctx, cfg, key, boxed):
    b = ctx.body(cfg, key, "C07.O")
    if b is None:
        return
    # judged per path (helpers expanded, the loop-free part tree-shaped): what a shared helper established on each of its return paths is
    # still known where the caller looks at its result
    a = ctx.analysis_inl(cfg, key, split=True)
    N = a.tenv.length({"k": "param", "n": b["generics"][1]["n"]})
    oks, errs = results(a)
    nexts = [c for c in a.calls if c.fn == "core::iter::Iterator::next"]
    # the iterator local
    into = [c for c in a.calls if c.fn == "core::iter::IntoIterator::into_iter" and c.args[0] == ("V", "arg", 1)]
    it_local = into[0].term["dest"]["l"] if into else None
    polls = [c for c in nexts if c.args[0][0] == "P" and c.args[0][1] == ("local", it_local)]
    # fullness term (the boxed constructor may fill a boxed uninitialised array through the builder, exactly as the unboxed one does, instead of
    # collecting into a Vec: it is then judged by the same rules, plus the hand-over of the box under `full`)
    vec_form = boxed and any(c.fn == "core::iter::Extend::extend" for c in a.calls)
    builder_form = not vec_form
    if builder_form:
        full_calls = [c for c in a.calls if c.key == "IntrusiveArrayBuilder<$0,$1>::is_full"]
        full_terms = [c.ret[1] for c in full_calls if c.ret[0] == "B" and c.ret[1][0] == "cmp"]
        def is_full(facts, bb=None):
            if any(a.prove(facts, "Eq", t[2], t[3]) for t in full_terms):
                return True
            # the loop form: this point is reached only through the exhaustion of a complete, counted traversal of the destination
            return bb is not None and fill_loop(ctx, cfg, a, b, bb) is not None
    else:
        lens = [c for c in a.calls if c.fn == "alloc::vec::Vec::<T, A>::len" and c.ret[0] == "I"]
        ext = [c for c in a.calls if c.fn == "core::iter::Extend::extend"]
        vec_base = ext[0].args[0][1] if ext and ext[0].args[0][0] == "P" else None
        lens = [c for c in lens if c.args[0][0] == "P" and c.args[0][1] == vec_base and any(a.dominates(e_.bb, c.bb) for e_ in ext)]
        def is_full(facts, bb=None):
            return any(a.prove(facts, "Eq", c.ret[1], N) for c in lens)
    # a Result handed on unchanged from the crate's own Vec / boxed-slice conversion (Ok iff the length is N: C15.G) is a possible Ok as well
    convs = [c for c in a.calls if c.key in CONV_KEYS]
    if vec_form:
        for c in convs:
            if (c.term["dest"]["l"] == 0 and not c.term["dest"]["p"]) or any(r["val"] == c.ret for r in a.returns):
                oks.append({"facts": c.facts, "site": (c.bb, None), "conv": c.key})
    # C07.O: every Ok(array) is built under `destination full` and `an extra poll returned None`
    if not oks or not polls:
        ctx.ob("C07.O", key, REFUTED if oks else MISSING, "expected an Ok(..) construction guarded by one extra poll of the source; found %d Ok / %d polls" % (len(oks), len(polls)), at=b["at"], cfg=cfg)
        return
    bad = []
    for g in oks:
        none = any((("b", ("is_some", poll.ret), False) in g["facts"]) or (("variant", poll.ret, 0) in g["facts"]) for poll in polls)
        full = is_full(g["facts"], g["site"][0])
        if not (full and none):
            bad.append("Ok(..) under %s: destination full: %s, extra poll returned None: %s" % (fstr(g["facts"]), full, none))
    ctx.ob("C07.O", key, not bad, "; ".join(bad) if bad else "%d Ok(..) construction(s), each under `destination full (== N)` and `the extra poll returned None`" % len(oks), at=b["at"], cfg=cfg)
    ctx.sample({"rule": "C07.O", "fn": key, "cfg": cfg, "facts_at_Ok": [fstr(g["facts"]) for g in oks]})
    # C07.P: a poll outside the fill happens only under full
    # a poll inside a fill loop is part of the fill: exactly one per stored slot, and its None edge leaves without polling again
    from ..loops import find_loops
    in_fill = []
    for lp in ([] if vec_form else find_loops(a)):
        mine = [p_ for p_ in polls if p_.bb in lp.blocks]
        if not mine or not is_fill_loop(ctx, cfg, a, b, lp):
            continue
        cnt = lp.count_on_paths(lambda c: c in mine)
        again = [q for p_ in mine for t in none_targets(a, p_) for q in polls if q.bb == t or a.reaches(t, q.bb)]
        if cnt == {1} and not again:
            in_fill += mine
    badp = [fstr(p_.facts) for p_ in polls if p_ not in in_fill and not is_full(p_.facts, p_.bb)]
    ctx.ob("C07.P", key, not badp, "each extra iter.next() outside the fill is reached only when the destination is full: %s; polls inside a loop-form fill (one per slot, never again after None): %d" % (not badp if not badp else badp, len(in_fill)), at=polls[0].at, cfg=cfg)
    # C07.H - judged per path (helpers inlined, loop-free part tree-shaped): an Err built before any fill call must be justified by the hint
    at = ctx.analysis_inl(cfg, key, split=True)
    ht = hint_terms(at)
    if ht is None:
        ctx.ob("C07.H", key, UNKNOWN, "size_hint pre-check not found (allowed, but then nothing to check)", at=b["at"], cfg=cfg, frozen=False)
    else:
        sh, lower, upper = ht
        _, errs_t = results(at)
        fill = [c for c in at.calls if c.key in K_EXT or c.fn == "core::iter::Extend::extend"]
        early = [e for e in errs_t if fill and not any(at.dominates(f.bb, e["site"][0]) for f in fill)]
        bad = []
        for e in early:
            pf = at.poly_facts(e["facts"])
            gt = prove((">=", lower - N - 1), pf)
            lt = prove((">=", N - upper - 1), pf) and any(f[0] == "variant" and f[2] == 1 for f in e["facts"])
            if not (gt or lt):
                bad.append(fstr(e["facts"]))
        ctx.ob("C07.H", "%s#early_err" % key, not bad, "%d early Err exit(s) (before any element is taken); each requires lower > N or (upper = Some(u), u < N); unjustified: %s" % (len(early), bad or "none"), at=b["at"], cfg=cfg)
    # C07.Z (call-site part): the fill, judged on the body with the builder's extend() expanded in place - so `builder.extend(&mut iter)` and a
    # hand-written `destination.zip(&mut iter).for_each(..)` are the same code to this rule
    if builder_form:
        az = ctx.analysis_inl(cfg, key, force=tuple(K_EXT), tag="fill")
        owners = owner_adts(ctx.db(cfg))
        into_z = [c for c in az.calls if c.fn == "core::iter::IntoIterator::into_iter" and c.args[0] == ("V", "arg", 1)]
        itl = into_z[0].term["dest"]["l"] if into_z else None
        fes = [c for c in az.calls if c.fn == "core::iter::Iterator::for_each" and isinstance(c.args[0], tuple) and len(c.args[0]) == 5 and c.args[0][:3] == ("V", "iter", "zip")]
        ok = len(fes) == 1
        det = "expected one destination.zip(&mut source).for_each(..) (directly or through builder.extend); found %d" % len(fes)
        if ok:
            fe = fes[0]
            dest, src = fe.args[0][3], fe.args[0][4]
            bl = [i for i in range(len(az.locals)) if local_adt(az, i) in owners]
            d_ok = False
            for i in bl:
                o = owners[local_adt(az, i)]
                whole = fe.mem.get((("local", i), ()))
                arrp = whole[2][o["array"]] if whole is not None and whole[0] == "A" else az.read_cell(State(fe.mem, fe.facts), ("local", i), (o["array"],), None)
                if arrp is not None and arrp[0] == "P" and isinstance(dest, tuple) and dest[:3] == ("V", "iter", "slice") and dest[4] is True and dest[3][1] == arrp[1] and not dest[3][2].t and dest[3][3] == N:
                    d_ok = True
            s_ok = src[0] == "P" and src[1] == ("local", itl) and not src[2].t
            cv = fe.args[1]
            c_ok = False
            if cv[0] == "A" and isinstance(cv[1], tuple) and cv[1][0] == "closure":
                cb = ctx.db(cfg).by_path.get(cv[1][1])
                ca = ctx.analysis(cfg, cb["key"])
                role, cok, cdet, info = check_closure_protocol(ca, Classifier(ctx.db(cfg)))
                ws = [c for c in ca.calls if c.fn in ("core::mem::MaybeUninit::<T>::write", "core::ptr::write")]
                pair = len(ws) == 1 and ws[0].args[1] == ("V", "proj", ("proj", ("V", "arg", 2), (1,))) and ws[0].args[0][0] == "P" and ws[0].args[0][1] == ("obj", ("proj", ("proj", ("V", "arg", 2), (0,))))
                c_ok = cok and role == "builder" and pair
            ok = d_ok and s_ok and c_ok
            det = "fill = zip(iter_mut over the tracked builder's whole array, &mut source).for_each(cl): destination is Zip's receiver: %s; source passed by &mut: %s; closure stores item -> slot and counts it: %s" % (d_ok, s_ok, c_ok)
        if not fes:
            # loop form of the same fill, judged on the same expanded body
            polls_z = [c for c in az.calls if c.fn == "core::iter::Iterator::next" and c.args[0][0] == "P" and c.args[0][1] == ("local", itl)]
            for lp in find_loops(az):
                mine = [p_ for p_ in polls_z if p_.bb in lp.blocks]
                if len(mine) != 1 or not is_fill_loop(ctx, cfg, az, b, lp):
                    continue
                item = ("V", "proj", ("proj", mine[0].ret, (("v", 1), 0))) if mine[0].ret[0] != "O" else mine[0].ret[1]
                slots = [(p_[1], p_[2]) for p_ in lp.slot_ptrs()]
                ws = [c for c in lp.calls() if c.fn in ("core::mem::MaybeUninit::<T>::write", "core::ptr::write")]
                w_ok = len(ws) == 1 and ws[0].args[0][0] == "P" and (ws[0].args[0][1], ws[0].args[0][2]) in slots and ws[0].args[1] == item
                one = lp.count_on_paths(lambda c: c in mine) == {1} and lp.count_on_paths(lambda c: c in ws) == {1}
                leave = not [q for t in none_targets(az, mine[0]) for q in polls_z if q.bb == t or az.reaches(t, q.bb)]
                ok = w_ok and one and leave
                det = "fill = loop over the tracked builder's whole array (destination polled first, from slot 0, no adaptor; builder protocol per step): True; one source poll and one store per continuing step: %s; the polled item is stored into the slot of that step: %s; a None from the source leaves the loop without another poll: %s" % (one, w_ok, leave)
                break
        ctx.ob("C07.Z", key + "#fill", ok, det, at=b["at"], cfg=cfg)
        if boxed:
            # the filled box becomes the result only under `full`: the raw hand-over written out (equal layouts are C16.P's obligation on this body)
            raw = [c for c in a.calls if c.fn.endswith("::from_raw") and "Box::<T" in c.fn]
            okv = bool(raw) and all(is_full(c.facts, c.bb) for c in raw)
            ctx.ob("C07.O", key + "#convert", okv, "%s reached only when the builder is full: %s" % ([c.fn.split("::")[-1] for c in raw], okv), at=b["at"], cfg=cfg)
    else:
        ex = [c for c in a.calls if c.fn == "core::iter::Extend::extend"]
        # (the per-path analysis repeats a call site once per path through it: one site in the source is what counts)
        ok = len({(c.at, a.blocks[c.bb].get("split_of", c.bb)) for c in ex}) == 1 and len({repr(c.args) for c in ex}) == 1
        det = "expected Vec::extend((&mut iter).take(N))"
        if ok:
            src = ex[0].args[1]
            inner = src[3] if isinstance(src, tuple) and len(src) == 5 and src[:3] == ("V", "iter", "take") else None
            if isinstance(inner, tuple) and len(inner) >= 4 and inner[:3] == ("V", "iter", "by_ref"):
                inner = inner[3]  # Iterator::by_ref's provided body is `self` (an iterator type overriding it is outside the claim)
            ok = inner is not None and inner[0] == "P" and inner[1] == ("local", it_local) and src[4] == ("I", N)
            wc = [c for c in a.calls if c.fn == "alloc::vec::Vec::<T>::with_capacity"]
            cap = len({(c.at, a.blocks[c.bb].get("split_of", c.bb)) for c in wc}) == 1 and all(c.args[0] == ("I", N) for c in wc)
            det = "source = take(&mut iter, N): %s; Vec::with_capacity(N): %s" % (ok, cap)
            ok = ok and cap
        ctx.ob("C07.Z", key + "#fill", ok, det, at=b["at"], cfg=cfg)
        # the Vec becomes the box only under len == N: through the crate's own conversions, or by the raw hand-over written out
        # (Box::from_raw of the boxed slice's own block - layouts equal under len == N is C16.P's obligation on this same body)
        raw = [c for c in a.calls if c.fn.endswith("::from_raw") and "Box::<T" in c.fn] if not convs else []
        sites = convs or raw
        okv = bool(sites) and all(is_full(c.facts) for c in sites)
        ctx.ob("C07.O", key + "#convert", okv, "%s reached under len == N: %s (its result cannot be Err / its unwrap cannot fail / the raw hand-over has equal layouts)" % ([(c.key or c.fn).split("::")[-1] for c in sites], okv), at=b["at"], cfg=cfg)


def check_extend(ctx, cfg, key):
    rule = "C07.Z"
    b = ctx.db(cfg).get(key)
    if b is None:
        if key == K_EXT[0]:
            ctx.ob(rule, key, MISSING, "extend not found", cfg=cfg)
        return
    a = ctx.analysis(cfg, key)
    db = ctx.db(cfg)
    owners = owner_adts(db)
    N = a.tenv.length({"k": "param", "n": [g for g in b["generics"] if g["kind"] == "type"][1]["n"]})
    fe = [c for c in a.calls if c.fn == "core::iter::Iterator::for_each"]
    ok = len(fe) == 1
    det = "expected destination.zip(source).for_each(..)"
    if ok:
        pipe = fe[0].args[0]
        ok = isinstance(pipe, tuple) and len(pipe) == 5 and pipe[:3] == ("V", "iter", "zip")
        if ok:
            dest, src = pipe[3], pipe[4]
            adt = [p for p in owners if p.split("::")[-1] == key.split("<")[0]][0]
            o = owners[adt]
            d_ok = isinstance(dest, tuple) and dest[:3] == ("V", "iter", "slice") and dest[4] is True and not dest[3][2].t and dest[3][3] == N
            if o["array_is_ref"]:
                d_ok = d_ok and dest[3][1] == ("obj", ("cell", (("arg", 1), (o["array"],))))
            else:
                d_ok = d_ok and dest[3][1] == ("field", ("arg", 1), (o["array"],))
            s_ok = src == ("V", "arg", 2)
            cv = fe[0].args[1]
            c_ok = False
            if cv[0] == "A" and isinstance(cv[1], tuple) and cv[1][0] == "closure":
                cb = db.by_path.get(cv[1][1])
                ca = ctx.analysis(cfg, cb["key"])
                role, cok, cdet, info = check_closure_protocol(ca, Classifier(db))
                # writes the zipped source item (tuple field 1) into the zipped slot (tuple field 0)
                ws = [c for c in ca.calls if c.fn in ("core::mem::MaybeUninit::<T>::write", "core::ptr::write")]
                pair = len(ws) == 1 and ws[0].args[1] == ("V", "proj", ("proj", ("V", "arg", 2), (1,))) and ws[0].args[0][0] == "P" and ws[0].args[0][1] == ("obj", ("proj", ("proj", ("V", "arg", 2), (0,))))
                # "counts it" means: in the builder's OWN position field, the one its Drop reads - a count kept anywhere else (a local copy written
                # back after the loop) leaves the stored items unowned whenever the source panics or the loop is left early
                own = bool(info["positions"]) and all((not isinstance(k_, tuple)) and k_ < len(cv[2]) and cv[2][k_][0] == "P" and cv[2][k_][1][0] == "field"
                                                      and cv[2][k_][1][1] in (("arg", 1), ("obj", ("cell", (("arg", 1), ())))) and cv[2][k_][1][2][0] in o["pos"] for k_ in info["positions"])
                c_ok = cok and role == "builder" and pair and own
            ok = d_ok and s_ok and c_ok
            det = "zip receiver is the destination (iter_mut over the builder's whole array): %s; zip argument is the source parameter: %s; closure stores item -> slot and counts it in the builder's own position: %s" % (d_ok, s_ok, c_ok)
    ctx.ob(rule, key, ok, det, at=b["at"], cfg=cfg)
    ctx.sample({"rule": rule, "fn": key, "cfg": cfg, "detail": det})


def check_from_iter(ctx, cfg, key, try_key):
    rule = "C07.F"
    b = ctx.db(cfg).get(key)
    if b is None:
        if key == K_FROM:
            ctx.ob(rule, key, MISSING, "from_iter not found", cfg=cfg)
        return
    a = ctx.analysis(cfg, key)
    N = a.tenv.length({"k": "param", "n": b["generics"][1]["n"]})
    tr = [c for c in a.calls if c.key == try_key]
    fail = [c for c in a.calls if c.key == "from_iter_length_fail"]
    uoe = [c for c in a.calls if c.fn == "core::result::Result::<T, E>::unwrap_or_else"]
    if len(tr) == 1 and not fail and len(uoe) == 1:
        # from_iter = try_*(iter).unwrap_or_else(|_| from_iter_length_fail(N))
        cv = uoe[0].args[1]
        cb = ctx.db(cfg).by_path.get(cv[1][1]) if (cv[0] == "A" and isinstance(cv[1], tuple) and cv[1][0] == "closure") else None
        c_ok = False
        if cb is not None:
            ca = ctx.analysis(cfg, cb["key"])
            fc = [c for c in ca.calls if c.key == "from_iter_length_fail"]
            c_ok = len(fc) == 1 and fc[0].args[0] == ("I", ca.tenv.length({"k": "param", "n": b["generics"][1]["n"]})) and len(payload_calls(ca)) == 1 and not ca.returns
        okv = tr[0].args[0] == ("V", "arg", 1) and uoe[0].args[0] == tr[0].ret and all(r["val"] == uoe[0].ret for r in a.returns) and len(payload_calls(a)) == 2
        ctx.ob(rule, key, okv and c_ok, "from_iter = %s(iter).unwrap_or_else(|_| from_iter_length_fail(N)): %s; the closure only diverges through from_iter_length_fail(N): %s" % (try_key.split("::")[-1], okv, c_ok), at=b["at"], cfg=cfg)
        return
    ok = len(tr) == 1 and len(fail) == 1 and tr[0].args[0] == ("V", "arg", 1) and fail[0].args[0] == ("I", N)
    errv = any(f[0] == "variant" and f[1] == tr[0].ret and f[2] == 1 for f in fail[0].facts) if ok else False
    okret = ok and all(r["val"] == ("V", "proj", ("proj", tr[0].ret, (("v", 0), 0))) or r["val"][0] == "V" for r in a.returns)
    others = [c.fn for c in payload_calls(a) if c not in tr and c not in fail]
    ctx.ob(rule, key, ok and errv and not others, "from_iter = %s(iter); Err => from_iter_length_fail(N) (reached only on the Err variant: %s); no other calls: %s" % (try_key.split("::")[-1], errv, not others), at=b["at"], cfg=cfg)
    fb = ctx.db(cfg).get("from_iter_length_fail")
    if fb is not None:
        fa = ctx.analysis(cfg, "from_iter_length_fail")
        div = not fa.returns and any(c.fn.startswith("core::panicking::") for c in fa.calls)
        ctx.ob(rule, "from_iter_length_fail", div, "diverges by panicking: %s" % div, at=fb["at"], cfg=cfg)


def check(ctx):
    ctx.explanation = EXPLANATION
    ctx.trusted = ["core::iter::Zip::next polls its receiver first and returns None without polling the argument when the receiver is exhausted (the source is passed as `&mut I`, which is not TrustedRandomAccess)",
                   "Take<I> polls at most n items; Vec::extend stores items in production order"]
    ctx.assumptions = ["the panic message text is not checked", "a lying size_hint can cause an early Err, never an Ok (C07.O is independent of the hint)"]
    cfgs = ["F0", "F1", "F1N"] if ctx.tier == "quick" else ["F0", "F1", "F1N", "F2", "F0N", "F2N"]
    ctx.need(*cfgs)
    for cfg in cfgs:
        verify_models(ctx, cfg, ["IntrusiveArrayBuilder<$0,$1>::is_full", "ArrayBuilder<$0,$1>::is_full", "IntrusiveArrayBuilder<$0,$1>::iter_position"])
        check_try(ctx, cfg, K_TRY, False)
        for k in K_EXT:
            check_extend(ctx, cfg, k)
        check_from_iter(ctx, cfg, K_FROM, K_TRY)
        if (not cfg.startswith("F0")):
            check_try(ctx, cfg, K_TRYB, True)
            check_from_iter(ctx, cfg, K_FROMB, K_TRYB)
        # C07.N: the fallible constructors answer a wrong count with Err, never with a panic of their own: on the fully expanded, tree-shaped
        # body no explicit panic or compiler-inserted check can fail and no std call is made whose panic condition is not excluded (panics of
        # the caller's iterator are the caller's)
        from ..rules import reachable_panics
        # judged where debug assertions do not exist (a `debug_assert!` of an internal invariant is not a way of answering the caller, and whether
        # it can fail is the invariant's own rule); arithmetic overflow checks on positions are excluded (positions are bounded by N: assumption)
        for k_ in ((K_TRY,) + ((K_TRYB,) if (not cfg.startswith("F0")) else ())) if cfg.endswith("N") else ():
            if ctx.db(cfg).get(k_) is not None:
                at_ = ctx.analysis_inl(cfg, k_, split=True, force="*", tag="np")
                pan = reachable_panics(at_, checks=False)
                ctx.ob("C07.N", k_, not pan, "no panicking exit of its own in the fallible constructor: %s" % ((not pan) or pan), at=ctx.db(cfg).get(k_)["at"], cfg=cfg)
        # C07.W ("drops every item it pulled exactly once"): once the builder is finished (guard disarmed) the items are handed on before
        # anything can return early or unwind - else the N items already pulled are leaked on that path
        from . import c04
        c04.check_finish_window(ctx, cfg, "C07.W", only=(K_TRY, K_TRYB))
        # C07.Q (the same clause): what the builder will drop is what was written - its position moves only inside judged element-moving steps
        from . import c03 as _c03
        _c03.check_position_stores(ctx, cfg, "C07.Q")
        from . import c05 as _c05
        _c05.check_drop_ranges(ctx, cfg)   # (and its Drop releases exactly [0, position): C05.R, shared)
        # C07.D: builder liveness at foreign calls
        db = ctx.db(cfg)
        a = ctx.analysis(cfg, K_TRY)
        if a is not None:
            cl = Classifier(db)
            owners = owner_adts(db)
            n = 0
            for c in a.calls:
                if cl.classify(c, a.body) == "foreign" and (c.key in K_EXT or c.fn == "core::iter::Iterator::next"):
                    dropped, _ = unwind_drops(a, c)
                    blds = [i for i in range(len(a.locals)) if local_adt(a, i) in owners and any(m.key == "IntrusiveArrayBuilder<$0,$1>::new" and m.term["dest"]["l"] == i for m in a.calls)]
                    ok = bool(blds) and all(i in dropped for i in blds)
                    ctx.ob("C07.D", "%s#%s" % (K_TRY, c.fn), ok, "builder local(s) %s dropped on the unwind path of %s: %s" % (blds, c.fn, ok), at=c.at, cfg=cfg)
                    n += 1
            ctx.floor("C07.D", "foreign calls with the builder live (%s)" % cfg, n, 1)
