"""C04 - a panic in caller-supplied code never loses or double-drops an element."""

from ..core import PROVED, REFUTED, UNKNOWN, MISSING
from ..typestate import Classifier, check_closure_protocol
from ..ownership import link_closure, raw_write_discipline, owner_adts, local_adt, unwind_drops
from ..models import verify_models
from ..rules import vstr, fstr

EXPLANATION = (
    "Unwind-window typestate over the MIR of every element-moving closure and loop in the crate (configs F0+F1; F1 adds the alloc/serde code). "
    "Every call terminator that can run caller-supplied code (FnMut::call_mut, Clone::clone, Default::default, Iterator::next on a generic iterator, "
    "SeqAccess::next_element, drops of generic values, and crate functions that transitively contain one - classified from the resolved callee and its generic "
    "arguments) is visited with the abstract ownership state at that point: C04.P - in each consumer closure every slot that has been duplicated by ptr::read has "
    "already been excluded from its owner by the position advance, in each builder closure a written slot has been counted (and never counted before written), so "
    "the unwind edge leaves every element with exactly one owner; C04.O - each position is a field of a tracked owner (a local whose Drop releases a field-described "
    "range), the slots iterate that owner's storage, and drop elaboration drops that owner on the unwind path of the call driving the closure (followed through drop flags); "
    "closures that read without tracking exist only under needs_drop == false facts over ManuallyDrop sources; C04.W - in non-closure code a raw element write is "
    "counted by a live owner before any later foreign call; C04.F - once a builder is finished (its drop guard disarmed) the storage is handed on (array_assume_init / Box::from_raw) before any call that can unwind or return early; C04.L - builders handed to `extend` are live on its unwind path. Helper models used at call sites are "
    "verified against the helpers' bodies (MODEL).")

# closures the reviewed tree contains (floors); new closures are analysed too
FROZEN = [
    "<GenericArray<$0,$1> as GenericSequence<$0>>::generate::{closure#0}",
    "<GenericArray<$0,$1> as GenericSequence<$0>>::inverted_zip::{closure#0}",
    "<GenericArray<$0,$1> as GenericSequence<$0>>::inverted_zip::{closure#1}",
    "<GenericArray<$0,$1> as GenericSequence<$0>>::inverted_zip2::{closure#0}",
    "<GenericArray<$0,$1> as GenericSequence<$0>>::inverted_zip2::{closure#1}",
    "<GenericArray<$0,$1> as FunctionalSequence<$0>>::map::{closure#0}",
    "<GenericArray<$0,$1> as FunctionalSequence<$0>>::fold::{closure#0}",
    "trait GenericSequence::inverted_zip::{closure#0}",
    "<GenericArrayIter<$0,$1> as core::iter::Iterator>::fold::{closure#0}",
    "<GenericArrayIter<$0,$1> as core::iter::DoubleEndedIterator>::rfold::{closure#0}",
    "IntrusiveArrayBuilder<$0,$1>::extend::{closure#0}",
    "ArrayBuilder<$0,$1>::extend::{closure#0}",
]
FROZEN_F1 = ["<alloc::boxed::Box<GenericArray<$0,$1>,alloc::alloc::Global> as GenericSequence<$0>>::generate::{closure#0}"]


def check_closures(ctx, cfg, want_normal=False, rule_p="C04.P", rule_o="C04.O"):
    db = ctx.db(cfg)
    cl = Classifier(db)
    seen = set()
    n = 0
    for b in db.bodies:
        if b["kind"] != "Closure":
            continue
        a = ctx.analysis(cfg, b["key"])
        role, ok, det, info = check_closure_protocol(a, cl)
        if role == "none":
            continue
        seen.add(b["key"])
        frozen = b["key"] in FROZEN or b["key"] in FROZEN_F1
        probs = info["normal_problems"] if want_normal else info["unwind_problems"]
        if not want_normal and role in ("builder", "consumer"):
            # a step that ends out of balance (stored but not counted, counted but not stored, read but not advanced) leaves the owner wrong for
            # every call that can unwind in the NEXT step: the per-step discipline is part of panic safety, not only of the panic-free history
            probs = list(probs) + [p_ for p_ in info["normal_problems"] if p_ not in probs]
        ctx.ob(rule_p, b["key"], not probs,
               ("; ".join(probs) if probs else "%s closure: %d slot(s), position upvars %s; state at each of the %d foreign/panic call sites is consistent (CLEAN)" % (
                   role, len(info["slots"]), info["positions"], len(info["at_foreign"]))), at=b["at"], cfg=cfg, frozen=True)
        ctx.sample({"rule": rule_p, "closure": b["key"], "cfg": cfg, "role": role,
                    "states_at_foreign_calls": [{"callee": e[3], "reads": st[0], "writes": st[1], "advances": st[2]} for e, st in info["at_foreign"]]})
        if not want_normal:
            link_closure(ctx, cfg, b, info, role, rule_o)
        elif role == "untracked-consumer" or info.get("stop_returns"):
            # reading without position tracking is ownership-linear only where the elements need no drop; a closure that stops its driver with
            # uncounted steps needs a driver that really stops (parent-side obligation)
            link_closure(ctx, cfg, b, info, role, rule_p)
        n += 1
    # (the closures of the reviewed tree are listed in FROZEN for the record; element-moving code is discovered, not anchored:
    #  a closure that became a loop is judged by the loop rules below, one that disappeared with its function has nothing to judge)
    from ..loops import find_loops, link_loop
    for b in db.bodies:
        if b["kind"] not in ("Fn", "AssocFn", "Closure"):
            continue
        if not any(t["term"]["k"] == "call" and t["term"]["f"].get("k") == "fn" and t["term"]["f"]["def"] in ("core::iter::Iterator::next", "core::iter::DoubleEndedIterator::next_back") for t in b["mir"]["blocks"]):
            continue
        a = ctx.analysis(cfg, b["key"])
        for lp in find_loops(a):
            role, ok, det, info = check_closure_protocol(a, cl, lp)
            if role == "none":
                continue
            probs = list(info["normal_problems"] if want_normal else info["unwind_problems"])
            if want_normal and info["at_break"] and any(any(x != 0 for x in st[0]) or any(x != 0 for x in st[1]) for st in info["at_break"]) and any(st[0] != st[2][:len(st[0])] and st[1] != st[2][:len(st[1])] for st in info["at_break"]):
                probs.append("the loop can be left in the middle of a step with a slot moved but its position not advanced")
            k = "%s#%s" % (b["key"], lp.key)
            ctx.ob(rule_p, k, not probs,
                   ("; ".join(probs) if probs else "%s loop step: %d slot(s), positions %s; state at each of the %d foreign/panic call sites is consistent (CLEAN)" % (
                       role, len(info["slots"]), [p_[1] for p_ in info["positions"]], len(info["at_foreign"]))), at=lp.nxt.at, cfg=cfg, frozen=False)
            if not want_normal or role == "untracked-consumer":
                link_loop(ctx, cfg, b, lp, info, role, rule_o if not want_normal else rule_p)
            n += 1
    return n


def check_raw_writes(ctx, cfg):
    db = ctx.db(cfg)
    n = 0
    for b in db.bodies:
        if b["kind"] in ("Fn", "AssocFn"):
            if ctx.is_helper(cfg, b):
                continue   # a private helper writes into whatever its caller hands it: judged expanded in its callers, where the owner is known
            n += raw_write_discipline(ctx, cfg, b, "C04.W")
    return n


def check_extend_callers(ctx, cfg):
    """Builders handed to extend()/iter.next() are live tracked owners on the unwind path."""
    db = ctx.db(cfg)
    owners = owner_adts(db)
    cl = Classifier(db)
    n = 0
    for b in db.bodies:
        if b["kind"] not in ("Fn", "AssocFn"):
            continue
        a = None
        has_owner = any(l["ty"].get("k") == "adt" and l["ty"]["def"] in owners for l in b["mir"]["locals"][b["mir"]["arg_count"] + 1:])
        if not has_owner:
            continue
        a = ctx.analysis(cfg, b["key"])
        # owner locals constructed in this body
        built = {}
        for s in a.assigns:
            if s["cell"][0][0] == "local" and s["cell"][1] == () and local_adt(a, s["cell"][0][1]) in owners and s["rv"].get("k") != "use":
                built[s["cell"][0][1]] = s["site"][0]
        for c in a.calls:
            if c.term["dest"]["p"] == [] and local_adt(a, c.term["dest"]["l"]) in owners:
                built[c.term["dest"]["l"]] = c.bb
        if not built:
            continue
        for c in a.calls:
            if cl.classify(c, b) != "foreign":
                continue
            dropped, has_unwind = unwind_drops(a, c)
            for o, bb0 in built.items():
                # owner initialised before this call and not yet moved out (finish / forget / return)
                if not (a.dominates(bb0, c.bb) and bb0 != c.bb):
                    continue
                moved = any(m.bb != c.bb and a.dominates(m.bb, c.bb) and any(x == c.mem.get((("local", o), ())) for x in m.args) and m.fn.split("::")[-1] in ("finish", "forget", "assume_init")
                            for m in a.calls)
                still = (("local", o), ()) in c.mem or any(k[0] == ("local", o) for k in c.mem)
                if moved or not still:
                    continue
                # is the owner value still in the local (not moved)? MIR moves clear nothing in our store; use drop flags: dropped set decides
                ok = o in dropped
                fin = [m for m in a.calls if m.fn.split("::")[-1] in ("finish", "forget") and a.dominates(m.bb, c.bb)]
                if fin and not ok:
                    continue  # after the finisher the owner is gone by design
                ctx.ob("C04.L", "%s#%s#owner_%d" % (b["key"], c.fn, o), ok,
                       "tracked owner local _%d (%s) is dropped on the unwind path of %s: %s" % (o, local_adt(a, o).split("::")[-1], c.fn, ok), at=c.at, cfg=cfg, frozen=False)
                n += 1
    return n


def check_finish_window(ctx, cfg, rule="C04.F", only=None):
    """After a builder is finished (its drop guard disarmed) the initialised storage has no owner until
    array_assume_init / Box::from_raw / the function's return hands it on: no call that can run foreign code
    (or return early with an error) may sit in that window."""
    db = ctx.db(cfg)
    cl = Classifier(db)
    n = 0
    for b in db.bodies:
        if b["kind"] not in ("Fn", "AssocFn"):
            continue
        if ctx.is_helper(cfg, b) or (only is not None and b["key"] not in only):
            continue  # judged inlined in its callers, where the storage is handed on
        # path-exact after the last loop (tree-shaped suffix): a finish() on one branch is followed by that branch's own hand-over
        a = ctx.analysis_inl(cfg, b["key"], split=True)
        fins = [c for c in a.calls if c.key == "IntrusiveArrayBuilder<$0,$1>::finish"]
        if not fins:
            continue
        verdicts = {}
        for i, f in enumerate(fins):
            # hand-over forms: the crate's own assume_init helpers, Box::from_raw, or core's by-value MaybeUninit::<GenericArray<..>>::assume_init
            def hands_on(c):
                if c.key in ("IntrusiveArrayBuilder<$0,$1>::array_assume_init", "GenericArray<$0,$1>::assume_init") or c.fn.endswith("::from_raw"):
                    return True
                if c.fn.startswith("alloc::boxed::Box::<core::mem::MaybeUninit<T>") and c.fn.endswith("::assume_init") and bool(c.targs) and c.targs[0].get("k") == "adt" and c.targs[0]["def"].split("::")[-1] == "GenericArray":
                    return True   # Box<MaybeUninit<GenericArray<..>>>::assume_init: the boxed storage handed on as the finished array (a re-typing of the box)
                return c.fn == "core::mem::MaybeUninit::<T>::assume_init" and bool(c.targs) and c.targs[0].get("k") == "adt" and c.targs[0]["def"].split("::")[-1] == "GenericArray"
            closers = [c for c in a.calls if hands_on(c) and a.dominates(f.bb, c.bb) and c.bb != f.bb]
            bad = []
            for c in a.calls:
                if c.bb == f.bb or not a.dominates(f.bb, c.bb):
                    continue
                if closers and all(a.dominates(x.bb, c.bb) for x in closers):
                    continue
                k = cl.classify(c, b)
                if k in ("foreign", "panic") and c not in closers:
                    # into_raw / cast plumbing is pure; anything foreign in the window is a leak window
                    bad.append(c.fn)
            # early returns inside the window: a `return` reachable from finish without passing a closer
            ok = bool(closers) and not bad
            det = (("storage handed on by %s right after finish(); no foreign call in between" % closers[0].fn.split("::")[-1]) if ok else
                   ("calls that can unwind or return early while the finished storage has no owner: %s (the elements would be leaked)" % sorted(set(bad)) if bad else "finish() is not followed by a hand-over of the storage (array_assume_init / assume_init / from_raw)"))
            site = a.blocks[f.bb].get("split_of", f.bb)
            prev = verdicts.get((f.at, site))
            verdicts[(f.at, site)] = (ok and (prev is None or prev[0]), det if (prev is None or prev[0]) else prev[1], f.at)
        for i, (k_, (ok, det, at_)) in enumerate(sorted(verdicts.items(), key=lambda kv: repr(kv[0]))):
            ctx.ob(rule, "%s#finish#%d" % (b["key"], i), ok, det, at=at_, cfg=cfg)
            n += 1
    return n


RAW_READS = ("core::ptr::read", "core::ptr::read_unaligned", "core::ptr::read_volatile",
             "core::ptr::mut_ptr::<impl *mut T>::read", "core::ptr::const_ptr::<impl *const T>::read",
             "core::ptr::mut_ptr::<impl *mut T>::read_unaligned", "core::ptr::const_ptr::<impl *const T>::read_unaligned")
RAW_WRITES = ("core::ptr::write", "core::ptr::write_unaligned", "core::ptr::mut_ptr::<impl *mut T>::write", "core::ptr::mut_ptr::<impl *mut T>::write_unaligned")


def local_duplicates(db, analysis, emit, rule="C04.D"):
    """Values other than elements (an accumulator, a seed, a half-built result) must not exist twice while caller code runs: a bitwise copy read
    through a raw pointer out of a plain local - the function's own, or the enclosing function's through a closure upvar - leaves the local the
    owner of the original; if a call that can run caller code follows before the slot is written back, and drop elaboration drops that local on
    the unwind path (of the call itself, or of the call that drives the closure), the unwinding frame and the local release the value twice."""
    from ..typestate import upvar_ptr
    from ..ownership import resolved_args, find_in
    cl = Classifier(db)
    n = 0
    for b in db.bodies:
        if b["kind"] not in ("Fn", "AssocFn", "Closure"):
            continue
        if not any(t["term"]["k"] == "call" and t["term"]["f"].get("k") == "fn" and t["term"]["f"]["def"] in RAW_READS for t in b["mir"]["blocks"]):
            continue
        a = analysis(b["key"])
        reads = [c for c in a.calls if c.fn in RAW_READS and c.args and c.args[0][0] == "P"]
        if not reads:
            continue
        foreign = [c for c in a.calls if cl.classify(c, b) == "foreign" and not getattr(c, "no_effects", False)]
        for j, r_ in enumerate(reads):
            p = r_.args[0]
            if p[2].t:
                continue   # an offset into storage: element slots are the subject of C04.P / C04.Y
            later = [f_ for f_ in foreign if f_ is not r_ and a.dominates(r_.bb, f_.bb) and f_.bb != r_.bb]
            # a write back through the same pointer in between restores single ownership
            writes = [w for w in a.calls if w.fn in RAW_WRITES and w.args and w.args[0][0] == "P" and w.args[0][1] == p[1] and not w.args[0][2].t]
            later = [f_ for f_ in later if not any(a.dominates(r_.bb, w.bb) and a.dominates(w.bb, f_.bb) and w.bb != f_.bb for w in writes)]
            if not later:
                continue
            target = None   # (analysis of the frame that owns the local, local number, call whose unwind path matters per later call)
            if p[1][0] == "local" and len(p[1]) == 2:
                target = ("own", a, p[1][1], None)
            else:
                up = upvar_ptr(p[1]) if b["kind"] == "Closure" else None
                if up is not None:
                    parent = db.by_path.get(b["root"])
                    if parent is not None and parent["key"] != b["key"]:
                        ap = analysis(parent["key"])
                        aggs = [g for g in ap.aggregates if isinstance(g["kind"], tuple) and g["kind"][0] == "closure" and g["kind"][1] == b["path"]]
                        if len(aggs) == 1 and up[0] < len(aggs[0]["ops"]):
                            op = aggs[0]["ops"][up[0]]
                            cval = ("A", aggs[0]["kind"], aggs[0]["ops"])
                            drivers = [c for c in ap.calls if cl.classify(c, parent) == "foreign" and any(find_in(x, lambda t: t == cval) for x in resolved_args(ap, c))]
                            if len(drivers) == 1 and op[0] == "P" and op[1][0] == "local" and len(op[1]) == 2 and not op[2].t:
                                loc = op[1][1]
                                if up[1] == 2:
                                    # the upvar refers to a local holding the pointer: what that local holds when the driver runs
                                    from ..absint import State
                                    pv = ap.read_cell(State(drivers[0].mem, drivers[0].facts), op[1], (), None)
                                    loc = pv[1][1] if pv and pv[0] == "P" and pv[1][0] == "local" and len(pv[1]) == 2 and not pv[2].t else None
                                if loc is not None:
                                    target = ("parent", ap, loc, drivers[0])
            if target is None:
                continue   # not a plain local (a slot of an owner, a caller's buffer): other rules
            kind, fa, loc, drv = target
            bad = []
            for f_ in later:
                dropped, has_unwind = unwind_drops(fa, drv if drv is not None else f_)
                if loc in dropped:
                    bad.append(f_.fn.split("::")[-1])
            n += 1
            emit(rule, "%s#read#%d" % (b["key"], j), PROVED if not bad else REFUTED,
                   ("the value read out of local _%d%s is either written back before, or not released by that local on the unwind path of, every later call that can run caller code (%d such calls)" % (
                       loc, "" if kind == "own" else " of the enclosing function", len(later))) if not bad else
                   ("a bitwise copy of local _%d%s is live while %s can unwind, and drop elaboration still drops that local on the unwind path: the value is released twice" % (
                       loc, "" if kind == "own" else " of the enclosing function", ", ".join(sorted(set(bad))))), r_.at)
    return n


def check_local_duplicates(ctx, cfg, rule="C04.D"):
    import os
    import tempfile
    from ..core import VERIF
    from ..facts import Facts
    from ..absint import analyze
    db = ctx.db(cfg)
    n = local_duplicates(db, lambda key: ctx.analysis(cfg, key), lambda r, key, st, det, at: ctx.ob(r, key, st, det, at=at, cfg=cfg, frozen=False), rule)
    ctx.ob(rule, "sweep (%s)" % cfg, PROVED, "raw reads of whole plain locals followed by a call that can run caller code: %d site(s) judged (none on the reviewed tree: the crate threads accumulators by value)" % n, cfg=cfg)
    # the rule has no instance on the reviewed tree: it must fire on the positive fixture and stay silent on its twin, on every run
    bld = ctx.builds[cfg]
    out = os.path.join(tempfile.mkdtemp(prefix="c04d-", dir=bld.dir), "facts.json")
    rc, diags, facts, stderr = bld.compile_witness(os.path.join(VERIF, "fixtures", "c04_local_dup", "lib.rs"), out_facts=out, crate_name="c04_fixture")
    if rc != 0 or facts is None:
        ctx.ob(rule, "fixture (%s)" % cfg, MISSING, "fixture did not compile: %s" % stderr[-300:], cfg=cfg)
        return n
    fdb = Facts(facts)
    cache = {}

    def fan(key):
        if key not in cache:
            cache[key] = analyze(fdb, fdb.get(key))
        return cache[key]
    got = {}
    local_duplicates(fdb, fan, lambda r, key, st, det, at: got.setdefault(key.split("#")[0].split("::{")[0], []).append(st), rule)
    ok = got.get("fold_in_place") == [REFUTED] and got.get("fold_loop") == [REFUTED] and REFUTED not in got.get("fold_in_place_guarded", [])
    ctx.ob(rule, "fixture (%s)" % cfg, ok, "on the fixture: accumulator in a plain local read through a closure upvar -> %s, in a loop of the same frame -> %s (required: refuted), the ManuallyDrop twin -> %s (required: not refuted)" % (
        got.get("fold_in_place"), got.get("fold_loop"), got.get("fold_in_place_guarded", "no finding")), cfg=cfg)
    return n


def check_suppressed_elements(ctx, cfg, rule="C04.S"):
    """A heap array re-typed in place from elements `T` to `ManuallyDrop<T>` / `MaybeUninit<T>` (Box::into_raw -> cast -> Box::from_raw) takes the
    elements' destructors out of the box's hands: from there on they are dropped only if the code moves each one out. If caller code (a closure,
    a Clone, a source iterator) can run after the re-typing - in this body or in closures it drives - an unwinding call leaves the elements not
    yet moved out with no owner: dropped zero times. (A tracked owner with a cursor - ArrayConsumer, the by-value iterator - is the form that
    releases the rest; the reverse re-typing MaybeUninit<T> -> T, the end of an in-place fill, suppresses nothing.) Zero instances on the tree."""
    from ..tys import is_ga, adt_args, tstr
    from ..typestate import has_generic
    db = ctx.db(cfg)
    cl = Classifier(db)
    n = 0
    for b in db.bodies:
        if b["kind"] not in ("Fn", "AssocFn") or not any(t["term"]["k"] == "call" and t["term"]["f"].get("k") == "fn" and t["term"]["f"]["def"].endswith("::from_raw") for t in b["mir"]["blocks"]):
            continue
        a = ctx.analysis(cfg, b["key"])
        irs = [c for c in a.calls if c.fn.endswith("::into_raw") and c.targs and is_ga(c.targs[0])]
        for f in [c for c in a.calls if c.fn.endswith("::from_raw") and c.targs and is_ga(c.targs[0])]:
            el = adt_args(f.targs[0])[0]
            if not (el.get("k") == "adt" and el["def"] in ("core::mem::ManuallyDrop", "core::mem::MaybeUninit")):
                continue
            inner = adt_args(el)[0]
            src = [c for c in irs if tstr(adt_args(c.targs[0])[0]) == tstr(inner) and c.ret is not None and f.args and c.ret[0] == "P" and f.args[0][0] == "P" and c.ret[1] == f.args[0][1]]
            if not src or not has_generic(inner):
                continue
            n += 1
            nodrop = any(x[0] == "b" and x[1][0] == "needs_drop" and x[2] is False and x[1][1] == tstr(inner) for x in f.facts)
            later = sorted({c.fn for c in a.calls if c is not f and cl.classify(c, b) == "foreign" and (c.bb == f.bb or a.reaches(f.bb, c.bb)) and not a.blocks[c.bb]["cleanup"]})
            ok = nodrop or not later
            ctx.ob(rule, "%s#suppress#%d" % (b["key"], n), ok, "Box<GenericArray<%s, N>> re-typed in place as elements of %s (destructors suppressed); calls that can run caller code afterwards: %s; reached only under needs_drop::<%s>() == false: %s" % (
                tstr(inner), el["def"].split("::")[-1], later or "none", tstr(inner), nodrop), at=f.at or b["at"], cfg=cfg, frozen=False)
    ctx.ob(rule, "sweep (%s)" % cfg, PROVED, "in-place re-typings of a boxed array to drop-suppressed elements: %d" % n, cfg=cfg)
    return n


def check(ctx):
    ctx.explanation = EXPLANATION
    ctx.trusted = ["rustc drop elaboration (live locals are dropped on unwind edges; cleanup blocks and drop flags are explicit in MIR)",
                   "core: Zip::next polls its receiver first; for_each/fold/from_iter call the closure once per yielded item",
                   "values moved into a caller closure are dropped by that closure's frame"]
    ctx.assumptions = ["overflow checks on position arithmetic are not foreign code (positions are bounded by N)",
                       "a panic while dropping the caller's closure object F itself is outside the property's quantifier"]
    cfgs = ["F0", "F1", "F1N"] if ctx.tier == "quick" else ["F0", "F1", "F1N", "F2", "F0N", "F2N"]
    ctx.need(*cfgs)
    for cfg in cfgs:
        verify_models(ctx, cfg)
        n = check_closures(ctx, cfg)
        ctx.floor("C04.P", "element-moving closures (%s)" % cfg, n, 1)
        w = check_raw_writes(ctx, cfg)
        if not cfg.startswith("F0"):
            check_suppressed_elements(ctx, cfg)
        ctx.floor("C04.W", "raw element write sites outside closures (%s)" % cfg, w, 1)
        fw = check_finish_window(ctx, cfg)
        ctx.floor("C04.F", "finish-to-assume_init windows (%s)" % cfg, fw, 1)
        # raw reads outside protocol closures / loops (a hand-written index loop in a method of an owner): the duplicate must be disowned
        # before the caller's code can run (shared rule, stated in c05)
        from . import c05
        c05.check_duplicate_window(ctx, cfg, rule="C04.Y")
        # the premise of every liveness obligation above: what a guard releases when it is dropped on an unwind path is exactly the range its
        # cursors describe (C05.R, shared) - a guard whose Drop releases less leaks the partial output, one that releases more drops twice
        c05.check_drop_ranges(ctx, cfg)
        check_local_duplicates(ctx, cfg)
        l = check_extend_callers(ctx, cfg)
        ctx.floor("C04.L", "owner-liveness obligations at foreign calls (%s)" % cfg, l, 1)
