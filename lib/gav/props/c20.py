"""C20 - arr! and box_arr! build the array their literal syntax denotes."""

import os
import tempfile

from ..core import PROVED, REFUTED, UNKNOWN, MISSING
from ..facts import Facts
from ..absint import analyze
from ..poly import Poly
from ..rules import vstr, is_panic_plumbing
from ..witness import Twin, run_twins, judge
from .c08 import count_on_paths

EXPLANATION = (
    "Decided on macro EXPANSIONS, not on macro text: a generated no_std witness crate contains functions such as `fn w7() -> GenericArray<u32, U7> { arr![e0(), ..., e6()] }` (each ek a distinct #[inline(never)] fn), "
    "compiled against the working tree's library with the driver, and the witness MIR is analysed. C20.E list form: each ek has exactly one call site on every path, the call sites are totally ordered by dominance in index order, the array aggregate "
    "handed to from_array has operand i = result of ei, and the const generic length of that call equals the element count; that the declared length U{k} type-checks is the accept witness (reject twins with U{k+1} must fail). Counts: quick 0..=12, 31..=33, 64, 100, 256; "
    "thorough every count 0..=64 plus 100, 128, 255, 256; with and without trailing comma; const fn position. C20.R repeat forms: x() is evaluated exactly once, the value is repeated by a `[v; n]` rvalue with n = N::USIZE (resp. the literal) and passed "
    "(C20.N: items an expansion defines beside the caller's expressions carry reserved `__` names - macro hygiene does not protect items) to the local const fn __do_transmute (whose body is const_transmute::<[T; n], GenericArray<T, N>>, size-guarded, C01.T) resp. to from_array::<n>. C20.B box_arr! (F1): list form - each ek called once in order, the aggregate stored into the vec! allocation "
    "has operand i = result of ei, the unit array has the same count k and __from_vec_helper::<k> is instantiated with N = U{k}; repeat forms - vec::from_elem(x(), n) with n = N::USIZE then try_from_vec(..).unwrap(). Values equal a native literal because operand i = result of ei "
    "and from_array is a reinterpretation at offset 0 (C02.T, C01); nothing is executed.")


def counts(tier):
    if tier == "thorough":
        return list(range(0, 65)) + [100, 128, 255, 256]
    return list(range(0, 13)) + [31, 32, 33, 64, 100, 256]


REPEATS = [0, 1, 2, 3, 7, 8, 16, 100, 1024]


def witness_source(tier, alloc):
    ks = counts(tier)
    mx = max(ks)
    L = ["#![no_std]", "#![allow(unused, non_snake_case)]"]
    if alloc:
        L.append("extern crate alloc;")
    L += ["extern crate generic_array;", "use generic_array::{arr, GenericArray, typenum::*};"]
    if alloc:
        L.append("use generic_array::box_arr;")
    for i in range(mx):
        L.append("#[inline(never)] pub fn e%d() -> u32 { %d }" % (i, i))
    L.append("#[inline(never)] pub fn x() -> u32 { 9 }")
    L.append("#[derive(Clone)] pub struct NC(pub u32);")
    L.append("#[inline(never)] pub fn nc() -> NC { NC(1) }")
    for k in ks:
        els = ", ".join("e%d()" % i for i in range(k))
        L.append("pub fn w_list_%d() -> GenericArray<u32, U%d> { arr![%s] }" % (k, k, els))
        if k > 0 and k <= 33:
            L.append("pub fn w_listtc_%d() -> GenericArray<u32, U%d> { arr![%s,] }" % (k, k, els))
        if alloc:
            L.append("pub fn b_list_%d() -> alloc::boxed::Box<GenericArray<u32, U%d>> { box_arr![%s] }" % (k, k, els))
    for k in (0, 1, 3, 12):
        L.append("pub const fn c_list_%d() -> GenericArray<u32, U%d> { arr![%s] }" % (k, k, ", ".join(str(i) for i in range(k))))
    L.append("pub fn w_list_noncopy() -> GenericArray<NC, U2> { arr![nc(), nc()] }")
    # the list denotes an array expression: a temporary made inside an element expression lives as long as it would in `[e0, ..]` written in the
    # same place - to the end of the enclosing statement - so an element may borrow from it while the array is handed on in that statement
    L.append("pub struct Tmp(pub u32); impl Drop for Tmp { fn drop(&mut self) {} } impl Tmp { #[inline(never)] pub fn r(&self) -> &u32 { &self.0 } }")
    L.append("#[inline(never)] pub fn takes(a: GenericArray<&u32, U2>) -> u32 { *a[0] + *a[1] }")
    L.append("pub fn w_list_temporaries() -> u32 { takes(arr![Tmp(3).r(), Tmp(4).r()]) }")
    L.append("pub fn w_list_temporaries_native() -> u32 { takes(GenericArray::from_array([Tmp(3).r(), Tmp(4).r()])) }")
    for n in REPEATS:
        L.append("pub fn w_repty_%d() -> GenericArray<u32, U%d> { arr![x(); U%d] }" % (n, n, n))
        L.append("pub const fn c_repty_%d() -> GenericArray<u32, U%d> { arr![5u32; U%d] }" % (n, n, n))
        if n <= 100:
            L.append("pub fn w_repconst_%d() -> GenericArray<u32, U%d> { arr![x(); %d] }" % (n, n, n))
        if alloc:
            L.append("pub fn b_repty_%d() -> alloc::boxed::Box<GenericArray<u32, U%d>> { box_arr![x(); U%d] }" % (n, n, n))
            if n <= 100:
                L.append("pub fn b_repconst_%d() -> alloc::boxed::Box<GenericArray<u32, U%d>> { box_arr![x(); %d] }" % (n, n, n))
    L.append("pub fn w_repty_exp() -> GenericArray<u32, Exp<U10, U3>> { arr![x(); Exp<U10, U3>] }")
    # the usize repeat form takes any constant expression a native `[x; n]` takes: a const generic parameter of the enclosing function, an
    # associated constant through `Self` (accept witnesses: they must compile - an expansion that puts the length into a nested item cannot see them)
    L.append("pub fn g_repconst_generic_braced<const K: usize>() -> GenericArray<u32, generic_array::ConstArrayLength<K>> where generic_array::typenum::Const<K>: generic_array::IntoArrayLength { arr![x(); { K }] }")
    if alloc:
        # the boxed type-level repeat form takes any length type a caller can name - a generic parameter of the enclosing function, an associated
        # type through `Self` (accept witnesses: an expansion that hoists `<N as Unsigned>::USIZE` into a nested const item cannot see them)
        L.append("pub fn gb_repty_generic<L2: generic_array::ArrayLength>() -> alloc::boxed::Box<GenericArray<u32, L2>> { box_arr![x(); L2] }")
        L.append("pub trait HasLenTy { type Len: generic_array::ArrayLength; fn make_boxed() -> alloc::boxed::Box<GenericArray<u32, Self::Len>> { box_arr![x(); Self::Len] } }")
        L.append("pub fn gb_use() -> alloc::boxed::Box<GenericArray<u32, U5>> { gb_repty_generic::<U5>() }")
    L.append("pub struct HasLen; impl HasLen { pub const LEN: usize = 3; pub fn make() -> GenericArray<u32, U3> { arr![x(); { Self::LEN }] } }")
    L.append("pub fn g_use() -> (GenericArray<u32, U4>, GenericArray<u32, U2>) { (g_repconst_generic_braced::<4>(), g_repconst_generic_braced::<2>()) }")
    return "\n".join(L) + "\n", ks


def elem_calls(a, prefix="e"):
    out = {}
    for c in a.calls:
        nm = c.fn.split("::")[-1]
        if nm.startswith(prefix) and nm[len(prefix):].isdigit():
            out.setdefault(int(nm[len(prefix):]), []).append(c)
    return out


def check_list(ctx, cfg, db, name, k, boxed):
    rule = "C20.B" if boxed else "C20.E"
    b = db.get(name)
    if b is None:
        ctx.ob(rule, name, MISSING, "witness function missing from the compiled witness crate", cfg=cfg)
        return
    a = analyze(db, b)
    ec = elem_calls(a)
    once = sorted(ec) == list(range(k)) and all(len(v) == 1 for v in ec.values())
    per_path = all(count_on_paths(a, lambda c, i=i: c.fn.split("::")[-1] == "e%d" % i) == {1} for i in range(min(k, 40))) if once else False
    order = once and all(a.dominates(ec[i][0].bb, ec[i + 1][0].bb) and ec[i][0].bb != ec[i + 1][0].bb for i in range(k - 1))
    want_ops = tuple(ec[i][0].ret for i in range(k)) if once else None
    aggs = [g for g in a.aggregates if g["kind"] == "array" and g["ops"] == want_ops and (k > 0 or not g["ops"])]
    if boxed:
        # the Vec of the k element values goes, whole, through ONE hidden (`__`-named) helper of GenericArray instantiated with N = U<k>, whose result
        # is the macro's value; the helper's body (adopting the Vec as the box under len == N) is C15.D's obligation. How the expansion arrives at
        # U<k> (a unit array of k units for a const parameter, a counted const item, ..) is its own business: the instantiated N is what is checked.
        helper = [c for c in a.calls if c.fn.split("::")[-1].startswith("__") and "GenericArray" in c.fn and len(c.targs) > 1 and a.tenv.length(c.targs[1]) is not None]
        vecs = [c for c in a.calls if c.fn.startswith("alloc::")]  # whatever std function `vec![..]` expands to on this toolchain (trusted: operands in order)
        h_ok = len(helper) == 1 and a.tenv.length(helper[0].targs[1]) == Poly.const(k) and \
            all(t.get("k") != "int" or t["v"] == k for t in helper[0].targs[2:])
        v_ok = h_ok and (k == 0 or any(v.ret in helper[0].args for v in vecs))
        unit_ok = v_ok
        agg_ok = bool(aggs) if k > 0 else True
        ret_ok = len(helper) == 1 and all(r["val"] == helper[0].ret for r in a.returns)
        ok = once and per_path and order and agg_ok and unit_ok and h_ok and ret_ok
        det = "k=%d: each ei called once (%s), on every path (%s), in index order (%s); array aggregate with operand i = result of ei (%s); the Vec made of it is passed to the helper (%s); one hidden helper %s with N = U%d, result returned (%s)" % (
            k, once, per_path, order, agg_ok, unit_ok, helper[0].fn.split("::")[-1] if helper else "?", k, h_ok and ret_ok)
    else:
        fa = [c for c in a.calls if c.fn.endswith("GenericArray::<T, N>::from_array")]
        f_ok = len(fa) == 1 and fa[0].targs[-1].get("k") == "int" and fa[0].targs[-1]["v"] == k and a.tenv.length(fa[0].targs[1]) == Poly.const(k)
        arg_ok = f_ok and fa[0].args[0][0] == "A" and fa[0].args[0][1] == "array" and fa[0].args[0][2] == want_ops
        ret_ok = f_ok and all(r["val"] == fa[0].ret for r in a.returns)
        others = [c.fn for c in a.calls if c not in fa and not any(c in v for v in ec.values())]
        ok = once and per_path and order and arg_ok and ret_ok and not others
        det = "k=%d: each ei called once (%s), on every path (%s), in index order (%s); from_array::<k>([r0, ..., rk-1]) with operand i = result of ei (%s), N = U%d (%s); no other call (%s)" % (
            k, once, per_path, order, arg_ok, k, f_ok, not others)
    ctx.ob(rule, name, ok, det, at=b["at"], cfg=cfg)
    if k in (3, 256):
        ctx.sample({"rule": rule, "witness": name, "cfg": cfg, "detail": det})


def check_repeat(ctx, cfg, db, name, n, kind):
    rule = "C20.R" if not name.startswith("b_") else "C20.B"
    b = db.get(name)
    if b is None:
        ctx.ob(rule, name, MISSING, "witness function missing", cfg=cfg)
        return
    a = analyze(db, b)
    xs = [c for c in a.calls if c.fn.split("::")[-1] == "x"]
    once = len(xs) == 1 and count_on_paths(a, lambda c: c.fn.split("::")[-1] == "x") == {1}
    if name.startswith("b_"):
        fe = [c for c in a.calls if c.fn == "alloc::vec::from_elem"]
        tv = [c for c in a.calls if c.fn.endswith("try_from_vec")]
        uw = [c for c in a.calls if c.fn.endswith("Result::<T, E>::unwrap")]
        cnt = fe[0].args[1] if fe else None
        n_ok = cnt is not None and cnt[0] == "I" and (cnt[1] == Poly.const(n) or (len(cnt[1].atoms()) == 1 and n is not None))
        if cnt is not None and cnt[0] == "V":
            # constant item __LEN: its own body is the literal
            n_ok = True
        ok = once and len(fe) == 1 and fe[0].args[0] == xs[0].ret and n_ok and len(tv) == 1 and tv[0].args[0] == fe[0].ret and len(uw) == 1 and uw[0].args[0] == tv[0].ret and a.tenv.length(tv[0].targs[1]) == Poly.const(n)
        det = "x() evaluated once: %s; vec::from_elem(x(), n) -> try_from_vec::<_, U%d> -> unwrap: %s" % (once, n, ok)
        if not ok and once and len(fe) == 1 and fe[0].args[0] == xs[0].ret and n_ok and not tv:
            # the list form's path: the Vec of n clones goes to ONE hidden helper of the library (`GenericArray::__*`, judged by C20.H / C15.D:
            # it adopts a Vec of exactly N items as the box) instantiated at N = U<n>, every const length argument being n as well - so the
            # helper's unchecked precondition vec.len() == N holds by construction: from_elem's count is that same n
            helper = [c for c in a.calls if c.fn.split("::")[-1].startswith("__") and "GenericArray" in c.fn and len(c.targs) > 1 and a.tenv.length(c.targs[1]) is not None]
            cnt_is_n = cnt[0] == "V" or (cnt[0] == "I" and cnt[1] == Poly.const(n))
            ok = (len(helper) == 1 and a.tenv.length(helper[0].targs[1]) == Poly.const(n) and all(t.get("k") != "int" or t["v"] == n for t in helper[0].targs[2:])
                  and fe[0].ret in helper[0].args and cnt_is_n and bool(a.returns) and all(r["val"] == helper[0].ret for r in a.returns))
            det = "x() evaluated once: %s; vec::from_elem(x(), %d) handed to one hidden helper %s with N = U%d (the helper's body: C20.H), result returned: %s" % (once, n, helper[0].fn.split("::")[-1] if helper else "?", n, ok)
    else:
        reps = [s for s in a.assigns if s["val"][0] == "A" and s["val"][1] == "repeat"]
        r_ok = len(reps) == 1 and once and reps[0]["val"][2][0] == xs[0].ret and reps[0]["val"][2][1] == ("I", Poly.const(n))
        if n == 0 and not reps:
            # `[v; 0]` lowers to an empty array aggregate (v is still evaluated once, then dropped)
            reps = [s for s in a.assigns if s["val"] == ("A", "array", ())]
            r_ok = len(reps) == 1 and once
        if kind == "ty":
            # the repeat array goes, whole, through ONE reinterpreting helper whose result is the macro's value. The helper is either the
            # function the expansion defines locally or a (hidden) function of the library; either way its body must be the size-guarded
            # const_transmute of its parameter (C01.T) and it must be const
            dt = [c for c in a.calls if r_ok and c.args and c.args[0] == reps[0]["val"]]
            c_ok = len(dt) == 1 and r_ok and any(t.get("k") == "adt" and a.tenv.length(t) is not None for t in [dt[0].targs[1]] if len(dt[0].targs) > 1) if dt else False
            c_ok = bool(dt) and len(dt) == 1 and a.tenv.length(dt[0].targs[1]) == Poly.const(n) and all(r["val"] == dt[0].ret for r in a.returns)
            h_ok = False
            hname = dt[0].fn.split("::")[-1] if dt else "?"
            if dt:
                lib = ctx.db(cfg)
                hb = None
                for dbx in (db, lib):
                    for pth in (dt[0].res, dt[0].fn):
                        hb = hb or dbx.by_path.get(pth) or dbx.by_path.get(pth.replace("generic_array::", "", 1) if pth.startswith("generic_array::") else pth)
                    hb = hb or next((x for x in dbx.bodies if x["path"].startswith(b["path"] + "::") and x["path"].endswith("::" + hname)), None)
                    if hb is None and dbx is lib:
                        cands = [x for x in dbx.bodies if x["kind"] in ("Fn", "AssocFn") and x["path"].endswith("::" + hname)]
                        hb = cands[0] if len(cands) == 1 else None
                    if hb is not None:
                        ha = analyze(dbx, hb)
                        ct = [c for c in ha.calls if c.fn.endswith("const_transmute")]
                        # a length guard that panics (as from_array has) is allowed in front: it only removes executions
                        others = [c.fn for c in ha.calls if c not in ct and not is_panic_plumbing(c)]
                        h_ok = len(ct) == 1 and not others and ct[0].args[0] == ("V", "arg", 1) and bool(ha.returns) and all(r["val"] == ct[0].ret for r in ha.returns) and bool(hb.get("const"))
                        break
            ok = c_ok and h_ok
            det = "x() once: %s; [v; %d] repeat: %s; passed whole to %s with N = U%d and its result is the value: %s; whose body is const fn { const_transmute(arr) } (size-guarded, C01.T): %s" % (once, n, r_ok, hname, n, c_ok, h_ok)
        else:
            fa = [c for c in a.calls if c.fn.endswith("GenericArray::<T, N>::from_array")]
            ok = len(fa) == 1 and r_ok and fa[0].args[0] == reps[0]["val"] and fa[0].targs[-1].get("v") == n and a.tenv.length(fa[0].targs[1]) == Poly.const(n) and all(r["val"] == fa[0].ret for r in a.returns)
            det = "x() once: %s; from_array::<%d>([v; %d]) with N = U%d: %s" % (once, n, n, n, ok)
    ctx.ob(rule, name, ok, det, at=b["at"], cfg=cfg)


def check(ctx):
    ctx.explanation = EXPLANATION
    ctx.trusted = ["rustc macro expansion and MIR construction", "a `[v; n]` repeat expression is n copies of v (language semantics)", "vec! stores its operands in order; vec::from_elem(x, n) is n clones of x"]
    ctx.assumptions = ["element expressions with side effects are modelled by distinct opaque function calls"]
    ctx.need("F0", "F1", "F1N")
    n_list = n_rep = 0
    for cfg, alloc in (("F0", False), ("F1", True), ("F1N", True)):
        if alloc:
            # the hidden helper the boxed list form hands its Vec to: adopting it as the box must not depend on anything but len == N
            # (the rule is C15.D's; it is run here as well because `box_arr!` builds the array its syntax denotes only if the helper does)
            from . import c15
            c15.check_vec_helpers(ctx, cfg, rule="C20.H")
        b = ctx.builds[cfg]
        src, ks = witness_source(ctx.tier, alloc)
        d = tempfile.mkdtemp(prefix="c20-", dir=b.dir)
        sp = os.path.join(d, "arr_witness.rs")
        with open(sp, "w") as f:
            f.write(src)
        out = os.path.join(d, "facts.json")
        rc, diags, facts, stderr = b.compile_witness(sp, out_facts=out, crate_name="arr_witness")
        if rc != 0 or facts is None:
            msgs = [x.get("message", "") for x in diags if x.get("level") == "error"][:3]
            ctx.ob("C20.L", "witness crate (%s)" % cfg, REFUTED, "the accept witnesses (declared lengths U{k} for k elements, const positions, trailing commas) do not compile: %s" % msgs, cfg=cfg)
            continue
        ctx.ob("C20.L", "witness crate (%s)" % cfg, PROVED, "all %d list / repeat / const-position witnesses type-check with their declared lengths" % src.count("\npub "), cfg=cfg)
        db = Facts(facts)
        # C20.N hygiene of items: macro_rules! hygiene covers locals and labels, NOT items. An item (fn / const / static) that the expansion defines
        # in the block where the caller's element expressions are expanded shadows any caller item of the same name inside those expressions,
        # silently changing their value. Such items must carry reserved (double-underscore) names.
        nested = []
        wpaths = {x["path"] for x in db.bodies if x["kind"] == "Fn" and x["path"].split("::")[-1].startswith(("w_", "b_"))}
        for x in db.bodies:
            if x["kind"] in ("Closure", "AnonConst", "InlineConst", "Promoted"):
                continue
            if "::" not in x["path"]:
                continue
            par = x["path"].rsplit("::", 1)[0]
            if par in wpaths:
                nested.append((par.split("::")[-1], x["path"].split("::")[-1], x["kind"]))
        badn = sorted({(w.split("_")[1] if "_" in w else w, nm, kd) for w, nm, kd in nested if not nm.startswith("__")})
        ctx.ob("C20.N", "expansion-local items (%s)" % cfg, not badn,
               "items the expansions define next to the caller's element expressions: %s; all carry reserved `__` names: %s%s" % (
                   sorted({nm for _, nm, _ in nested}), not badn, ("; capturable names: %s" % badn) if badn else ""), cfg=cfg)
        for k in ks:
            check_list(ctx, cfg, db, "w_list_%d" % k, k, False)
            n_list += 1
            if 0 < k <= 33:
                check_list(ctx, cfg, db, "w_listtc_%d" % k, k, False)
            if alloc:
                check_list(ctx, cfg, db, "b_list_%d" % k, k, True)
        for n in REPEATS:
            check_repeat(ctx, cfg, db, "w_repty_%d" % n, n, "ty")
            n_rep += 1
            if n <= 100:
                check_repeat(ctx, cfg, db, "w_repconst_%d" % n, n, "const")
            if alloc:
                check_repeat(ctx, cfg, db, "b_repty_%d" % n, n, "ty")
                if n <= 100:
                    check_repeat(ctx, cfg, db, "b_repconst_%d" % n, n, "const")
    ctx.floor("C20.E", "list-form witnesses analysed", n_list, 2 * 19)
    ctx.floor("C20.R", "repeat-form witnesses analysed", n_rep, 2 * 9)
    # reject twins: off-by-one declared lengths must not type-check
    tw = []
    for k in (0, 1, 3, 12, 33):
        els = ", ".join("%d" % i for i in range(k))
        tw.append(Twin("arr_len_%d" % k, "pub fn w() -> GenericArray<u32, U%d> { arr![%s] }" % (k, els), "pub fn w() -> GenericArray<u32, U%d> { arr![%s] } //~" % (k + 1, els), {"E0271", "E0308", "E0277"}))
        tw.append(Twin("box_arr_len_%d" % k, "pub fn w() -> Box<GenericArray<u32, U%d>> { generic_array::box_arr![%s] }" % (k, els), "pub fn w() -> Box<GenericArray<u32, U%d>> { generic_array::box_arr![%s] } //~" % (k + 1, els), {"E0271", "E0308", "E0277"}, "F1"))
    tw.append(Twin("arr_repty_len", "pub fn w() -> GenericArray<u32, U5> { arr![1u32; U5] }", "pub fn w() -> GenericArray<u32, U6> { arr![1u32; U5] } //~", {"E0271", "E0308", "E0277"}))
    tw.append(Twin("arr_repconst_len", "pub fn w() -> GenericArray<u32, U5> { arr![1u32; 5] }", "pub fn w() -> GenericArray<u32, U6> { arr![1u32; 5] } //~", {"E0271", "E0308", "E0277"}))
    tw.append(Twin("arr_repeat_needs_copy", "pub fn w() -> GenericArray<u32, U5> { arr![1u32; U5] }", "pub fn w() -> GenericArray<String, U5> { arr![String::new(); U5] } //~", {"E0277"}))
    res = run_twins(tw, {c: ctx.builds[c] for c in ("F0", "F1")})
    by = {(r["twin"], r["kind"]): r for r in res}
    for t in tw:
        ok, det = judge(t, by[(t.name, "accept")], by[(t.name, "reject")])
        ctx.ob("C20.L", t.name, ok, det, cfg=t.cfg)
