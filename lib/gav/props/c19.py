"""C19 - zeroize and const-default reach every one of the N elements."""

from ..core import PROVED, REFUTED, UNKNOWN, MISSING
from ..rules import check_views, payload_calls, is_full_view, vstr, self_len, visits_all
from ..tys import tstr
from ..poly import Poly
from ..ownership import find_in
from . import c01

EXPLANATION = (
    "Static analysis under config F1 (F2 in thorough). C19.Z zeroize: the body takes the full N-element view of self (as_mut_slice / deref_mut, proved full by C02.V) and hands every element to Zeroize::zeroize through one of four recognised "
    "complete traversals: <IterMut<T> as Zeroize>::zeroize on the unadapted iterator, <[T] as Zeroize>::zeroize on the view, for_each with a closure that zeroizes its argument on every path, or a next() loop whose every Some edge "
    "zeroizes the yielded element and which returns only on None: no skip/take/step_by/zip/rev, no sub-slicing or splitting. C19.D const default, by parametricity: each of the three DEFAULT constants is safe code whose body is one struct "
    "aggregate initialising all fields (rustc enforces all-fields), every child-typed operand is the constant <U as ConstDefault>::DEFAULT, the trailing element of the odd node is <T as ConstDefault>::DEFAULT, the wrapper's storage is "
    "<N::ArrayType<T> as ConstDefault>::DEFAULT, and the bodies contain no call, transmute, zeroed or MaybeUninit; together with C01.S (a node is exactly two children plus `parity` trailing elements; base [T; 0]) every one of the N slots is "
    "T::DEFAULT for every binary digit pattern of N - the induction no finite test covers; const_default() returns Self::DEFAULT. Agreement with Default::default() depends on the element type's two defaults and is outside the claim.")

K_Z = "<GenericArray<$0,$1> as zeroize::Zeroize>::zeroize"
CD = "const_default::ConstDefault::DEFAULT"


def dconst(tyname):
    return ("V", "const", CD, (tyname,))


def check_zeroize(ctx, cfg, rule="C19.Z"):
    """zeroize hands exactly the N elements of self - every one, and nothing beyond them - to the element type's Zeroize."""
    b = ctx.body(cfg, K_Z, rule)
    if b is None:
        return
    a = ctx.analysis(cfg, K_Z)
    N = self_len(a)
    ok, det = visits_all(ctx, cfg, a, ("arg", 1), N, "zeroize::Zeroize::zeroize", "<core::slice::IterMut<", "<[")
    if not ok:
        # the view cut into pieces (split halves, chunks, a recursive helper): every return path's zeroize events tile the view exactly
        from ..coverage import Coverage
        cov = Coverage(ctx, cfg, "zeroize::Zeroize::zeroize", "<core::slice::IterMut<", "<[")
        T_ = [x for x in b["impl_self"]["args"] if x.get("k") != "region"][0]
        at_ = ctx.analysis_inl(cfg, K_Z, split=True, tag="cover")
        ok2, det2 = cov.view_covered(at_, ("arg", 1), Poly.const(0), N, at_.tenv.size(T_), ())
        if ok2:
            ok, det = True, "the N-element view is cut into pieces and every piece is zeroized element-wise: " + det2 + ("; " + "; ".join(cov.notes) if cov.notes else "")
        else:
            det = det + " | as a partition: " + det2
    ctx.ob(rule, K_Z, ok, det, at=b["at"], cfg=cfg)


def check(ctx):
    ctx.explanation = EXPLANATION
    ctx.trusted = ["zeroize: <IterMut<'_, Z> as Zeroize>::zeroize zeroizes every yielded element", "const-default: [T; 0]: ConstDefault; rustc requires every field in a struct expression"]
    ctx.assumptions = ["equality of T::DEFAULT and T::default() is a fact about the element type", "the zeroized value of an element is whatever T::zeroize leaves"]
    cfgs = ["F1", "F1N"] if ctx.tier == "quick" else ["F1", "F1N", "F2", "F2N"]
    ctx.need(*cfgs)
    for cfg in cfgs:
        db = ctx.db(cfg)
        check_views(ctx, cfg)
        check_zeroize(ctx, cfg)
        # ---- "and equals Default::default() where both exist": the run-time default is N copies of T::default() as well - Default is
        # generate(|_| T::default()) (or the collecting equivalent) and generate stores f(i) in slot i for every i (C08's rules, run here) - so the
        # two agree exactly when the element's two defaults do (an assumption about the element type)
        from . import c08
        c08.check_default_clone(ctx, cfg, rule="C19.E", only_default=True)
        c08.check_generate(ctx, cfg, c08.GS + "generate", False, rule="C19.E")
        # ---- const default
        c01.check_structure(ctx, cfg)
        # the node impls are found through the storage types the two recursive ArrayLength impls name (C01.S decides that these, as instantiated, are two
        # children and `parity` trailing elements): the ConstDefault impl that applies to each, and in its DEFAULT every field other than a marker is
        # <the field's own type as ConstDefault>::DEFAULT - a child gets the child's constant, an element T's, whatever the parameters are called
        from ..tys import unify, subst, tstr, adt_args
        nodes = c01.storage_nodes(db)
        cd_impls = [i for i in db.impls if i.get("trait") == "const_default::ConstDefault" and i["self"].get("k") == "adt"]
        seen_keys = set()
        for bit, parity in (("typenum::B0", 0), ("typenum::B1", 1)):
            if bit not in nodes:
                ctx.ob("C19.D", "node#%d" % parity, MISSING, "no storage node for parity %d among the ArrayLength impls" % parity, cfg=cfg)
                continue
            aty = nodes[bit][0]
            hits = [i for i in cd_impls if unify(i["self"], aty, {})]
            if len(hits) != 1:
                ctx.ob("C19.D", "node#%d#%s" % (parity, aty["def"]), MISSING, "%d ConstDefault impls apply to the storage node %s (expected exactly one)" % (len(hits), tstr(aty)), cfg=cfg)
                continue
            imp = hits[0]
            key = db.impl_key(imp) + "::DEFAULT"
            if key in seen_keys:
                continue   # one impl serving both parities is checked once: the rule below is about its fields, not about the parity
            seen_keys.add(key)
            b = ctx.body(cfg, key, "C19.D")
            if b is None:
                continue
            a = ctx.analysis(cfg, key)
            adtname = imp["self"]["def"]
            adt = db.adts.get(adtname)
            sub = {g["n"]: x for g, x in zip([g for g in adt["generics"] if g["kind"] in ("type", "const")], adt_args(imp["self"]))}
            rets = [r["val"] for r in a.returns]
            ok = bool(rets) and not a.calls and not a.casts
            got = {"own": 0, "marker": 0, "other": []}
            if ok:
                v = rets[0]
                ok = v[0] == "A" and v[1] == ("adt", adtname, 0) and len(v[2]) == len(adt["fields"])
                if ok:
                    for f, op in zip(adt["fields"], v[2]):
                        ft = subst(f["ty"], sub)
                        if ft.get("k") == "adt" and ft["def"] == "core::marker::PhantomData":
                            got["marker"] += 1  # a zero-sized marker has exactly one value, however the expression for it is spelled
                        elif op == dconst(tstr(ft)):
                            got["own"] += 1
                        else:
                            got["other"].append(f["name"])
            ctx.ob("C19.D", key, ok and not got["other"], "aggregate of %s: %d fields = <their own type as ConstDefault>::DEFAULT, %d markers, fields initialised otherwise: %s; no call / cast in the body: %s" % (
                adtname, got["own"], got["marker"], got["other"], not a.calls and not a.casts), at=b["at"], cfg=cfg)
        key = "<GenericArray<$0,$1> as const_default::ConstDefault>::DEFAULT"
        b = ctx.body(cfg, key, "C19.D")
        if b is not None:
            a = ctx.analysis(cfg, key)
            rets = [r["val"] for r in a.returns]
            ok = bool(rets) and not a.calls and not a.casts and rets[0][0] == "A" and rets[0][1] == ("adt", "GenericArray", 0) and len(rets[0][2]) == 1
            if ok:
                op = rets[0][2][0]
                ok = op[0] == "V" and op[1] == "const" and op[2] == CD and "ArrayLength::ArrayType" in op[3][0]
            # the impl is bounded by the storage being ConstDefault
            imp = [i for i in db.impls if i.get("trait") == "const_default::ConstDefault" and i["self"].get("k") == "adt" and i["self"]["def"] == "GenericArray"]
            bound = len(imp) == 1 and any(p.get("k") == "trait" and p["trait"] == "const_default::ConstDefault" and p["self"].get("k") == "alias" for p in imp[0]["predicates"])
            ctx.ob("C19.D", key, ok and bound, "wrapper DEFAULT = { data: <N::ArrayType<T> as ConstDefault>::DEFAULT }: %s; impl requires the storage to be ConstDefault: %s" % (ok, bound), at=b["at"], cfg=cfg)
        key = "GenericArray<$0,$1>::const_default"
        b = ctx.body(cfg, key, "C19.D")
        if b is not None:
            a = ctx.analysis(cfg, key)
            rets = [r["val"] for r in a.returns]
            ok = bool(rets) and not a.calls and all(v[0] == "V" and v[1] == "const" and v[2] == CD and v[3][0].startswith("GenericArray<") for v in rets) and b.get("const")
            ctx.ob("C19.D", key, ok, "const fn const_default() returns <Self as ConstDefault>::DEFAULT: %s" % ok, at=b["at"], cfg=cfg)
        # node ConstDefault impl bounds: every type parameter that is the type of a (non-marker) field is bounded by ConstDefault
        node_defs = {v[0]["def"] for v in nodes.values()}
        for imp in db.impls:
            if imp.get("trait") == "const_default::ConstDefault" and imp["self"].get("k") == "adt" and imp["self"]["def"] in node_defs:
                adt = db.adts.get(imp["self"]["def"])
                sub = {g["n"]: x for g, x in zip([g for g in adt["generics"] if g["kind"] in ("type", "const")], adt_args(imp["self"]))}
                need = sorted({subst(f["ty"], sub)["n"] for f in adt["fields"] if subst(f["ty"], sub).get("k") == "param"})
                have = [p["self"]["n"] for p in imp["predicates"] if p.get("k") == "trait" and p["trait"] == "const_default::ConstDefault" and p["self"].get("k") == "param"]
                ctx.ob("C19.D", db.impl_key(imp) + "#bounds", all(n in have for n in need), "ConstDefault bounds on %s: %s (needed %s)" % (imp["self_s"], have, need), at=imp["at"], cfg=cfg)
