"""C18 - the const API (PARTIAL claim: const surface, no const/run-time divergence, UB-freedom obligations by cross-reference)."""

import json
import os
import re
import tempfile

from ..core import PROVED, REFUTED, UNKNOWN, MISSING, VERIF
from ..facts import Facts
from ..witness import Twin, run_twins, judge
from . import c02, c10, c03
from ..rules import check_const_transmute, check_views

EXPLANATION = (
    "PARTIAL. Acceptance by the compiler's const evaluator on the lattice and equality of compile-time and run-time values are executions of the crate's MIR by an interpreter and are NOT decided here "
    "(a corpus of const items whose evaluation is the verdict would be a run-time test wearing a static label). Decided statically: C18.Q the const surface - each function of the frozen list is `const fn` (and exported under the internals feature for the builder types); "
    "removing a `const` compiles and passes the suite but breaks every const user, a necessary condition; each is additionally called from a `const fn` witness, which exercises rustc's const-qualification (may this be called in a const context) without evaluating anything, "
    "and arr! in its three forms is expanded inside a const fn; a reject twin calls a non-const API from a const fn. C18.D no const/run-time divergence: no body of the crate calls const_eval_select / is_const-style intrinsics, so the const evaluator and the run time execute "
    "the same MIR (checked with a positive fixture so the zero count is not vacuous). C18.U UB-freedom obligations of the raw operations inside those const fns are the instances of C02.V/G/T, C10.C/F/X, C01.T and C03.A, re-checked here: a const fn whose pointer/extent obligations hold "
    "for all N and all slice lengths gives the const evaluator nothing to reject.")

K = "GenericArray<$0,$1>::"
CONST_FNS = [K + n for n in ("len", "as_slice", "as_mut_slice", "from_slice", "try_from_slice", "from_mut_slice", "try_from_mut_slice", "chunks_from_slice", "chunks_from_slice_mut",
                            "slice_from_chunks", "slice_from_chunks_mut", "from_array", "into_array", "from_chunks", "from_chunks_mut", "into_chunks", "into_chunks_mut", "uninit", "assume_init")] + [
    "const_transmute", "ArrayBuilder<$0,$1>::new", "ArrayBuilder<$0,$1>::is_full", "ArrayBuilder<$0,$1>::assume_init",
    "IntrusiveArrayBuilder<$0,$1>::new", "IntrusiveArrayBuilder<$0,$1>::is_full", "IntrusiveArrayBuilder<$0,$1>::finish", "ArrayConsumer<$0,$1>::new"]
CONST_FNS_F1 = [K + "const_default"]

DIVERGE = ("const_eval_select", "is_val_statically_known", "const_allocate", "const_deallocate")


def const_witnesses():
    T = []

    def add(name, body, cfg="F0"):
        acc = "pub const fn w() { %s }" % body
        rej = "fn not_const() -> usize { 3 }\npub const fn w() { %s; let _ = not_const(); } //~" % body.rstrip(";")
        T.append(Twin("const_" + name, acc, rej, {"E0015"}, cfg))
    add("len", "let _ = GenericArray::<u8, U3>::len();")
    add("as_slice", "let a: A3 = arr![1, 2, 3]; let _ = a.as_slice();")
    add("as_mut_slice", "let mut a: A3 = arr![1, 2, 3]; let _ = a.as_mut_slice();")
    add("from_slice", "let s: &[u8] = &[1, 2, 3]; let _: &A3 = GenericArray::from_slice(s);")
    add("try_from_slice", "let s: &[u8] = &[1, 2, 3]; let _ = GenericArray::<u8, U3>::try_from_slice(s);")
    add("from_mut_slice", "let mut x = [1u8, 2, 3]; let _: &mut A3 = GenericArray::from_mut_slice(&mut x);")
    add("try_from_mut_slice", "let mut x = [1u8, 2, 3]; let _ = GenericArray::<u8, U3>::try_from_mut_slice(&mut x);")
    add("chunks_from_slice", "let s: &[u8] = &[0; 7]; let _ = GenericArray::<u8, U3>::chunks_from_slice(s);")
    add("chunks_from_slice_mut", "let mut x = [0u8; 7]; let _ = GenericArray::<u8, U3>::chunks_from_slice_mut(&mut x);")
    add("slice_from_chunks", "let c = [arr![1u8, 2, 3]]; let _ = GenericArray::slice_from_chunks(&c);")
    add("slice_from_chunks_mut", "let mut c = [arr![1u8, 2, 3]]; let _ = GenericArray::slice_from_chunks_mut(&mut c);")
    add("from_array", "let _: A3 = GenericArray::from_array([1, 2, 3]);")
    add("into_array", "let a: A3 = arr![1, 2, 3]; let _: [u8; 3] = a.into_array();")
    add("from_chunks", "let c = [[1u8, 2, 3]]; let _: &[A3] = GenericArray::from_chunks(&c);")
    add("from_chunks_mut", "let mut c = [[1u8, 2, 3]]; let _: &mut [A3] = GenericArray::from_chunks_mut(&mut c);")
    add("into_chunks", "let c = [arr![1u8, 2, 3]]; let _: &[[u8; 3]] = GenericArray::into_chunks(&c);")
    add("into_chunks_mut", "let mut c = [arr![1u8, 2, 3]]; let _: &mut [[u8; 3]] = GenericArray::into_chunks_mut(&mut c);")
    add("uninit_assume_init", "let a = GenericArray::<u8, U3>::uninit(); let _ = unsafe { core::mem::ManuallyDrop::new(GenericArray::assume_init(a)) };")
    add("arr_list", "let _: A3 = arr![1, 2, 3];")
    add("arr_repeat_ty", "let _: A3 = arr![7u8; U3];")
    add("arr_repeat_const", "let _: A3 = arr![7u8; 3];")
    add("arr_empty", "let _: GenericArray<u8, U0> = arr![];")
    add("const_default", "let _: A3 = GenericArray::const_default();", "F1")
    add("builders", "let mut arr = GenericArray::<u8, U3>::uninit(); let b = generic_array::internals::IntrusiveArrayBuilder::new(&mut arr); let _ = b.is_full(); unsafe { b.finish() };", "F1")
    add("array_builder", "let b = generic_array::internals::ArrayBuilder::<u8, U3>::new(); let _ = b.is_full(); let _ = core::mem::ManuallyDrop::new(b);", "F1")
    add("consumer", "let c = generic_array::internals::ArrayConsumer::new(arr![1u8, 2, 3]); let _ = core::mem::ManuallyDrop::new(c);", "F1")
    return T


def divergence_sites(db):
    out = []
    for b in db.bodies:
        for blk in b["mir"]["blocks"]:
            t = blk["term"]
            if t["k"] == "call" and t["f"].get("k") == "fn" and any(d in t["f"]["def"] for d in DIVERGE):
                out.append((b["key"], t["f"]["def"], t.get("at")))
    return out


def const_cost_findings(db):
    """C18.K: the work the compile-time evaluator does for a const fn of the crate must not grow with the length - the evaluator aborts an
    evaluation that runs too long (`long_running_const_eval`, an error by default), so a const fn that steps once per element is rejected
    for the large lengths of the lattice although it is accepted for small ones. Decided structurally: the MIR of every const fn (and of the
    crate functions it calls) has no cycle and the call graph among them none either; bulk work is left to single intrinsic operations
    (array repeat, transmute, copy). Returns (number of const bodies judged, findings [(key, at, what)])."""
    from ..mirxf import normal_succs
    consts = [b for b in db.bodies if b.get("const") and b["kind"] in ("Fn", "AssocFn")]
    by_key = {b["key"]: b for b in db.bodies}
    finds = []

    def has_cycle(b):
        blocks = b["mir"]["blocks"]
        color = {}
        stack = [(0, iter(normal_succs(blocks[0]["term"])))]
        color[0] = 1
        while stack:
            n, it = stack[-1]
            adv = False
            for s_ in it:
                if color.get(s_) == 1:
                    return blocks[s_]["term"].get("at") or b["at"]
                if s_ not in color:
                    color[s_] = 1
                    stack.append((s_, iter(normal_succs(blocks[s_]["term"]))))
                    adv = True
                    break
            if not adv:
                color[n] = 2
                stack.pop()
        return None

    def callees(b):
        out = []
        for blk in b["mir"]["blocks"]:
            t = blk["term"]
            if blk.get("cleanup") or t["k"] != "call" or t["f"].get("k") != "fn":
                continue
            k = db.body_key_of_call(t) if hasattr(db, "body_key_of_call") else None
            if k is None:
                r = t["f"].get("res") or t["f"]["def"]
                cand = db.by_path.get(r) or db.by_path.get(t["f"]["def"])
                k = cand["key"] if cand else None
            if k in by_key:
                out.append(k)
        return out
    # closure under calls
    reach = {}
    for b in consts:
        seen, work = {b["key"]}, [b["key"]]
        while work:
            k = work.pop()
            for c in callees(by_key[k]):
                if c == b["key"]:
                    finds.append((b["key"], b["at"], "the const fn is (mutually) recursive: its evaluation cost is not bounded independently of the length"))
                if c not in seen:
                    seen.add(c)
                    work.append(c)
        reach[b["key"]] = seen
        for k in sorted(seen):
            at = has_cycle(by_key[k])
            if at is not None:
                finds.append((b["key"], at, "a loop in %s: the compile-time evaluator executes it step by step and gives up (long_running_const_eval) for large lengths" % (
                    "the body" if k == b["key"] else "the callee " + k)))
    return len(consts), finds


def check(ctx):
    ctx.explanation = EXPLANATION
    ctx.trusted = ["the const evaluator executes the same MIR faithfully (rustc)", "rustc's const-qualification"]
    ctx.assumptions = ["NOT decided: acceptance by the const evaluator on the lattice of N and slice lengths; value agreement between const and run-time evaluation"]
    cfgs = ["F0", "F1", "F1N"] if ctx.tier == "quick" else ["F0", "F1", "F1N", "F2", "F0N", "F2N"]
    ctx.need(*cfgs)
    for cfg in cfgs:
        db = ctx.db(cfg)
        n = 0
        for key in CONST_FNS + (CONST_FNS_F1 if (not cfg.startswith("F0")) else []):
            b = ctx.body(cfg, key, "C18.Q")
            if b is None:
                continue
            is_const = bool(b.get("const"))
            vis = b["vis"]["exported"] or b["vis"]["reachable"]
            builder = not key.startswith(K) and key != "const_transmute"
            need_vis = ((not cfg.startswith("F0"))) or not builder
            ctx.ob("C18.Q", key, is_const and (vis or not need_vis), "const fn: %s; exported: %s" % (is_const, vis), at=b["at"], cfg=cfg)
            n += 1
        ctx.floor("C18.Q", "const surface (%s)" % cfg, n, 27 if cfg.startswith("F0") else 28)
        # no const fn silently lost from the surface: every const fn of the build is on the list (new ones are fine)
        div = divergence_sites(db)
        ctx.ob("C18.D", "divergence intrinsics (%s)" % cfg, not div, "calls to const_eval_select-style intrinsics in the crate: %s" % (div or "none"), cfg=cfg)
        nk, kf = const_cost_findings(db)
        for j, (key_, at_, what) in enumerate(kf):
            ctx.ob("C18.K", "%s#cost#%d" % (key_, j), REFUTED, what, at=at_, cfg=cfg)
        ctx.ob("C18.K", "const fns (%s)" % cfg, nk >= 27, "const fns whose MIR (with the crate functions they call) was searched for loops and recursion: %d; findings are listed separately" % nk, cfg=cfg)
        # C18.P: no raw access through a pointer into a local whose storage has ended (the const evaluator frees the local and rejects the access;
        # at run time it is undefined behaviour).  Sweep over every body of the crate, private helpers expanded.
        from ..dangling import dangling_uses
        n_sw = 0
        for bd in db.bodies:
            if bd["kind"] not in ("Fn", "AssocFn", "Closure") or ctx.is_helper(cfg, bd):
                continue
            if not any(s_["k"] == "sdead" for blk in bd["mir"]["blocks"] for s_ in blk["stmts"]):
                continue
            if not any(t["term"]["k"] == "call" and t["term"]["f"].get("k") == "fn" and t["term"]["f"]["def"].startswith(("core::ptr::", "core::mem::transmute_copy", "core::slice::from_raw_parts")) for t in bd["mir"]["blocks"]) \
                    and not any(s_["k"] == "assign" and s_["rv"].get("k") in ("rawptr",) for blk in bd["mir"]["blocks"] for s_ in blk["stmts"]):
                continue
            a_ = ctx.analysis(cfg, bd["key"])
            n_sw += 1
            for j, (at_, loc_, what) in enumerate(dangling_uses(a_)):
                ctx.ob("C18.P", "%s#dangling#%d" % (bd["key"], j), REFUTED, what, at=at_, cfg=cfg)
        ctx.ob("C18.P", "sweep (%s)" % cfg, n_sw >= 10, "bodies with raw pointer operations swept for accesses to storage-dead locals: %d" % n_sw, cfg=cfg)
        # C18.L: `len()` has no receiver - `GenericArray::<T, N>::len()` is promised "for every length", also for type-level lengths whose array
        # could never exist (N * size_of::<T>() beyond the object-size bound). It must therefore not make the compiler lay the array type out:
        # no size_of / align_of / Layout of a type that mentions GenericArray (or its storage) in len's body, in the crate functions it calls, or in
        # the crate-local constants it evaluates (an associated const that asserts the layout turns `len()` into an error for such lengths)
        lb = db.get(K + "len")
        if lb is not None:
            by_path = {x["path"]: x for x in db.bodies}
            seen_, work_, bad_ = set(), [lb], []
            while work_:
                bd = work_.pop()
                if bd["path"] in seen_:
                    continue
                seen_.add(bd["path"])
                for blk in bd["mir"]["blocks"]:
                    for st_ in blk["stmts"]:
                        txt_ = json.dumps(st_)
                        for m_ in re.finditer(r'"k": "uneval", "def": "([^"]+)"', txt_):
                            if m_.group(1) in by_path:
                                work_.append(by_path[m_.group(1)])
                    t_ = blk["term"]
                    if t_["k"] == "call" and t_["f"].get("k") == "fn":
                        fd = t_["f"]["def"]
                        ta_ = json.dumps([x for x in t_["f"].get("args", []) if x.get("k") != "region"])
                        if fd in ("core::mem::size_of", "core::mem::align_of", "core::mem::size_of_val", "core::mem::align_of_val", "core::alloc::Layout::new", "core::alloc::Layout::for_value") \
                                and ("GenericArray" in ta_ or "ArrayType" in ta_):
                            bad_.append("%s in %s" % (fd.split("::")[-1], bd["path"]))
                        cal = by_path.get(t_["f"].get("res") or fd) or by_path.get(fd)
                        if cal is not None:
                            work_.append(cal)
                        txt_ = json.dumps(t_.get("args", []))
                        for m_ in re.finditer(r'"k": "uneval", "def": "([^"]+)"', txt_):
                            if m_.group(1) in by_path:
                                work_.append(by_path[m_.group(1)])
            ctx.ob("C18.L", K + "len", not bad_, "len() and the %d crate body(ies) / constant(s) it evaluates never ask for the layout of the array type (so it exists for lengths whose array cannot): %s" % (
                len(seen_), "none does" if not bad_ else sorted(set(bad_))), at=lb["at"], cfg=cfg)
        # C18.H: the compile-time evaluator rejects an optimiser hint that is false (`assume called with false`, entering unreachable code), so in
        # every safe const fn (private helpers expanded) each hint - assert_unchecked(c) / `if !c { unreachable_unchecked() }` - must be one the
        # function's own path facts make true for every input; an unsafe const fn may rest its hints on its caller's contract
        from ..rules import ub_hints, fstr as _fstr
        from ..poly import prove as _prove, Poly as _Poly
        n_h = n_cf = 0
        for bd in db.bodies:
            if not bd.get("const") or bd["kind"] not in ("Fn", "AssocFn") or ctx.is_helper(cfg, bd) or (bd.get("sig") or {}).get("unsafe"):
                continue
            n_cf += 1
            if not any(t["term"]["k"] == "call" and t["term"]["f"].get("k") == "fn" and t["term"]["f"]["def"].startswith("core::hint::") for t in ctx.inlined(db, bd)["mir"]["blocks"]):
                continue
            a_ = ctx.analysis(cfg, bd["key"])
            for j, (c_, bad_) in enumerate(ub_hints(a_)):
                n_h += 1
                inf = bad_ is not None and _prove((">=", _Poly.const(-1)), a_.poly_facts(bad_))
                ctx.ob("C18.H", "%s#hint#%d" % (bd["key"], j), inf, "%s in a safe const fn: the facts under which the hint would be false (%s) are contradictory: %s" % (
                    c_.fn.split("::")[-1], _fstr(bad_) if bad_ is not None else "condition not modelled", inf), at=c_.at or bd["at"], cfg=cfg, frozen=False)
        ctx.ob("C18.H", "sweep (%s)" % cfg, n_cf >= 20, "safe const fns swept for optimiser hints (helpers expanded): %d; hint sites judged: %d" % (n_cf, n_h), cfg=cfg)
        # C18.M: write permission - the compile-time evaluator rejects a write through a pointer derived from a shared reference (and it is
        # undefined behaviour at run time): the mutable forms must derive their pointers from `&mut` all the way
        from ..rules import check_write_permission
        check_write_permission(ctx, cfg, "C18.M")
        # UB-freedom obligations of the const fns: cross-referenced rule instances
        check_views(ctx, cfg)
        check_const_transmute(ctx, cfg)
        c02.check_guards(ctx, cfg)
        c02.check_type_level(ctx, cfg)
        for f in ("chunks_from_slice", "chunks_from_slice_mut"):
            c10.check_chunks(ctx, cfg, K + f)
        for f in ("slice_from_chunks", "slice_from_chunks_mut"):
            c10.check_flatten(ctx, cfg, K + f)
        for f in ("from_chunks", "from_chunks_mut", "into_chunks", "into_chunks_mut"):
            c10.check_transmute(ctx, cfg, K + f)
        c03.check_assume_init(ctx, cfg)
    # positive fixture for the zero-count rule
    b0 = ctx.builds["F0"]
    out = os.path.join(tempfile.mkdtemp(prefix="c18-", dir=b0.dir), "facts.json")
    rc, diags, facts, stderr = b0.compile_witness(os.path.join(VERIF, "fixtures", "c18_const_select", "lib.rs"), out_facts=out, crate_name="c18_fixture")
    if rc != 0 or facts is None:
        ctx.ob("C18.D", "fixture", MISSING, "positive fixture did not compile: %s" % stderr[-300:])
    else:
        d = divergence_sites(Facts(facts))
        ctx.ob("C18.D", "fixture", len(d) == 1, "the matcher reports the const_eval_select call of the fixture: %s" % d)
    # const-qualification witnesses
    tw = const_witnesses()
    res = run_twins(tw, {c: ctx.builds[c] for c in ("F0", "F1")})
    by = {(r["twin"], r["kind"]): r for r in res}
    for t in tw:
        ok, det = judge(t, by[(t.name, "accept")], by[(t.name, "reject")])
        ctx.ob("C18.W", t.name, ok, det, cfg=t.cfg)
    ctx.floor("C18.W", "const-qualification witnesses", len(tw), 26)
    ctx.extra["programs"] = len(res)
